import random
from math import *
from pymeeus.Angle import Angle
from pymeeus.Epoch import Epoch, JDE2000
from pymeeus.Sun import Sun
from pymeeus.Coordinates import *
random.seed(6)
def alt_at(tt,lat,lon):
    ls,bs,rs=Sun.apparent_geocentric_position(tt)
    eps=true_obliquity(tt); dpsi=nutation_longitude(tt)
    ra,dec=ecliptical2equatorial(ls,bs,eps)
    # sidereal time wants UT; use tt - deltaT approx
    y,m,d=tt.get_date()
    ut=tt-Epoch.tt2ut(y,m)/86400.0
    st=ut.apparent_sidereal_time(eps,dpsi)*360.0
    H=Angle(st+lon-ra())
    az,alt=equatorial2horizontal(H,dec,Angle(lat))
    return alt(), H()
worst=[]
for _ in range(3000):
    lat=random.uniform(-66.5,66.5); lon=random.uniform(-180,180); h=random.uniform(0,5000)
    y=random.randint(1900,2100); m=random.randint(1,12); d=random.randint(1,28)
    e=Epoch(y,m,d)
    try: r,s=e.rise_set(Angle(lat),Angle(lon),h)
    except Exception as ex: continue
    tgt=-0.83-2.076*sqrt(h)/60.0
    for t in (r,s):
        yy,mm,dd=t.get_date()
        tt=t+(42.184+Epoch.leap_seconds(yy,mm))/86400.0 if yy>=1972 else t+Epoch.tt2ut(yy,mm)/86400.0
        a,H=alt_at(tt,lat,lon)
        worst.append((abs(a-tgt),lat,lon,h,y,m,d))
worst.sort(reverse=True)
print(worst[:8])
import statistics
print('median',statistics.median(w[0] for w in worst), 'n>0.5', sum(1 for w in worst if w[0]>0.5), 'n>1', sum(1 for w in worst if w[0]>1), len(worst))
