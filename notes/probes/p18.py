import random, inspect
from math import *
import pymeeus.Coordinates as C
from pymeeus.Angle import Angle
from pymeeus.Epoch import Epoch, JDE2000
src=inspect.getsource(C.precession_equatorial).replace("final_dec = sqrt(a * a + b * b)","final_dec = acos(sqrt(a * a + b * b))")
ns=dict(C.__dict__); exec(src,ns); pe=ns['precession_equatorial']
random.seed(9)
def vec(a,d):
    a=radians(a);d=radians(d);return (cos(d)*cos(a),cos(d)*sin(a),sin(d))
def sep(v,w):
    c=(v[1]*w[2]-v[2]*w[1],v[2]*w[0]-v[0]*w[2],v[0]*w[1]-v[1]*w[0])
    return degrees(atan2(sqrt(sum(x*x for x in c)),sum(x*y for x,y in zip(v,w))))
def y2e(y): return Epoch(2451545.0+(y-2000.0)*365.25)
mx={}
def upd(k,v,info=None):
    if v>mx.get(k,(0,))[0]: mx[k]=(v,info)
for _ in range(60000):
    a=random.uniform(0,360); d=degrees(asin(random.uniform(-1,1)))
    r=random.random()
    if r<0.15: d=random.uniform(85,89.9999)
    elif r<0.3: d=-random.uniform(85,89.9999)
    span=random.choice([500,1000,2000,4000])
    y0=2000+random.uniform(-span,span); y1=2000+random.uniform(-span,span)
    e0,e1=y2e(y0),y2e(y1)
    a1,d1=pe(e0,e1,Angle(a),Angle(d)); a2,d2=pe(e1,e0,a1,d1)
    tag='N' if d>85 else ('S' if d<-85 else 'mid')
    upd('rt_%s_%d'%(tag,span),sep(vec(a,d),vec(a2(),d2())),(a,d,y0,y1,d1()))
    a_=random.uniform(0,360); d_=degrees(asin(random.uniform(-1,1)))
    b1,c1=pe(e0,e1,Angle(a_),Angle(d_))
    upd('rigid_%s'%tag,abs(sep(vec(a1(),d1()),vec(b1(),c1()))-sep(vec(a,d),vec(a_,d_))),(a,d,a_,d_,y0,y1))
for k,v in sorted(mx.items()): print(k,v)
