import importlib
from math import *
names=['Mercury','Venus','Earth','Mars','Jupiter','Saturn','Uranus','Neptune']
k=0.01720209895
for nm in names:
    mod=importlib.import_module('pymeeus.'+nm)
    L1=mod.VSOP87_L[1][0][0]*1e-8   # rad per millennium
    rate_series=degrees(L1)/10.0     # deg per century
    rate_elem=mod.ORBITAL_ELEM[0][1]
    a=mod.ORBITAL_ELEM[1][0]
    n_elem=radians(rate_elem)/36525.0  # rad/day (tropical: includes precession)
    n_sid=radians(mod.ORBITAL_ELEM_J2000[0][1])/36525.0
    print(nm,'rate rel diff',abs(rate_series-rate_elem)/rate_elem, 'kepler3 n^2a^3/k^2 (J2000 rate)', n_sid**2*a**3/k**2, '(of-date rate)', n_elem**2*a**3/k**2)
