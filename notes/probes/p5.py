import random, importlib
from math import *
from pymeeus.Angle import Angle
from pymeeus.Epoch import Epoch, JDE2000
from pymeeus.Coordinates import *
random.seed(1)
names=['Mercury','Venus','Earth','Mars','Jupiter','Saturn','Uranus','Neptune']
def y2jde(y): return 2451545.0+(y-2000.0)*365.25
for nm in names:
    mod=importlib.import_module('pymeeus.'+nm); P=getattr(mod,nm)
    maxdl=maxdr=maxb=0; minr=9e9; maxr=0; maxinc=0
    worst=None
    rates=[]
    for _ in range(1500):
        y=random.uniform(-2000,4000)
        ep=Epoch(y2jde(y))
        l,b,r=P.geometric_heliocentric_position(ep)
        L,a,e,i,om,arg=P.orbital_elements_mean_equinox(ep)
        M=L-(om+arg)   # mean anomaly = L - pi
        E_,v=kepler_equation(e,M)
        rk=a*(1-e*cos(E_.rad()))
        # heliocentric lon/lat from elements
        u=(arg+v).rad(); ir=i.rad(); omr=om.rad()
        x=cos(omr)*cos(u)-sin(omr)*sin(u)*cos(ir)
        yv=sin(omr)*cos(u)+cos(omr)*sin(u)*cos(ir)
        z=sin(ir)*sin(u)
        lk=degrees(atan2(yv,x))%360; bk=degrees(asin(z))
        dl=((l()-lk+180)%360)-180
        if abs(dl)>maxdl: maxdl=abs(dl); worst=y
        maxb=max(maxb,abs(b()-bk)); maxdr=max(maxdr,abs(r-rk)/rk)
        q=a*(1-e); Q=a*(1+e)
        minr=min(minr,(r-q)/q); maxr=max(maxr,(r-Q)/Q)
        maxinc=max(maxinc,abs(b())-i())
        assert 0<=l()<360
        # daily rate
        l2,b2,r2=P.geometric_heliocentric_position(Epoch(y2jde(y)+1.0))
        rate=((l2()-l()+180)%360)-180
        n=0.9856076686/(a*sqrt(a))
        vmax=n*sqrt(1-e*e)/(1-e)**2*1; vmin=n*sqrt(1-e*e)/(1+e)**2
        rates.append((rate/vmax, rate/vmin))
    print(nm,'max dlon',round(maxdl,4),'@',round(worst),'dlat',round(maxb,4),'dr rel',round(maxdr,5),'r-q rel min',round(minr,5),'r-Q rel max',round(maxr,5),'|b|-i max',round(maxinc,4),'rate/vmax max',round(max(x for x,_ in rates),4),'rate/vmin min',round(min(x for _,x in rates),4))
