from math import *
from pymeeus.Angle import Angle
from pymeeus.Epoch import Epoch, JDE2000
from pymeeus.Coordinates import *
from pymeeus.Earth import Earth
import pymeeus.Earth as E
for ep in [Epoch(1992,10,13.0), Epoch(1900,1,1.0), Epoch(2100,1,1.0), Epoch(1500,3,3.0)]:
    t=(ep-JDE2000)/36525.0
    for fk in (True, False):
        l,b,r=Earth.geometric_heliocentric_position(ep, fk)
        lj,bj,rj=Earth.geometric_heliocentric_position_j2000(ep, fk)
        d=(l()-lj())
        d=(d+180)%360-180
        print(ep, fk, 'lon_date-lon_j2000 arcsec', d*3600, 'general precession IAU76', 5029.0966*t+1.11113*t*t, 'diff', d*3600-(5029.0966*t+1.11113*t*t))
    # using vsop_pos raw
    l,b,r=vsop_pos(ep,E.VSOP87_L,E.VSOP87_B,E.VSOP87_R)
    lj,bj,rj=vsop_pos(ep,E.VSOP87_L_J2000,E.VSOP87_B_J2000,E.VSOP87_R)
    lp,bp=precession_ecliptical(ep,JDE2000,l,b)
    print('   raw: prec(date->J2000)-j2000 arcsec', (lp()-lj())*3600, (bp()-bj())*3600)
    lq,bq=precession_ecliptical(JDE2000,ep,lj,bj)
    print('   raw: prec(J2000->date)-ofdate arcsec', (lq()-l())*3600, (bq()-b())*3600)
