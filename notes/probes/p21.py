import copy, random
from math import *
from pymeeus.Angle import Angle
from pymeeus.Epoch import Epoch, JDE2000
from pymeeus.Coordinates import *
import pymeeus.Earth as E
from pymeeus.Earth import Earth
from pymeeus.Sun import Sun
random.seed(12)
def vec(a,d):
    a=radians(a);d=radians(d);return (cos(d)*cos(a),cos(d)*sin(a),sin(d))
def sep(v,w):
    c=(v[1]*w[2]-v[2]*w[1],v[2]*w[0]-v[0]*w[2],v[0]*w[1]-v[1]*w[0])
    return degrees(atan2(sqrt(sum(x*x for x in c)),sum(x*y for x,y in zip(v,w))))
LJ=copy.deepcopy(E.VSOP87_L_J2000); 
assert LJ[0][2][2]==12556.1517
LJ[0][2][2]=12566.1517
mx={}
def upd(k,v,i=None):
    if v>mx.get(k,(0,))[0]: mx[k]=(v,i)
for _ in range(1500):
    y=random.uniform(1000,3000); ep=Epoch(2451545.0+(y-2000)*365.25)
    l,b,r=Earth.geometric_heliocentric_position(ep)
    lj,bj,rj=geometric_vsop_pos(ep,LJ,E.VSOP87_B_J2000,E.VSOP87_R,True)
    lp,bp=precession_ecliptical(ep,JDE2000,l,b)
    upd('L1_fixed_arcsec',sep(vec(lp(),bp()),vec(lj(),bj()))*3600,y)
    # signature for typo: observed (buggy) minus fixed equals term difference
    lb,bb,rb=Earth.geometric_heliocentric_position_j2000(ep)
    t=(ep.jde()-2451545.0)/365250.0
    pred=34894.0*(cos(4.6261+12556.1517*t)-cos(4.6261+12566.1517*t))*1e-8
    upd('typo_signature_resid_arcsec',abs(((lb()-lj()+180)%360-180)-degrees(pred))*3600,y)
    # L2: rect j2000 (library, buggy L) vs own rotation of lib's j2000 lon/lat
    lon=radians(lb()+180); lat=-bb.rad()
    x=rb*cos(lat)*cos(lon); yv=rb*cos(lat)*sin(lon); z=rb*sin(lat)
    ce=cos(radians(23.4392911)); se=sin(radians(23.4392911))
    own=(x, yv*ce-z*se, yv*se+z*ce)
    X=Sun.rectangular_coordinates_j2000(ep)
    n=sqrt(sum(a*a for a in X))
    upd('L2_arcsec',sep(tuple(a/n for a in X),tuple(a/rb for a in own))*3600,y)
    upd('L2_norm',abs(n-rb))
    # L3 correct matrix vs precession of L2 output to B1950
    xb = 0.999925702634*x + 0.012189716217*yv + 0.000011134016*z
    yb = -0.011179418036*x + 0.917413998946*yv - 0.397777041885*z
    zb = -0.004859003787*x + 0.397747363646*yv + 0.917482111428*z
    ra=Angle(atan2(X[1],X[0]),radians=True); dec=Angle(asin(X[2]/n),radians=True)
    b1950=Epoch(2433282.4235)
    ra1,dec1=precession_equatorial(JDE2000,b1950,ra,dec)
    nb=sqrt(xb*xb+yb*yb+zb*zb)
    upd('L3_correct_vs_prec_arcsec',sep((xb/nb,yb/nb,zb/nb),vec(ra1(),dec1()))*3600,y)
    # library b1950 equals sequential application exactly?
    xs_=xb; ys_=-0.011179418036*xs_ + 0.917413998946*yv - 0.397777041885*z; zs_=-0.004859003787*xs_ + 0.397747363646*ys_ + 0.917482111428*z
    B=Sun.rectangular_coordinates_b1950(ep)
    upd('b1950_seq_signature',max(abs(B[0]-xs_),abs(B[1]-ys_),abs(B[2]-zs_)))
    # L4: equinox with T=0 vs precession
    eq=Epoch(2451545.0+random.uniform(-300,300)*365.25)
    ra2,dec2=precession_equatorial(JDE2000,eq,ra,dec)
    Xe=Sun.rectangular_coordinates_equinox(eq,eq)  # epoch==equinox => tt=0 in code
    # code with epoch=eq gives j2000 coords at eq, not ep: instead emulate: use library function with epoch such that tt=0 impossible; so compute own matrix with T=0
    tq=(eq-JDE2000)/36525.0
    zeta=radians((tq*(2306.2181+tq*(0.30188+0.017998*tq)))/3600); zz=radians((tq*(2306.2181+tq*(1.09468+0.018203*tq)))/3600); th=radians((tq*(2004.3109+tq*(-0.42665-0.041833*tq)))/3600)
    xx=cos(zeta)*cos(zz)*cos(th)-sin(zeta)*sin(zz); xy=sin(zeta)*cos(zz)+cos(zeta)*sin(zz)*cos(th); xz=cos(zeta)*sin(th)
    yx=-cos(zeta)*sin(zz)-sin(zeta)*cos(zz)*cos(th); yy=cos(zeta)*cos(zz)-sin(zeta)*sin(zz)*cos(th); yz=-sin(zeta)*sin(th)
    zx=-cos(zz)*sin(th); zy=-sin(zz)*sin(th); zzz=cos(th)
    xp=xx*X[0]+yx*X[1]+zx*X[2]; yp=xy*X[0]+yy*X[1]+zy*X[2]; zp=xz*X[0]+yz*X[1]+zzz*X[2]
    upd('L4_T0_vs_prec_arcsec',sep((xp/n,yp/n,zp/n),vec(ra2(),dec2()))*3600,(y,eq.year()))
for k,v in sorted(mx.items()): print(k,v)
