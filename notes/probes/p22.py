import random, math, operator, datetime
from fractions import Fraction as F
from pymeeus.Angle import Angle
from pymeeus.Epoch import Epoch, JDE2000
from pymeeus.Coordinates import *
random.seed(13)
def gen():
    r=random.random()
    if r<0.3: return random.uniform(-1000,1000)
    if r<0.5: return random.choice([-1,1])*(360*random.randint(0,5)+random.choice([0,1e-12,-1e-12,1e-9, 2**-40]))
    if r<0.6: return random.randint(-2000,2000)
    if r<0.7: return random.choice([0.0,-0.0,5e-324,1e-300,359.99999999999994,-359.99999999999994,360.0,-360.0,1e15,-1e15, 123456789012345.67])
    return random.uniform(-360,360)
def congr(val,exact,scale=None):
    # val float in (-360,360), exact Fraction
    if not (-360<val<360): return False,'range'
    d=(F(val)-exact)%360
    if d>180: d-=360
    tol=F(1,10**9)*max(1,abs(exact))
    if abs(d)>tol: return False,'congr %s'%float(d)
    if exact!=0 and val!=0 and (val>0)!=(exact>0) and abs(exact)%360!=0: 
        # sign
        if abs((abs(exact))%360)>tol and abs(360-(abs(exact)%360))>tol: return False,'sign'
    return True,''
bad={}
def note(k,v): bad.setdefault(k,[]).append(v)
ops={'add':operator.add,'sub':operator.sub,'mul':operator.mul,'truediv':operator.truediv}
for _ in range(200000):
    x=gen(); a=Angle(x)
    ok,why=congr(a(),F(x))
    if not ok: note('ctor_'+why.split()[0],(x,a()))
    y=gen(); 
    bform=random.choice(['angle','num'])
    b=Angle(y) if bform=='angle' else y
    bv=F(b()) if bform=='angle' else F(y)
    av=F(a())
    for nm,op in ops.items():
        for refl in (False,True):
            if refl and bform=='angle': continue
            try:
                if nm=='truediv':
                    den = av if refl else bv
                    if den==0:
                        try:
                            (op(b,a) if refl else op(a,b)); note('div0_noraise',(x,y,refl))
                        except ZeroDivisionError: pass
                        continue
                    if abs(den)<1e-9: continue
                res= op(b,a) if refl else op(a,b)
                ex = op(bv,av) if refl else op(av,bv)
                ok,why=congr(res(),ex)
                if not ok: note(nm+('_r' if refl else '')+'_'+why.split()[0],(x,y,bform,res(),float(ex)))
            except Exception as e:
                note(nm+'_exc_'+type(e).__name__,(x,y,bform,refl))
    if a()!=Angle(x)(): note('mutated',(x,y))
    # mod with positive b
    if bv>0:
        try:
            res=a%b
            ex=(abs(av)%bv)*(1 if av>=0 else -1)
            ok,why=congr(res(),ex)
            if not ok: note('mod_'+why.split()[0],(x,y,bform,res(),float(ex)))
        except Exception as e: note('mod_exc_'+type(e).__name__,(x,y))
    # to_positive
    p=Angle(x).to_positive()()
    if not (0<=p<360): note('to_positive_range',(x,p))
for k,v in bad.items(): print(k,len(v),v[:3])
print('--- sidereal')
mx=0
for _ in range(100000):
    j=random.choice([random.uniform(0,5.4e6), random.randrange(1000000,4000000)+0.5+random.choice([0,1e-9,-1e-9,1e-6]), 2451545+random.uniform(-40000,40000)])
    e=Epoch(j); j=e.jde()
    t=(j-2451545.0)/36525.0
    th=(280.46061837+360.98564736629*(j-2451545.0)+0.000387933*t*t-t*t*t/38710000.0)/360.0
    th%=1
    g=e.mean_sidereal_time()
    d=abs(((g-th)+0.5)%1-0.5)
    if not (0<=g<1): print('range',j,g)
    if d>mx: mx=d; w=j
print('max diff days',mx,w)
print('--- input forms')
mxd=0
for _ in range(50000):
    y=random.randint(1,9999); m=random.randint(1,12); d=random.randint(1,28)
    if (y,m)==(1582,10): continue
    h=random.randint(0,23); mi=random.randint(0,59); s=random.randint(0,59)+random.choice([0,0.5,0.999999])
    ref=Epoch(y,m,d,h,mi,s).jde()
    forms=[Epoch((y,m,d,h,mi,s)),Epoch([y,m,d,h,mi,s]),Epoch(y,Epoch.get_month(m,as_string=True),d,h,mi,s),Epoch(y,Epoch.get_month(m,as_string=True)[:3].upper(),d,h,mi,s),
           Epoch(y,m,d+(h+(mi+s/60.0)/60.0)/24.0), Epoch(Epoch(y,m,d,h,mi,s)), Epoch(float(y),float(m),d,h,mi,s)]
    e2=Epoch(); e2.set(y,m,d,h,mi,s); forms.append(e2)
    if s==int(s): forms.append(Epoch(datetime.datetime(y,m,d,h,mi,int(s))))
    for i,f in enumerate(forms):
        dd=abs(f.jde()-ref)
        if dd>mxd: mxd=dd; wi=(i,y,m,d,h,mi,s)
print('max form disagreement',mxd,wi)
