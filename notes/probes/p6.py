import random, importlib, sys
from math import *
from pymeeus.Angle import Angle
from pymeeus.Epoch import Epoch, JDE2000
from pymeeus.Earth import Earth
random.seed(2)
def y2jde(y): return 2451545.0+(y-2000.0)*365.25
def w180(x): return (x+180.0)%360.0-180.0
def hel(P,j):
    l,b,r=P.geometric_heliocentric_position(Epoch(j))
    l=l.rad(); b=b.rad()
    return (r*cos(b)*cos(l), r*cos(b)*sin(l), r*sin(b)), degrees(b), r
def geo(P,j):
    e,_,_=hel(Earth,j)
    p,_,_=hel(P,j)
    d=sqrt(sum((a-b)**2 for a,b in zip(p,e)))
    p,_,_=hel(P,j-0.0057755183*d)
    g=tuple(a-b for a,b in zip(p,e))
    s=tuple(-b for b in e)
    lam=degrees(atan2(g[1],g[0])); lams=degrees(atan2(s[1],s[0]))
    dot=sum(a*b for a,b in zip(g,s)); 
    ng=sqrt(sum(a*a for a in g)); ns=sqrt(sum(a*a for a in s))
    elong=degrees(acos(max(-1,min(1,dot/(ng*ns)))))
    return lam, lams, elong, ng, ns
def bisect(f,a,b,n=40):
    fa=f(a); fb=f(b)
    if fa*fb>0: return None
    for _ in range(n):
        m=(a+b)/2; fm=f(m)
        if fa*fm<=0: b=m; fb=fm
        else: a=m; fa=fm
    return (a+b)/2
def golden_max(f,a,b,n=40):
    g=(sqrt(5)-1)/2
    c=b-g*(b-a); d=a+g*(b-a); fc=f(c); fd=f(d)
    for _ in range(n):
        if fc>fd: b=d; d=c; fd=fc; c=b-g*(b-a); fc=f(c)
        else: a=c; c=d; fc=fd; d=a+g*(b-a); fd=f(d)
    return (a+b)/2
def dnum(f,t,h): return (f(t+h)-f(t-h))/(2*h)

which=sys.argv[1]
N=int(sys.argv[2]) if len(sys.argv)>2 else 30
mod=importlib.import_module('pymeeus.'+which); P=getattr(mod,which)
syn={'Mercury':115.88,'Venus':583.92,'Mars':779.94,'Jupiter':398.88,'Saturn':378.09,'Uranus':369.66,'Neptune':367.49}
orb={'Mercury':87.97,'Venus':224.70,'Earth':365.26,'Mars':686.98,'Jupiter':4332.6,'Saturn':10759.2,'Uranus':30688.5,'Neptune':60182}
res={}
def rec(k,v):
    res.setdefault(k,[]).append(v)
for _ in range(N):
    y=random.uniform(-1999,3999)
    q=Epoch(y2jde(y))
    for name in ['inferior_conjunction','superior_conjunction','conjunction','opposition']:
        if hasattr(P,name):
            t=getattr(P,name)(q)()
            tgt=180.0 if name=='opposition' else 0.0
            f=lambda j: w180(geo(P,j)[0]-geo(P,j)[1]-tgt)
            w=3.0 if which in('Mercury','Venus','Mars') else 6.0
            r=bisect(f,t-w,t+w)
            rec(name, None if r is None else r-t)
            rec(name+'_dq', t-q())
    for name in ['western_elongation','eastern_elongation']:
        if hasattr(P,name):
            t,ang=getattr(P,name)(q); t=t()
            f=lambda j: geo(P,j)[2]
            r=golden_max(f,t-4,t+4)
            rec(name,(r-t, f(t)-ang(), f(r)-ang()))
            lam,lams,_,_,_=geo(P,t)
            rec(name+'_side', w180(lam-lams))
    for name in ['station_longitude_1','station_longitude_2']:
        if hasattr(P,name):
            t=getattr(P,name)(q)()
            lamf=lambda j: geo(P,j)[0]
            f=lambda j: w180(lamf(j+0.01)-lamf(j-0.01))/0.02
            w=3.0 if which in('Mercury','Venus','Mars') else 8.0
            r=bisect(f,t-w,t+w)
            rec(name, None if r is None else r-t)
    if hasattr(P,'perihelion_aphelion'):
        for per in (True,False):
            try:
                t=P.perihelion_aphelion(q,per)()
            except Exception as ex:
                rec('peri_exc_%s'%per, (y,repr(ex))); continue
            rf=lambda j: hel(P,j)[2]
            h=orb[which]/2000
            f=lambda j: rf(j+h)-rf(j-h)
            w=orb[which]/50
            r=bisect(f,t-w,t+w)
            rec('perihelion_%s'%per, None if r is None else r-t)
            rec('peri_dq_%s'%per,(t-q())/orb[which])
    if hasattr(P,'passage_nodes') and which!='Earth':
        for asc in (True,False):
            try:
                t,rr=P.passage_nodes(q,asc); t=t()
            except Exception as ex:
                rec('node_exc_%s'%asc,(y,repr(ex))); continue
            f=lambda j: hel(P,j)[1]
            w=orb[which]/20
            r=bisect(f,t-w,t+w)
            rec('node_%s'%asc, None if r is None else r-t)
            rec('node_dq_%s'%asc,(t-q())/orb[which])
            rec('node_r_%s'%asc, hel(P,t)[2]-rr)
for k,v in res.items():
    if 'exc' in k: print(which,k,len(v),v[:3]); continue
    if isinstance(v[0],tuple):
        for i in range(len(v[0])):
            print(which,k,i,'max abs',max(abs(x[i]) for x in v))
    else:
        nn=[x for x in v if x is None]
        vv=[x for x in v if x is not None]
        print(which,k,'n',len(v),'None',len(nn),'min',min(vv) if vv else None,'max',max(vv) if vv else None)
