from math import *
from pymeeus.Angle import Angle
from pymeeus.Epoch import Epoch, JDE2000
from pymeeus.Coordinates import *
from pymeeus.Earth import Earth, IAU76
from pymeeus.Sun import Sun
from pymeeus.Neptune import Neptune
from pymeeus.Jupiter import Jupiter
from pymeeus.Venus import Venus
from pymeeus.Minor import Minor
def vec(a,d):
    a=radians(a);d=radians(d);return (cos(d)*cos(a),cos(d)*sin(a),sin(d))
def sep(v,w):
    c=(v[1]*w[2]-v[2]*w[1],v[2]*w[0]-v[0]*w[2],v[0]*w[1]-v[1]*w[0])
    return degrees(atan2(sqrt(sum(x*x for x in c)),sum(x*y for x,y in zip(v,w))))
print("(h) equation of time around March equinox")
for y in []:
    for d in range(15, 27):
        e=Epoch(y,3,d)
        print(y,d,Sun.equation_of_time(e), end=' | ')
    print()
# zero crossings
for (m,d0) in [(4,12),(6,10),(9,1),(12,22)]:
    print([Sun.equation_of_time(Epoch(2001,m,d0+i)) for i in range(8)])
print("(i) elongation Sun epoch")
for P,name in [(Neptune,'Nep'),(Jupiter,'Jup'),(Venus,'Ven')]:
    e=Epoch(2010,3,1.0)
    ra,dec,el=P.geocentric_position(e)
    ls,bs,rs=Sun.apparent_geocentric_position(e)
    eps=true_obliquity(e)
    ras,decs=ecliptical2equatorial(ls,bs,eps)
    print(name, el(), sep(vec(ra(),dec()),vec(ras(),decs())), el()-sep(vec(ra(),dec()),vec(ras(),decs())))
print("(k) equinox2equinox small i")
e0=Epoch(2000,1,1.5); e1=Epoch(2100,1,1.5)
for i0 in [0.0,0.5,0.999,1.0,5.0]:
    i1,a1,l1=orbital_equinox2equinox(e0,e1,Angle(i0),Angle(100.0),Angle(50.0))
    i2,a2,l2=orbital_equinox2equinox(e1,e0,i1,a1,l1)
    print(i0,(i1(),a1(),l1()),(i2(),a2(),l2()))
print("frames analysis")
for ep in [Epoch(1992,10,13.0), Epoch(1500,3,3.0), Epoch(2800,7,1.0), Epoch(2000,1,1.5)]:
    l,b,r=Earth.geometric_heliocentric_position(ep)
    lj,bj,rj=Earth.geometric_heliocentric_position_j2000(ep)
    lp,bp=precession_ecliptical(ep,JDE2000,l,b)
    print(ep, 'eclip of-date->J2000 vs j2000 series: dlon arcsec',(lp()-lj())*3600,'dlat',(bp()-bj())*3600, 'dr', r-rj)
