from math import *
import pymeeus.Earth as E
def sums(tab,t):
    return [sum(a*cos(b+c*t) for a,b,c in s) for s in tab]
for yr in [1900.0, 1992.78, 2100.0]:
    t=(yr-2000.0)/1000.0
    s1=sums(E.VSOP87_L,t); s2=sums(E.VSOP87_L_J2000,t)
    print(yr)
    for i,(a,b) in enumerate(zip(s1,s2)):
        print('  L%d'%i, a, b, 'diff*t^i arcsec', (a-b)*t**i*1e-8*206264.8)
