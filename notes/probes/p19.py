import random, importlib
from math import *
from pymeeus.Angle import Angle
from pymeeus.Epoch import Epoch, JDE2000
from pymeeus.Earth import Earth
from pymeeus.Sun import Sun
from pymeeus.Pluto import Pluto
from pymeeus.Minor import Minor
from pymeeus.Coordinates import *
random.seed(10)
def vec(a,d):
    a=radians(a);d=radians(d);return (cos(d)*cos(a),cos(d)*sin(a),sin(d))
def sep(v,w):
    c=(v[1]*w[2]-v[2]*w[1],v[2]*w[0]-v[0]*w[2],v[0]*w[1]-v[1]*w[0])
    return degrees(atan2(sqrt(sum(x*x for x in c)),sum(x*y for x,y in zip(v,w))))
def y2jde(y): return 2451545.0+(y-2000.0)*365.25
def hel(P,j):
    l,b,r=P.geometric_heliocentric_position(Epoch(j)); l=l.rad(); b=b.rad()
    return (r*cos(b)*cos(l), r*cos(b)*sin(l), r*sin(b))
mx={}
def upd(k,v,info=None):
    if v>mx.get(k,(0,))[0]: mx[k]=(v,info)
for nm in ['Mercury','Venus','Mars','Jupiter','Saturn','Uranus','Neptune']:
    P=getattr(importlib.import_module('pymeeus.'+nm),nm)
    for _ in range(60):
        y=random.uniform(-2000,4000); j=y2jde(y); e=Epoch(j); j0=e.jde()
        ra,dec,el=P.geocentric_position(e)
        assert e.jde()==j0
        E=hel(Earth,j); p=hel(P,j); d=sqrt(sum((a-b)**2 for a,b in zip(p,E)))
        p=hel(P,j-0.0057755183*d); g=tuple(a-b for a,b in zip(p,E))
        lam=degrees(atan2(g[1],g[0])); bet=degrees(atan2(g[2],hypot(g[0],g[1])))
        eps=mean_obliquity(e)
        ra0,dec0=ecliptical2equatorial(Angle(lam),Angle(bet),eps)
        upd(nm+'_dir',sep(vec(ra(),dec()),vec(ra0(),dec0())),y)
        ls,bs,rs=Sun.apparent_geocentric_position(e); epst=true_obliquity(e)
        ras,decs=ecliptical2equatorial(ls,bs,epst)
        upd(nm+'_elong',abs(el()-sep(vec(ra(),dec()),vec(ras(),decs()))),y)
        upd(nm+'_elmax',el())
# Pluto
for _ in range(100):
    y=random.uniform(1885.1,2098.9); j=y2jde(y); e=Epoch(j)
    ra,dec=Pluto.geocentric_position(e)
    xs,ys,zs=Sun.rectangular_coordinates_j2000(e)
    def pl(jj):
        l,b,r=Pluto.geometric_heliocentric_position(Epoch(jj)); l=l.rad(); b=b.rad()
        x=r*cos(b)*cos(l); yv=r*cos(b)*sin(l); z=r*sin(b)
        ce=cos(radians(23.4392911)); se=sin(radians(23.4392911))
        return (x, yv*ce-z*se, yv*se+z*ce)
    p=pl(j); g=(p[0]+xs,p[1]+ys,p[2]+zs); d=sqrt(sum(a*a for a in g))
    p=pl(j-0.0057755183*d); g=(p[0]+xs,p[1]+ys,p[2]+zs)
    ra0=degrees(atan2(g[1],g[0])); dec0=degrees(atan2(g[2],hypot(g[0],g[1])))
    upd('Pluto_dir',sep(vec(ra(),dec()),vec(ra0,dec0)),y)
# Minor: independent two-body propagator
K=0.01720209895
def kepler_ref(q,e,dt):
    # returns (r, v) true anomaly rad, using universal-ish: elliptic via Newton on E; parabolic via Barker; near-parabolic via elliptic too (e<1)
    if e<1.0:
        a=q/(1-e); n=K/(a*sqrt(a)); M=n*dt
        M=(M+pi)%(2*pi)-pi
        E=M if e<0.8 else pi*(1 if M>=0 else -1)
        for _ in range(200):
            f=E-e*sin(E)-M; fp=1-e*cos(E); dE=f/fp; E-=dE
            if abs(dE)<1e-15: break
        v=2*atan2(sqrt(1+e)*sin(E/2),sqrt(1-e)*cos(E/2)); r=a*(1-e*cos(E))
        return r,v
    else:
        W=3*K/sqrt(2)*dt/(q*sqrt(q))
        Y=(W/2+sqrt(W*W/4+1))**(1/3.0); s=Y-1/Y
        return q*(1+s*s), 2*atan(s)
ce=cos(radians(23.4392911)); se=sin(radians(23.4392911))
def minor_ref(q,e,i,om,w,tper,j):
    def pos(jj):
        r,v=kepler_ref(q,e,jj-tper); u=radians(w)+v; O=radians(om); I=radians(i)
        x=r*(cos(O)*cos(u)-sin(O)*sin(u)*cos(I)); y=r*(sin(O)*cos(u)+cos(O)*sin(u)*cos(I)); z=r*sin(I)*sin(u)
        return (x,y*ce-z*se,y*se+z*ce)
    xs,ys,zs=Sun.rectangular_coordinates_j2000(Epoch(j))
    p=pos(j); g=(p[0]+xs,p[1]+ys,p[2]+zs); d=sqrt(sum(a*a for a in g))
    p=pos(j-0.0057755183*d); g=(p[0]+xs,p[1]+ys,p[2]+zs)
    return degrees(atan2(g[1],g[0])), degrees(atan2(g[2],hypot(g[0],g[1]))), sqrt(sum(a*a for a in g)), (xs,ys,zs), g
exc={}
for _ in range(1500):
    q=10**random.uniform(-1,log10(30)); 
    e=random.choice([random.uniform(0,0.98),0.0,0.5,0.9799999,0.98,0.99,0.999,1.0,random.uniform(0.98,1.0)])
    i=random.uniform(0,180); om=random.uniform(0,360); w=random.uniform(0,360)
    tper=y2jde(random.uniform(1900,2100)); j=tper+random.uniform(-50,50)*365.25
    kind='ell' if e<0.98 else ('par' if e==1.0 else 'near')
    try:
        m=Minor(q,e,Angle(i),Angle(om),Angle(w),Epoch(tper))
        ra,dec,el=m.geocentric_position(Epoch(j))
    except Exception as ex:
        exc.setdefault(kind+':'+repr(ex)[:40],[]).append((q,e,(j-tper)/365.25)); continue
    ra0,dec0,dist,S,g=minor_ref(q,e,i,om,w,tper,j)
    s=sep(vec(ra(),dec()),vec(ra0,dec0))
    upd('minor_'+kind+('_far' if dist>=0.1 else '_close'),s,(q,e,i,om,w,tper,j,dist))
    ns=sqrt(sum(a*a for a in S)); ng=sqrt(sum(a*a for a in g))
    elr=degrees(acos(sum(a*b for a,b in zip(S,g))/(ns*ng)))
    upd('minor_elong_'+kind,abs(elr-el()),(q,e))
for k,v in sorted(mx.items()): print(k,v)
for k,v in exc.items(): print('EXC',k,len(v),v[:4])
