import importlib, sys
from pymeeus.Epoch import Epoch
from pymeeus.Moon import Moon
syn={'Mercury':115.88,'Venus':583.92,'Mars':779.94,'Jupiter':398.88,'Saturn':378.09,'Uranus':369.66,'Neptune':367.49}
def y2jde(y): return 2451545.0+(y-2000.0)*365.25
def sweep(f,per,j0,j1,unpack=False):
    j=j0; prev=None; gaps=[]; back=0; dq=[0,0]; exc=0
    while j<j1:
        try:
            r=f(Epoch(j))
        except Exception as e:
            exc+=1; j+=per/20; continue
        if unpack: r=r[0]
        r=r()
        dq[0]=min(dq[0],(r-j)/per); dq[1]=max(dq[1],(r-j)/per)
        if prev is not None:
            if r<prev-1e-6: back+=1
            elif r>prev+1e-6: gaps.append(r-prev)
        prev=r; j+=per/20
    return (min(gaps)/per,max(gaps)/per,back,dq,exc,len(gaps))
for nm,per in syn.items():
    P=getattr(importlib.import_module('pymeeus.'+nm),nm)
    for fn in ['inferior_conjunction','superior_conjunction','conjunction','opposition','western_elongation','eastern_elongation','station_longitude_1','station_longitude_2']:
        if hasattr(P,fn):
            f=getattr(P,fn)
            print(nm,fn,sweep(f,per,y2jde(-1999),y2jde(3999),unpack='elong' in fn))
for tg,per,fn in [('new',29.53,'moon_phase'),('last',29.53,'moon_phase'),('perigee',27.55,'moon_perigee_apogee'),('apogee',27.55,'moon_perigee_apogee'),('ascending',27.21,'moon_passage_nodes'),('descending',27.21,'moon_passage_nodes'),('northern',27.32,'moon_maximum_declination'),('southern',27.32,'moon_maximum_declination')]:
    f=lambda e: getattr(Moon,fn)(e,tg)
    for (a,b) in [(-1999,-1900),(1950,2050),(3900,3999)]:
        print('Moon',fn,tg,(a,b),sweep(f,per,y2jde(a),y2jde(b),unpack=fn in('moon_perigee_apogee','moon_maximum_declination')))
