# C10, C19 probes
from pymeeus.Epoch import Epoch
IERS=[(1972,7),(1973,1),(1974,1),(1975,1),(1976,1),(1977,1),(1978,1),(1979,1),(1980,1),(1981,7),(1982,7),(1983,7),(1985,7),(1988,1),(1990,1),(1991,1),(1992,7),(1993,7),(1994,7),(1996,1),(1997,7),(1999,1),(2006,1),(2009,1),(2012,7),(2015,7),(2017,1)]
def ref(y,m): return sum(1 for (yy,mm) in IERS if (yy,mm)<=(y,m))
bad=[]
for y in range(1950,2101):
    for m in range(1,13):
        if Epoch.leap_seconds(y,m)!=ref(y,m): bad.append((y,m,Epoch.leap_seconds(y,m),ref(y,m)))
print('leap table bad',len(bad),bad[:40])
bad2=[];bad3=[]
for y in range(1950,2101):
    for m in range(1,13):
        for d,h,mi,s in [(1,0,0,0),(15,12,0,0),(28,23,59,59)]:
            a=Epoch(y,m,d,h,mi,s,utc=True); b=Epoch(y,m,d,h,mi,s)
            off=(a-b)*86400
            exp=(42.184+ref(y,m)) if y>=1972 else 0.0
            if abs(off-exp)>1e-3: bad2.append((y,m,d,round(off,3),exp))
            yy,mm,dd=a.get_date(utc=True)
            back=Epoch(yy,mm,dd)
            if abs((back-b)*86400)>1e-3: bad3.append((y,m,d,round((back-b)*86400,3)))
print('utc offset bad',len(bad2),bad2[:12]); 
import collections
print(' by month',collections.Counter(x[1] for x in bad2))
print('utc readback bad',len(bad3),bad3[:12]); print(' by (year<1973)',collections.Counter((x[0]<=1972, x[1]) for x in bad3).most_common(30))
# deltaT
mx=0
for y in range(1972,2019):
    for m in range(1,13):
        d=Epoch.tt2ut(y,m)-(42.184+ref(y,m)); mx=max(mx,abs(d))
print('deltaT vs leap max',mx)
joints=[-500,500,1600,1700,1800,1860,1900,1920,1941,1961,1986,2005,2050,2150]
for j in joints:
    print(j, Epoch.tt2ut(j-1,12), Epoch.tt2ut(j,1), Epoch.tt2ut(j,1)-Epoch.tt2ut(j-1,12))
# Easter
import datetime
def easter_ref_greg(y):
    # tabular epact computus (Oudin-independent): use golden number/epact definition
    g=y%19+1; c=y//100+1; x=3*c//4-12; z=(8*c+5)//25-5; d=5*y//4-x-10
    e=(11*g+20+z-x)%30
    if (e==25 and g>11) or e==24: e+=1
    n=44-e
    if n<21: n+=30
    n=n+7-((d+n)%7)
    return (4,n-31) if n>31 else (3,n)
def easter_ref_jul(y):
    g=y%19+1; e=(11*g-4)%30+1  # julian epact
    d=5*y//4
    n=44-e  # hmm placeholder
    return None
badE=[]
for y in range(1583,10001):
    if Epoch.easter(y)!=easter_ref_greg(y): badE.append((y,Epoch.easter(y),easter_ref_greg(y)))
print('easter greg bad',len(badE),badE[:5])
badS=[]
for y in range(-4712,10001):
    m,d=Epoch.easter(y)
    try:
        e=Epoch(y,m,d)
        if e.dow()!=0 or not ((m,d)>=(3,22) and (m,d)<=(4,25)): badS.append((y,m,d,e.dow()))
    except Exception as ex: badS.append((y,m,d,repr(ex)))
print('easter sunday/range bad',len(badS),badS[:10])
# Pesach dow
badP=[]
for y in range(1,3001):
    m,d=Epoch.jewish_pesach(y)
    w=Epoch(y,m,d).dow()
    if w not in (0,2,4,6): badP.append((y,m,d,w))
print('pesach dow bad',len(badP),badP[:10])
# Moslem roundtrip
badM=[];prev=None;n=0
import itertools
for h in range(1,2501):
    for mo in range(1,13):
        for d in (1,2,15,29,30):
            try:
                g=Epoch.moslem2gregorian(h,mo,d)
                back=Epoch.gregorian2moslem(*g)
                n+=1
                if back!=(h,mo,d) and d<30: badM.append(((h,mo,d),g,back))
            except Exception as ex: badM.append(((h,mo,d),repr(ex)))
print('moslem rt n',n,'bad',len(badM),badM[:10])
print(Epoch.moslem2gregorian(1,1,1))
