import time, sys
from pymeeus.Epoch import Epoch
def jdn_julian(y,m,d):
    a=(14-m)//12; yy=y+4800-a; mm=m+12*a-3
    return d+(153*mm+2)//5+365*yy+yy//4-32083
def jdn_greg(y,m,d):
    a=(14-m)//12; yy=y+4800-a; mm=m+12*a-3
    return d+(153*mm+2)//5+365*yy+yy//4-yy//100+yy//400-32045
def is_jul(y,m,d): return (y,m,d)<(1582,10,15)
def mlen(y,m):
    if m==2:
        leap = (y%4==0) if y<1582 else (y%4==0 and (y%100!=0 or y%400==0))
        return 29 if leap else 28
    return [31,28,31,30,31,30,31,31,30,31,30,31][m-1]
t0=time.time()
bad=[];n=0; prev=None
badd=[]; baddow=[]; badyear=[]
y0,y1=int(sys.argv[1]),int(sys.argv[2])
for y in range(y0,y1+1):
    for m in range(1,13):
        L=mlen(y,m)
        for d in range(1,L+1):
            if (y,m)==(1582,10) and 5<=d<=14: continue
            n+=1
            ref=(jdn_julian(y,m,d) if is_jul(y,m,d) else jdn_greg(y,m,d))-0.5
            try:
                e=Epoch(y,m,d)
            except Exception as ex:
                bad.append((y,m,d,repr(ex))); continue
            if e.jde()!=ref: bad.append((y,m,d,e.jde(),ref))
            g=e.get_date()
            if g!=(y,m,float(d)): bad.append((y,m,d,'get_date',g))
            # dow
            if e.dow()!=int(ref+1.5+0.5)%7 and e.dow()!=(int(ref+0.5)+1)%7: baddow.append((y,m,d,e.dow()))
            # doy
            try:
                dd=e.doy()
                refdoy=ref-((jdn_julian(y,1,1) if is_jul(y,1,1) else jdn_greg(y,1,1))-0.5)+1
                if dd!=refdoy: badd.append((y,m,d,dd,refdoy))
            except Exception as ex:
                badd.append((y,m,d,repr(ex)))
            try:
                yr=e.year()
                if int(yr)!=y and not (y<0): badyear.append((y,m,d,yr))
            except Exception as ex:
                badyear.append((y,m,d,repr(ex)))
        for d in (0,L+1):
            try:
                Epoch(y,m,d); bad.append((y,m,d,'accepted'))
            except ValueError: pass
print('dates',n,'time',time.time()-t0)
print('bad',len(bad),bad[:10])
print('baddow',len(baddow),baddow[:5])
print('baddoy',len(badd),badd[:8], badd[-3:])
import collections
print('doy bad years',sorted(collections.Counter(b[0] for b in badd).items())[:40])
print('badyear',len(badyear),badyear[:8])
