import random, itertools
from math import *
from fractions import Fraction as F
from pymeeus.Interpolation import Interpolation
from pymeeus.CurveFitting import CurveFitting
from pymeeus.Earth import Earth, IAU76, WGS84, Ellipsoid
from pymeeus.Angle import Angle
random.seed(11)
# C12: polynomial reproduction & root on full interval
stat={'ok':0}
exc={}
worst=0
for _ in range(20000):
    n=random.randint(2,8)
    xs=random.sample([x/2 for x in range(-20,21)],n)
    deg=random.randint(0,n-1)
    co=[random.randint(-5,5) for _ in range(deg+1)]
    p=lambda x: sum(c*x**k for k,c in enumerate(co))
    dp=lambda x: sum(k*c*x**(k-1) for k,c in enumerate(co) if k>0)
    ys=[float(p(x)) for x in xs]
    it=Interpolation(xs,ys)
    lo,hi=min(xs),max(xs)
    x=random.uniform(lo,hi)
    sc=max(1,max(abs(y) for y in ys))
    worst=max(worst,abs(it(x)-p(x))/sc, abs(it.derivative(x)-dp(x))/max(1,sc))
    # root on random subinterval with sign change (by reference poly)
    a=random.uniform(lo,hi); b=random.uniform(lo,hi)
    if abs(a-b)<1e-3: continue
    if p(a)*p(b)<0:
        try:
            r=it.root(a,b)
            inside=min(a,b)-1e-9<=r<=max(a,b)+1e-9
            val=abs(it(r))
            k='root_inside' if inside else 'root_OUTSIDE'
            stat[k]=stat.get(k,0)+1
            if val>1e-8: stat['root_notzero']=stat.get('root_notzero',0)+1
        except Exception as ex:
            exc.setdefault(repr(ex)[:60],[]).append((xs,co,a,b))
print('poly reproduce worst rel',worst, stat)
for k,v in exc.items(): print('EXC',k,len(v),v[:2])
# default limits full table
st2={}
for _ in range(5000):
    n=random.randint(3,7); xs=sorted(random.sample(range(-10,11),n)); ys=[random.uniform(-10,10) for _ in xs]
    it=Interpolation(xs,ys)
    if ys[0]*ys[-1]<0:
        try:
            r=it.root(); k='ok' if xs[0]<=r<=xs[-1] and abs(it(r))<1e-8 else 'bad'
        except Exception as ex: k=repr(ex)[:50]
        st2[k]=st2.get(k,0)+1
print('full-table roots',st2)
# C17 degenerate
for xs,ys in [([1.0,1.0,1.0],[1.0,2.0,3.0]),([0.1,0.1,0.1],[1.0,2.0,3.0]),([1.0,2.0,3.0],[5.0,5.0,5.0]),([0.1,0.2,0.3],[0.7,0.7,0.7]),([1e3+0.1,1e3+0.1],[1.0,2.0])]:
    cf=CurveFitting(xs,ys)
    for nm in ['correlation_coeff','linear_fitting','quadratic_fitting']:
        try: print(xs,ys,nm,getattr(cf,nm)())
        except Exception as ex: print(xs,ys,nm,repr(ex))
# C18 identities
for ell in (IAU76,WGS84):
    e=Earth(ell); a=ell._a; b=ell.b(); mx=[0,0,0,0]
    for lat in [0,90,-90,45,1e-9,89.999999]+[random.uniform(-90,90) for _ in range(2000)]:
        rc=e.rho_cosphi(lat,0); rs=e.rho_sinphi(lat,0)
        mx[0]=max(mx[0],abs(rc*rc+(rs*a/b)**2-1))
        mx[1]=max(mx[1],abs(e.rp(lat)-a*rc)/a)
        mx[2]=max(mx[2],abs(e.rho(lat)-hypot(rc,rs)))
        mx[3]=max(mx[3],abs(e.linear_velocity(lat)-ell._omega*e.rp(lat)))
    print(mx, e.rm(0)-b*b/a, e.rm(90)-a*a/b)
e=Earth(IAU76)
print(e.distance(0,0,1e-9,0), e.distance(10.0,0.0,10.0,1e-12))
