from pymeeus.Epoch import Epoch
from pymeeus.base import iint
# Reference: arithmetic Hebrew calendar (molad/dehiyyot), Rata Die
def heb_elapsed_days(hy):
    months=(235*hy-234)//19
    parts=12084+13753*months
    day=months*29+parts//25920
    if (3*(day+1))%7<3: day+=1
    return day
def heb_new_year_rd(hy):  # RD of 1 Tishri, with year-length corrections
    d0=heb_elapsed_days(hy-1); d1=heb_elapsed_days(hy); d2=heb_elapsed_days(hy+1)
    corr=0
    if d2-d1==356: corr=2
    elif d1-d0==382: corr=1
    return -1373427+d1+corr   # hebrew epoch RD = -1373427 ; elapsed days count from 1
def rd_to_jdn(rd): return rd+1721424.5  # RD 1 = 0001-01-01 Gregorian => JD 1721425.5
def pesach_ref(y):
    hy=y+3761  # Rosh Hashanah in autumn of civil year y begins hy = y+3761
    rh=heb_new_year_rd(hy)
    p=rh-163
    jd=rd_to_jdn(p)
    e=Epoch(jd+0.0)
    yy,mm,dd=e.get_date()
    return (yy,mm,int(round(dd)))
def pesach_fixed(year):
    c=iint(year/100.0); s=0 if year<1583 else iint((3.0*c-5.0)/4.0)
    a=(12*(year+1))%19; b=year%4
    q=(-1.904412361576+1.554241796621*a+0.25*b-0.003177794022*year+s)
    j=(iint(q)+3*year+5*b+2-s)%7
    r=q-iint(q)
    if j==2 or j==4 or j==6: d=iint(q)+23
    elif j==1 and a>6 and r>0.632870370: d=iint(q)+24
    elif j==0 and a>11 and r>0.897723765: d=iint(q)+23
    else: d=iint(q)+22
    return (4,d-31) if d>31 else (3,d)
# sanity of reference: Pesach 1990 = Apr 10; 2024 = Apr 23; 2000 = Apr 20
print(pesach_ref(1990),pesach_ref(2024),pesach_ref(2000), pesach_ref(1000), pesach_ref(1583))
bad=0;badf=0;ex=[]
for y in range(1,3001):
    r=pesach_ref(y); c=Epoch.jewish_pesach(y); f=pesach_fixed(y)
    if (r[1],r[2])!=c:
        bad+=1
        if len(ex)<8: ex.append((y,r,c,f))
    if (r[1],r[2])!=f: badf+=1
print('code vs ref bad',bad,'fixed vs ref bad',badf,ex)
