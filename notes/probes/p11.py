# C14 probes
import random
from math import *
from pymeeus.Angle import Angle
from pymeeus.Epoch import Epoch, JDE2000
from pymeeus.Sun import Sun
from pymeeus.Coordinates import *
random.seed(6)
def w180(x): return (x+180.0)%360.0-180.0
# seasons
import sys
bad=[]; mx=0
prev={}
gaps=[];sgaps=[]
for y in list(range(-1000,3001,7))+[-1000,-999,999,1000,1001,3000]:
    ts=[]
    for k,tg in enumerate(['spring','summer','autumn','winter']):
        t=Sun.get_equinox_solstice(y,tg)
        lon,lat,r=Sun.apparent_geocentric_position(t)
        d=abs(w180(lon.to_positive()()-90*k)); mx=max(mx,d)
        ts.append(t())
    for a,b in zip(ts,ts[1:]): gaps.append(b-a)
    yy,mm,dd=Epoch(ts[0]).get_date()
    if yy!=y: bad.append((y,yy))
print('season max lon err',mx,'gaps',min(gaps),max(gaps),'yearbad',bad[:5])
for y in [-1000,0,1000,2000,2999]:
    a=Sun.get_equinox_solstice(y,'spring')(); b=Sun.get_equinox_solstice(y+1,'spring')()
    print(y,b-a)
for y in (-1001,3001):
    try: Sun.get_equinox_solstice(y,'spring'); print('accepted',y)
    except ValueError as e: print('ValueError ok',y)
# rise_set
mxalt=0; order=0; n=0; exc=[]
for _ in range(3000):
    lat=random.uniform(-66.5,66.5); lon=random.uniform(-180,180); h=random.uniform(0,5000)
    y=random.randint(1900,2100); m=random.randint(1,12); d=random.randint(1,28)
    e=Epoch(y,m,d)
    try:
        r,s=e.rise_set(Angle(lat),Angle(lon),h)
    except Exception as ex:
        exc.append((lat,lon,h,y,m,d,repr(ex))); continue
    n+=1
    for t in (r,s):
        # t is UTC? treat as TT-ish: compute sun altitude
        tt=t
        ls,bs,rs=Sun.apparent_geocentric_position(tt)
        eps=true_obliquity(tt); dpsi=nutation_longitude(tt)
        ra,dec=ecliptical2equatorial(ls,bs,eps)
        st=tt.apparent_sidereal_time(eps,dpsi)*360.0
        H=Angle(st+lon-ra())   # lon positive east
        az,alt=equatorial2horizontal(H,dec,Angle(lat))
        tgt=-0.83-2.076*sqrt(h)/60.0
        mxalt=max(mxalt,abs(alt()-tgt))
    if not r()<s(): order+=1
print('rise_set n',n,'max alt err',mxalt,'order bad',order,'exc',len(exc),exc[:3])
