import random
from math import *
from pymeeus.Angle import Angle
from pymeeus.Epoch import Epoch, JDE2000
from pymeeus.Moon import Moon
from pymeeus.Sun import Sun
from pymeeus.Coordinates import *
random.seed(5)
def y2jde(y): return 2451545.0+(y-2000.0)*365.25
def w180(x): return (x+180.0)%360.0-180.0
def bisect(f,a,b,n=40):
    fa=f(a); fb=f(b)
    if fa*fb>0: return None
    for _ in range(n):
        m=(a+b)/2; fm=f(m)
        if fa*fm<=0: b=m; fb=fm
        else: a=m; fa=fm
    return (a+b)/2
mn={'dist':[9e9,0],'lat':0,'par':0,'rate':[99,0],'k':[9,-9],'kdiff':0}
res={}
def rec(k,v): res.setdefault(k,[]).append(v)
for _ in range(400):
    y=random.uniform(-1999,3999); j=y2jde(y); e=Epoch(j)
    lon,lat,dist,par=Moon.geocentric_ecliptical_pos(e)
    mn['dist'][0]=min(mn['dist'][0],dist); mn['dist'][1]=max(mn['dist'][1],dist)
    mn['lat']=max(mn['lat'],abs(lat()))
    mn['par']=max(mn['par'],abs(par()-degrees(asin(6378.14/dist))))
    lon2,_,_,_=Moon.geocentric_ecliptical_pos(Epoch(j+1.0))
    rate=(lon2()-lon())%360
    mn['rate'][0]=min(mn['rate'][0],rate); mn['rate'][1]=max(mn['rate'][1],rate)
    k=Moon.illuminated_fraction_disk(e)
    mn['k'][0]=min(mn['k'][0],k); mn['k'][1]=max(mn['k'][1],k)
    # geometry: Sun-Earth-Moon
    ls,bs,rs=Sun.apparent_geocentric_position(e)
    la,ba,da,_=Moon.apparent_ecliptical_pos(e)
    cospsi=cos(ba.rad())*cos(la.rad()-ls.rad())
    psi=acos(cospsi); R=rs*149597870.7
    i=atan2(R*sin(psi), da-R*cospsi)
    kk=(1+cos(i))/2
    mn['kdiff']=max(mn['kdiff'],abs(kk-k))
    # finders
    for ti,tg in enumerate(['new','first','full','last']):
        t=Moon.moon_phase(e,tg)
        la,ba,da,_=Moon.apparent_ecliptical_pos(t); ls,bs,rs=Sun.apparent_geocentric_position(t)
        rec('phase',abs(w180(la()-ls()-90*ti))); rec('phase_dq',(t()-j)/29.53)
    for tg in ['perigee','apogee']:
        t,pp=Moon.moon_perigee_apogee(e,tg); t=t()
        f=lambda x: Moon.geocentric_ecliptical_pos(Epoch(x+0.01))[2]-Moon.geocentric_ecliptical_pos(Epoch(x-0.01))[2]
        r=bisect(f,t-1.5,t+1.5)
        rec(tg, None if r is None else abs(r-t)); rec(tg+'_dq',(t-j)/27.55)
        rec(tg+'_par', abs(pp()-Moon.geocentric_ecliptical_pos(Epoch(t))[3]()))
    for tg in ['ascending','descending']:
        t=Moon.moon_passage_nodes(e,tg)
        lo,la_,_,_=Moon.geocentric_ecliptical_pos(t)
        rec('node',abs(la_())); rec('node_dq',(t()-j)/27.21)
        la2=Moon.geocentric_ecliptical_pos(t+0.01)[1]()
        rec('node_dir_'+tg, la2-la_())
    for tg in ['northern','southern']:
        t,dec=Moon.moon_maximum_declination(e,tg); t=t()
        f=lambda x: Moon.apparent_equatorial_pos(Epoch(x+0.01))[1]()-Moon.apparent_equatorial_pos(Epoch(x-0.01))[1]()
        r=bisect(f,t-1.5,t+1.5)
        rec('decl', None if r is None else abs(r-t)); rec('decl_dq',(t-j)/27.32)
        rec('decl_val', abs(Moon.apparent_equatorial_pos(Epoch(t))[1]()-dec()))
print(mn)
for k,v in res.items():
    nn=[x for x in v if x is None]; vv=[x for x in v if x is not None]
    print(k,'n',len(v),'None',len(nn),'min',min(vv),'max',max(vv))
