import random
from math import *
from pymeeus.Angle import Angle
from pymeeus.Epoch import Epoch, JDE2000
from pymeeus.Coordinates import *
random.seed(8)
def vec(a,d):
    a=radians(a);d=radians(d);return (cos(d)*cos(a),cos(d)*sin(a),sin(d))
def sep(v,w):
    c=(v[1]*w[2]-v[2]*w[1],v[2]*w[0]-v[0]*w[2],v[0]*w[1]-v[1]*w[0])
    return degrees(atan2(sqrt(sum(x*x for x in c)),sum(x*y for x,y in zip(v,w))))
def y2e(y): return Epoch(2451545.0+(y-2000.0)*365.25)
mx={}
def upd(k,v,info=None):
    if v>mx.get(k,(0,))[0]: mx[k]=(v,info)
for _ in range(40000):
    z=random.uniform(-1,1); a=random.uniform(0,360); d=degrees(asin(z))
    if random.random()<0.2: d=random.choice([1,-1])*random.uniform(85,89.999)
    span=random.choice([500,1000,2000])
    y0=2000+random.uniform(-span,span); y1=2000+random.uniform(-span,span)
    e0,e1=y2e(y0),y2e(y1)
    A,D=Angle(a),Angle(d)
    tag='N' if d>85 else ('S' if d<-85 else 'mid')
    a1,d1=precession_equatorial(e0,e1,A,D); a2,d2=precession_equatorial(e1,e0,a1,d1)
    if tag!='N': upd('eq_rt_%d'%span,sep(vec(a,d),vec(a2(),d2())),(a,d,y0,y1))
    else: upd('eq_rt_N',sep(vec(a,d),vec(a2(),d2())),(a,d,y0,y1))
    ai,di=precession_equatorial(e0,e0,A,D)
    if tag!='N': upd('eq_id',sep(vec(a,d),vec(ai(),di())))
    # rigid
    a_=random.uniform(0,360); d_=degrees(asin(random.uniform(-1,1)))
    if d_<=85 and tag!='N':
        b1,c1=precession_equatorial(e0,e1,Angle(a_),Angle(d_))
        upd('eq_rigid_%d'%span,abs(sep(vec(a1(),d1()),vec(b1(),c1()))-sep(vec(a,d),vec(a_,d_))),(a,d,a_,d_,y0,y1))
    # ecliptical
    l1,b1=precession_ecliptical(e0,e1,A,D); l2,b2=precession_ecliptical(e1,e0,l1,b1)
    upd('ecl_rt_%d'%span,sep(vec(a,d),vec(l2(),b2())),(a,d,y0,y1))
    # routes: equatorial vs via ecliptic
    if tag=='mid' and span==500:
        eps0=mean_obliquity(e0); eps1=mean_obliquity(e1)
        l,b=equatorial2ecliptical(A,D,eps0); l1,b1=precession_ecliptical(e0,e1,l,b); ar,dr=ecliptical2equatorial(l1,b1,eps1)
        upd('route',sep(vec(a1(),d1()),vec(ar(),dr())),(a,d,y0,y1))
    # newcomb vs fk5 1800-2100
    ya=random.uniform(1800,2100); yb=random.uniform(1800,2100)
    if tag=='mid':
        import pymeeus.Coordinates as C
        class E2(Epoch):
            def __sub__(self,b):
                if isinstance(b,(int,float)): return self.jde()-b
                return Epoch.__sub__(self,b)
        n1,n2=precession_newcomb(E2(y2e(ya)),y2e(yb),A,D); f1,f2=precession_equatorial(y2e(ya),y2e(yb),A,D)
        upd('newcomb',sep(vec(n1(),n2()),vec(f1(),f2())),(a,d,ya,yb))
    # composition
    y2=2000+random.uniform(-span,span); e2=y2e(y2)
    if tag!='N':
        c1,c2=precession_equatorial(e1,e2,a1,d1); dd1,dd2=precession_equatorial(e0,e2,A,D)
        if d1()<=85: upd('eq_compose_%d'%span,sep(vec(c1(),c2()),vec(dd1(),dd2())),(a,d,y0,y1,y2))
    # orbital elements roundtrip
    i0=random.uniform(1.0,179); w0=random.uniform(0,360); o0=random.uniform(0,360)
    i1,w1,o1=orbital_equinox2equinox(e0,e1,Angle(i0),Angle(w0),Angle(o0))
    i2,w2,o2=orbital_equinox2equinox(e1,e0,i1,w1,o1)
    w=lambda x:abs((x+180)%360-180)
    if i1()>=1.0: upd('orb_rt_%d'%span,max(abs(i2()-i0),w(w2()-w0)*sin(radians(i0)),w(o2()-o0)*sin(radians(i0))),(i0,w0,o0,y0,y1))
for k,v in sorted(mx.items()): print(k,v)
# kepler
mxr=0;mxv=0;half=0
for _ in range(200000):
    e=random.choice([0,random.uniform(0,1),1-10**random.uniform(-6,-1)]); 
    if e>=0.999999: e=0.999999
    M=random.choice([random.uniform(-1e4,1e4), 180*random.randint(-50,50)+random.choice([0,1e-9,-1e-9,1e-6])])
    E,v=kepler_equation(e,Angle(M))
    Er=E.rad()
    res=degrees(Er-e*sin(Er))-M
    res=(res+180)%360-180
    mxr=max(mxr,abs(res))
    vref=2*atan2(sqrt(1+e)*sin(Er/2),sqrt(1-e)*cos(Er/2))
    dv=(degrees(vref)-v()+180)%360-180
    mxv=max(mxv,abs(dv))
    Mm=M%360; Em=E()%360
    if Mm not in (0,180) and abs(Mm-180)>1e-6 and Mm>1e-6 and Mm<360-1e-6:
        if (Mm<180)!=(Em<180): half+=1
print('kepler max residual deg',mxr,'v diff',mxv,'half bad',half)
for e_ in [0.949999,0.95,0.950001]:
    print(e_,length_orbit(e_,1.0))
print(velocity(0.5,1.0),velocity_perihelion(0.5,1.0),velocity(1.5,1.0),velocity_aphelion(0.5,1.0), velocity(1.0,1.0)**2, velocity_perihelion(0.5,1.0)*velocity_aphelion(0.5,1.0))
