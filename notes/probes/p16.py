import random
from math import *
from pymeeus.Angle import Angle
from pymeeus.Epoch import Epoch, JDE2000
from pymeeus.Coordinates import *
random.seed(7)
def vec(a,d):
    a=radians(a);d=radians(d);return (cos(d)*cos(a),cos(d)*sin(a),sin(d))
def sep(v,w):
    c=(v[1]*w[2]-v[2]*w[1],v[2]*w[0]-v[0]*w[2],v[0]*w[1]-v[1]*w[0])
    return degrees(atan2(sqrt(sum(x*x for x in c)),sum(x*y for x,y in zip(v,w))))
def rnd_dir():
    r=random.random()
    if r<0.6:
        z=random.uniform(-1,1); return random.uniform(0,360), degrees(asin(z))
    if r<0.75: return random.uniform(0,360), random.choice([90,-90])*(1-random.choice([0,1e-12,1e-9,1e-6,1e-3]))
    if r<0.9: return random.choice([0,360-1e-12,1e-12,180,90,270])+random.choice([0,1e-9]), random.uniform(-90,90)
    return random.uniform(0,360), random.choice([0,1e-12,-1e-12])
mx={}
exc=[]
def upd(k,v,info=None):
    if v>mx.get(k,(0,))[0]: mx[k]=(v,info)
for _ in range(100000):
    a,d=rnd_dir(); eps=random.choice([0,23.44,random.uniform(0,30)]); lat=random.choice([90,-90,0,random.uniform(-90,90)])
    A,D=Angle(a),Angle(d)
    try:
        l,b=equatorial2ecliptical(A,D,Angle(eps)); a2,d2=ecliptical2equatorial(l,b,Angle(eps))
    except ValueError: exc.append(('ecl',a,d,eps)); continue
    upd('ecl_rt',sep(vec(a,d),vec(a2(),d2())),(a,d,eps))
    if not (0<=l()<360): upd('ecl_range',1,(a,d,eps,l()))
    if not (0<=a2()<360): upd('ecl_range2',1,(a,d,eps,a2()))
    try:
        l,b=equatorial2galactic(A,D); a2,d2=galactic2equatorial(l,b)
    except ValueError: exc.append(('gal',a,d)); continue
    upd('gal_rt',sep(vec(a,d),vec(a2(),d2())),(a,d))
    if not (0<=l()<360) or not(0<=a2()<360): upd('gal_range',1,(a,d,l(),a2()))
    try:
        az,el=equatorial2horizontal(A,D,Angle(lat)); h2,d2=horizontal2equatorial(az,el,Angle(lat))
        upd('hor_rt',sep(vec(a,d),vec(h2(),d2())),(a,d,lat))
    except ValueError as ex:
        exc.append(('hor',a,d,lat)); continue
    # isometry
    a_,d_=rnd_dir(); A_,D_=Angle(a_),Angle(d_)
    s0=sep(vec(a,d),vec(a_,d_))
    l1,b1=equatorial2ecliptical(A,D,Angle(eps)); l2,b2=equatorial2ecliptical(A_,D_,Angle(eps))
    upd('ecl_iso',abs(sep(vec(l1(),b1()),vec(l2(),b2()))-s0),(a,d,a_,d_,eps))
    l1,b1=equatorial2galactic(A,D); l2,b2=equatorial2galactic(A_,D_)
    upd('gal_iso',abs(sep(vec(l1(),b1()),vec(l2(),b2()))-s0))
    l1,b1=equatorial2horizontal(A,D,Angle(lat)); l2,b2=equatorial2horizontal(A_,D_,Angle(lat))
    upd('hor_iso',abs(sep(vec(l1(),b1()),vec(l2(),b2()))-s0))
    # angular separation accuracy by sep size
    sp=angular_separation(A,D,A_,D_)()
    if s0>1e-3 and s0<179.999: upd('angsep>1e-3',abs(sp-s0),(a,d,a_,d_,s0))
    if abs(angular_separation(A_,D_,A,D)()-sp)>0: upd('angsep_sym',abs(angular_separation(A_,D_,A,D)()-sp))
for _ in range(50000):
    # near-antipodal & small separations
    a,d=rnd_dir(); 
    s=10**random.uniform(-7,-3) if random.random()<0.5 else 180-10**random.uniform(-3,0)
    pa=random.uniform(0,360)
    # point at distance s, position angle pa from (a,d)
    d0=radians(d); sr=radians(s); par=radians(pa)
    d1=asin(sin(d0)*cos(sr)+cos(d0)*sin(sr)*cos(par))
    a1=radians(a)+atan2(sin(par)*sin(sr)*cos(d0), cos(sr)-sin(d0)*sin(d1))
    A_,D_=Angle(degrees(a1)),Angle(degrees(d1))
    s0=sep(vec(a,d),vec(A_(),D_()))
    sp=angular_separation(Angle(a),Angle(d),A_,D_)()
    key='angsep_small' if s<1 else 'angsep_near180'
    upd(key,abs(sp-s0),(a,d,s))
for k,v in sorted(mx.items()): print(k,v)
print('exc',len(exc),exc[:6])
