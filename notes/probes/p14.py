from pymeeus.Epoch import Epoch
import collections
# reference arithmetic islamic calendar (civil, epoch 16 July 622 Julian = JD 1948439.5), leap years 2,5,7,10,13,16,18,21,24,26,29
def isl_to_jd(h,m,d):
    return d + (59*(m-1)+1)//2 + (h-1)*354 + (3+11*h)//30 + 1948439.5 - 1
def jd_to_civil(jd):
    e=Epoch(jd); y,m,d=e.get_date(); return (y,m,int(round(d)))
bad=collections.Counter(); ex={}
n=0
for h in range(1,2501):
    leap=(11*h+14)%30<11
    for mo in range(1,13):
        ml=30 if mo%2==1 else 29
        if mo==12 and leap: ml=30
        for d in range(1,ml+1):
            n+=1
            ref=jd_to_civil(isl_to_jd(h,mo,d))
            try:
                g=Epoch.moslem2gregorian(h,mo,d); g=(g[0],g[1],int(round(g[2])))
            except Exception as e_:
                g=repr(e_)
            era='pre1582' if ref<(1582,10,15) else 'post'
            if g!=ref:
                bad['m2g_'+era]+=1; ex.setdefault('m2g_'+era,[]).append(((h,mo,d),g,ref))
            try:
                b=Epoch.gregorian2moslem(*ref)
            except Exception as e_: b=repr(e_)
            if b!=(h,mo,d):
                bad['g2m_'+era]+=1; ex.setdefault('g2m_'+era,[]).append((ref,b,(h,mo,d)))
print(n,bad)
for k,v in ex.items(): print(k,v[:6], v[-3:])
