import random
from math import *
from pymeeus.Angle import Angle
from pymeeus.Coordinates import times_rise_transit_set
random.seed(15)
def interp(n,y1,y2,y3):
    a=y2-y1; b=y3-y2
    a=a-360*round(a/360); b=b-360*round(b/360)
    return y2+n*(a+b+n*(b-a))/2
def alt(H,d,phi):
    H,d,phi=map(radians,(H,d,phi))
    return degrees(asin(sin(phi)*sin(d)+cos(phi)*cos(d)*cos(H)))
for margin in (0.5,1,2,5):
    random.seed(15)
    mx={'rise':0,'set':0,'tr':0}; w={}
    n=0;wrap=0;gr=0;nonebad=0
    for _ in range(30000):
        lon=random.uniform(-180,180); lat=random.uniform(-89,89)
        a2=random.uniform(0,360); d2=random.uniform(-85,85)
        ra_rate=random.uniform(-1.5,1.5); de_rate=random.uniform(-1.0,1.0); acc=random.uniform(-0.05,0.05)
        a1=a2-ra_rate+acc; a3=a2+ra_rate+acc; d1=d2-de_rate; d3=d2+de_rate
        if abs(d1)>89 or abs(d3)>89: continue
        h0=random.choice([-0.5667,-0.8333,0.125]); dT=random.uniform(0,80); th0=random.uniform(0,360)
        r,t,s=times_rise_transit_set(Angle(lon),Angle(lat),Angle(a1),Angle(d1),Angle(a2),Angle(d2),Angle(a3),Angle(d3),Angle(h0),dT,Angle(th0))
        up=90-abs(lat-d2); lo=-(90-abs(lat+d2))
        if r is None:
            # should be circumpolar or never rises (by d2)
            if lo<h0<up and min(up-h0,h0-lo)>margin: nonebad+=1
            continue
        n+=1
        if not all(0<=v<=24 for v in (r,t,s)): wrap+=1; continue
        if min(up-h0,h0-lo)<margin: gr+=1; continue
        for nm,m in (('rise',r/24),('set',s/24),('tr',t/24)):
            nn=m+dT/86400; al=interp(nn,a1,a2,a3); de=interp(nn,d1,d2,d3)
            H=(th0+360.985647*m-lon-al+180)%360-180
            v=abs(alt(H,de,lat)-h0) if nm!='tr' else abs(H)
            if v>mx[nm]: mx[nm]=v; w[nm]=(lon,lat,a2,d2,ra_rate,de_rate,up-h0,h0-lo,(r,t,s))
    print('margin',margin,'n',n,'wrap',wrap,'graz',gr,'nonebad',nonebad,mx)
    print('   ',w.get('rise'))
