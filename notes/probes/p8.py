import random, math
from pymeeus.Epoch import Epoch
random.seed(3)
bad=[];worst=0
def chk(j):
    global worst
    e=Epoch(j)
    # Epoch(j) itself roundtrips via get_full_date
    j2=e.jde()
    worst=max(worst,abs(j2-j))
    y,m,d,h,mi,s=e.get_full_date()
    ok = 0<=h<=23 and 0<=mi<=59 and 0<=s<60 and 1<=d<=31 and isinstance(h,int)
    if not ok or abs(j2-j)>1e-8: bad.append((j,j2,(y,m,d,h,mi,s)))
for _ in range(200000):
    r=random.random()
    if r<0.3: j=random.uniform(0,5.4e6)
    elif r<0.6:
        j=random.randrange(0,5400000)+0.5+random.choice([0,1e-9,-1e-9,1e-6,-1e-6,1/86400,-1/86400, 1e-12])
    elif r<0.8:
        j=random.randrange(0,5400000)+random.choice([0,0.5])+random.randrange(0,86400)/86400+random.choice([0,1e-10,-1e-10,1e-7,-1e-7])
    else:
        j=2299160.5+random.uniform(-1e-4,1e-4)
    if j<0: continue
    try: chk(j)
    except Exception as ex: bad.append((j,repr(ex)))
print('worst',worst,'bad',len(bad)); 
for b in bad[:15]: print(b)
j=2299160.5
for dj in [-1e-9,0,1e-9]:
    print(Epoch(j+dj).get_full_date())
print(Epoch(0.0).get_full_date(), Epoch(1e-9).get_full_date())
# monotone date tuple
js=sorted(random.uniform(2299150,2299170) for _ in range(2000))
prev=None
for j in js:
    e=Epoch(j); t=e.get_full_date()
    if prev and t<prev: print('non-monotone',prev,t); break
    prev=t
