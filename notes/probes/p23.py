import random
from math import *
from pymeeus.Angle import Angle
from pymeeus.Coordinates import times_rise_transit_set
random.seed(14)
def interp(n,y1,y2,y3):
    a=y2-y1; b=y3-y2
    a=a-360*round(a/360); b=b-360*round(b/360)
    return y2+n*(a+b+n*(b-a))/2
def alt(H,d,phi):
    H,d,phi=map(radians,(H,d,phi))
    return degrees(asin(sin(phi)*sin(d)+cos(phi)*cos(d)*cos(H)))
mx={'rise':0,'set':0,'tr':0}; none=0; n=0; wr=None
graz=0
for _ in range(20000):
    lon=random.uniform(-180,180); lat=random.uniform(-89,89)
    a2=random.uniform(0,360); d2=random.uniform(-85,85)
    ra_rate=random.uniform(-1.5,1.5); de_rate=random.uniform(-1.0,1.0)
    acc=random.uniform(-0.05,0.05)
    a1=a2-ra_rate+acc; a3=a2+ra_rate+acc
    d1=d2-de_rate; d3=d2+de_rate
    if abs(d1)>89 or abs(d3)>89: continue
    h0=random.choice([-0.5667,-0.8333,0.125])
    dT=random.uniform(0,80); th0=random.uniform(0,360)
    try:
        r,t,s=times_rise_transit_set(Angle(lon),Angle(lat),Angle(a1),Angle(d1),Angle(a2),Angle(d2),Angle(a3),Angle(d3),Angle(h0),dT,Angle(th0))
    except Exception as ex:
        print('EXC',repr(ex),(lon,lat,a2,d2)); continue
    n+=1
    if r is None: none+=1; continue
    cosH0=(sin(radians(h0))-sin(radians(lat))*sin(radians(d2)))/(cos(radians(lat))*cos(radians(d2)))
    res={}
    for nm,m in (('rise',r/24),('set',s/24),('tr',t/24)):
        nn=m+dT/86400
        al=interp(nn,a1,a2,a3); de=interp(nn,d1,d2,d3)
        H=(th0+360.985647*m-lon-al+180)%360-180
        res[nm]=(abs(alt(H,de,lat)-h0) if nm!='tr' else abs(H))
    if abs(cosH0)>0.98: graz+=1; continue
    for k in res:
        if res[k]>mx[k]: mx[k]=res[k]; 
        if k=='rise' and res[k]==mx[k]: wr=(lon,lat,a2,d2,ra_rate,de_rate,cosH0)
print(n,'none',none,'graz',graz,mx,wr)
print('---- detail')
random.seed(14)
cnt={'neg':0,'gt24':0}
worst=[]
for _ in range(20000):
    lon=random.uniform(-180,180); lat=random.uniform(-89,89)
    a2=random.uniform(0,360); d2=random.uniform(-85,85)
    ra_rate=random.uniform(-1.5,1.5); de_rate=random.uniform(-1.0,1.0)
    acc=random.uniform(-0.05,0.05)
    a1=a2-ra_rate+acc; a3=a2+ra_rate+acc
    d1=d2-de_rate; d3=d2+de_rate
    if abs(d1)>89 or abs(d3)>89: continue
    h0=random.choice([-0.5667,-0.8333,0.125])
    dT=random.uniform(0,80); th0=random.uniform(0,360)
    r,t,s=times_rise_transit_set(Angle(lon),Angle(lat),Angle(a1),Angle(d1),Angle(a2),Angle(d2),Angle(a3),Angle(d3),Angle(h0),dT,Angle(th0))
    if r is None: continue
    for v in (r,t,s):
        if v<0: cnt['neg']+=1
        if v>24: cnt['gt24']+=1
    m=t/24; nn=m+dT/86400
    al=interp(nn,a1,a2,a3)
    H=(th0+360.985647*m-lon-al+180)%360-180
    worst.append((abs(H),t,lon,lat,a2,d2,ra_rate,th0))
worst.sort(reverse=True)
print(cnt); 
for w in worst[:6]: print(w)
import statistics
print('frac transit err>0.005', sum(1 for w in worst if w[0]>0.005)/len(worst))
