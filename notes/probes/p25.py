import importlib, inspect, collections, warnings
warnings.simplefilter('ignore')
mods=['Angle','Epoch','Coordinates','Interpolation','CurveFitting','Earth','Sun','Moon','Minor','Pluto','JupiterMoons','Mercury','Venus','Mars','Jupiter','Saturn','Uranus','Neptune','base']
res=collections.Counter(); detail={}
def probe(qual,f,nargs,doc):
    has_raises=':raises' in (doc or '')
    for bad in (None,'x',1j,[1.0]):
        args=[bad]*nargs
        try:
            r=f(*args)
            k='returned:'+type(r).__name__
        except Exception as e:
            k=type(e).__name__
        res[(k,has_raises)]+=1
        detail.setdefault((k,has_raises),[]).append((qual,type(bad).__name__))
for m in mods:
    mod=importlib.import_module('pymeeus.'+m)
    for name,obj in vars(mod).items():
        if inspect.isfunction(obj) and obj.__module__==mod.__name__ and name not in('main',):
            sig=inspect.signature(obj)
            n=len([p for p in sig.parameters.values() if p.default is p.empty and p.kind in (p.POSITIONAL_OR_KEYWORD,)])
            if any(p.kind==p.VAR_POSITIONAL for p in sig.parameters.values()): n=max(n,1)
            if n==0: continue
            probe(m+'.'+name,obj,n,obj.__doc__)
        if inspect.isclass(obj) and obj.__module__==mod.__name__:
            for k,v in vars(obj).items():
                if isinstance(v,staticmethod):
                    f=v.__func__; sig=inspect.signature(f)
                    n=len([p for p in sig.parameters.values() if p.default is p.empty and p.kind==p.POSITIONAL_OR_KEYWORD])
                    if any(p.kind==p.VAR_POSITIONAL for p in sig.parameters.values()): n=max(n,1)
                    if n==0: continue
                    probe(m+'.'+obj.__name__+'.'+k,f,n,f.__doc__)
for k,v in sorted(res.items(), key=lambda x:-x[1]): print(k,v)
for k in detail:
    if k[0] not in ('TypeError','ValueError'):
        print(k, sorted(set(q for q,_ in detail[k]))[:40])
