from math import *
from pymeeus.Angle import Angle
from pymeeus.Epoch import Epoch, JDE2000
from pymeeus.Coordinates import *
from pymeeus.Interpolation import Interpolation
from pymeeus.CurveFitting import CurveFitting
from pymeeus.Earth import Earth, IAU76
from pymeeus.Sun import Sun
from pymeeus.Neptune import Neptune
from pymeeus.Jupiter import Jupiter
from pymeeus.Minor import Minor

def vec(a,d):
    a=radians(a);d=radians(d);return (cos(d)*cos(a),cos(d)*sin(a),sin(d))
def sep(v,w):
    c=(v[1]*w[2]-v[2]*w[1],v[2]*w[0]-v[0]*w[2],v[0]*w[1]-v[1]*w[0])
    return degrees(atan2(sqrt(sum(x*x for x in c)),sum(x*y for x,y in zip(v,w))))
print("(a) angular sep small")
for s in [1e-7,1e-6,1e-5,1e-4,1e-3,1e-2]:
    a=angular_separation(Angle(10.0),Angle(20.0),Angle(10.0),Angle(20.0+s))
    print(s, a(), abs(a()-s))
print("(b) frames")
e=Epoch(1992,10,13.0)
for ep in [Epoch(1992,10,13.0), Epoch(1500,3,3.0), Epoch(2800,7,1.0)]:
    x0,y0,z0=Sun.rectangular_coordinates_j2000(ep)
    r=sqrt(x0*x0+y0*y0+z0*z0)
    ra=Angle(atan2(y0,x0),radians=True); dec=Angle(asin(z0/r),radians=True)
    b1950=Epoch(2433282.4235)
    ra1,dec1=precession_equatorial(JDE2000,b1950,ra,dec)
    xb,yb,zb=Sun.rectangular_coordinates_b1950(ep)
    rb=sqrt(xb*xb+yb*yb+zb*zb)
    v=(xb/rb,yb/rb,zb/rb)
    print(' b1950 sep arcsec', sep(v,vec(ra1(),dec1()))*3600, 'norm diff', rb-r)
    for eq in [Epoch(2467616.0), Epoch(1700,1,1), Epoch(2300,1,1)]:
        ra2,dec2=precession_equatorial(JDE2000,eq,ra,dec)
        xe,ye,ze=Sun.rectangular_coordinates_equinox(ep,eq)
        re=sqrt(xe*xe+ye*ye+ze*ze)
        print('   equinox',eq,'sep arcsec', sep((xe/re,ye/re,ze/re),vec(ra2(),dec2()))*3600, re-r)
    # mean equinox of date
    xm,ym,zm=Sun.rectangular_coordinates_mean_equinox(ep)
    ra3,dec3=precession_equatorial(JDE2000,ep,ra,dec)
    rm=sqrt(xm*xm+ym*ym+zm*zm)
    print('   of-date sep arcsec', sep((xm/rm,ym/rm,zm/rm),vec(ra3(),dec3()))*3600, rm-r)
print("(c) precession pole")
for d in [84.0, 86.0,89.0,-89.0]:
    ra,dec=precession_equatorial(JDE2000,Epoch(2100,1,1),Angle(30.0),Angle(d))
    print(d, ra(), dec())
print("(d) interpolation clamp")
m=Interpolation([-3.0,-1.0,0.0,1.0,3.0],[ (x+2)*(x)*(x-2.5) for x in [-3.0,-1.0,0.0,1.0,3.0]])
for (xl,xh) in [(-3,-1),(-1,1),(1,3),(-0.5,0.5),(2,3.0)]:
    try: print(xl,xh,m.root(xl,xh))
    except Exception as ex: print(xl,xh,'EXC',repr(ex))
print("(e) general fit 2 funcs")
cf=CurveFitting([0.0,1.0,2.0,3.0,4.0],[1.0,3.1,4.9,7.2,9.0])
print(cf.linear_fitting())
try: print(cf.general_fitting(lambda x:x, lambda x:1.0))
except Exception as ex: print('EXC',repr(ex))
print(cf.quadratic_fitting())
try: print(cf.general_fitting(lambda x:x*x, lambda x:x, lambda x:1.0))
except Exception as ex: print('EXC',repr(ex))
print("(f) distance")
ea=Earth(IAU76)
for args in [(10.0,20.0,10.0,20.0),(0.0,0.0,180.0,0.0),(0.0,30.0,180.0,-30.0),(0.0,0.0,90.0,0.0),(0.0,0.0,0.0,90.0),(0.0,10.0,179.0,-9.0)]:
    try: print(args, ea.distance(*args))
    except Exception as ex: print(args,'EXC',repr(ex))
print("(g) parallax_ecliptical")
for lon,lat in [(10.0,-2.0),(10.0,2.0),(181.77,2.29),(181.77,-2.29),(300.0,-4.0)]:
    r=Earth.parallax_ecliptical(Angle(lon),Angle(lat),Angle(0,16,15.5),Angle(50,5,7.8),Angle(23,28,0.8),Angle(209,46,7.9),0.0024650163)
    print(lon,lat,[x() for x in r])
