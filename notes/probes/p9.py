import random, re, math
from pymeeus.Angle import Angle
random.seed(4)
def gen():
    r=random.random()
    if r<0.25: return random.uniform(-359.999,359.999)
    d=random.randrange(0,360); m=random.randrange(0,60); s=random.randrange(0,60)
    base=d+m/60+s/3600
    eps=random.choice([0,1e-12,-1e-12,1e-10,-1e-10,1e-8,-1e-8,1e-6,-1e-6,0.5/3600,-1e-4/3600, 5e-13/3600])
    v=(base+eps)*random.choice([1,-1])
    if abs(v)>=360: v=math.copysign(359.9999999,v)
    return v
bad={}
def note(k,x):
    bad.setdefault(k,[]).append(x)
for _ in range(300000):
    v=gen(); a=Angle(v)
    d,m,s,sg=a.dms_tuple()
    if not (isinstance(d,int) and 0<=d<360 and isinstance(m,int) and 0<=m<60 and 0<=s<60 and sg in (1.0,-1.0)): note('tuple',(v,(d,m,s,sg)))
    if abs(sg*(d+m/60+s/3600)-a())>1e-9: note('recombine',(v,(d,m,s,sg)))
    h,hm,hs,hsg=a.ra_tuple()
    if not (0<=h<24 and 0<=hm<60 and 0<=hs<60): note('ratuple',(v,(h,hm,hs,hsg)))
    if abs(hsg*(h+hm/60+hs/3600)*15-a())>1e-9: note('rarecombine',(v,))
    nd=random.choice([-1,0,1,2,3,6,9,12]); fancy=random.random()<0.5
    for kind in ('dms','ra'):
        st = a.dms_str(fancy,nd) if kind=='dms' else a.ra_str(fancy,nd)
        nums=re.findall(r'-?\d+\.?\d*(?:e-?\d+)?',st)
        if fancy:
            # fields tagged
            mo=re.fullmatch(r"(?:(-?\d+)[dh] )?(?:(-?\d+)' )?(-?[\d.e-]+)''",st)
            if not mo: note('parse',(v,st)); continue
            D=mo.group(1); M=mo.group(2); S=mo.group(3)
        else:
            mo=re.fullmatch(r"(-?\d+):(-?\d+):(-?[\d.e-]+)",st)
            if not mo: note('parse',(v,st)); continue
            D,M,S=mo.groups()
        Dv=int(D) if D is not None else 0; Mv=int(M) if M is not None else 0; Sv=float(S)
        negs=sum(1 for x in (D,M,S) if x is not None and x.startswith('-'))
        if abs(Mv)>=60 or abs(Sv)>=60: note('sixty',(v,st,nd))
        if negs>1: note('multisign',(v,st))
        sign=-1 if negs else 1
        val=sign*(abs(Dv)+abs(Mv)/60+abs(Sv)/3600)
        tgt=a() if kind=='dms' else a()/15
        mod=360 if kind=='dms' else 24
        q=10**(-nd)/3600 if nd>=0 else 1e-9
        diff=abs(((val-tgt)+mod/2)%mod-mod/2)
        if diff>0.5*q+1e-9: note('readback_'+kind,(v,st,nd,val,tgt))
        # sign on leading nonzero: if value negative and nonzero after rounding, some sign present
        if tgt<0 and (abs(Dv)+abs(Mv)+abs(Sv))>0 and negs==0: note('nosign',(v,st,nd))
        if negs==1:
            # leading nonzero field must carry it
            fields=[x for x in (D,M,S) if x is not None]
            lead=[x for x in fields if float(x)!=0]
            if lead and not lead[0].startswith('-'): note('signpos',(v,st))
for k,v in bad.items(): print(k,len(v),v[:4])
print('done')
