"""Common machinery: case recording, violation handling, known findings, Hypothesis
driver, evidence.  See DESIGN.md section 2.

A *property module* (vf/props/cNN.py) defines

    PROPERTY   = "C01"
    RULE       = "how cases are generated and what makes one non-trivial"
    ASSUMPTIONS = [...]
    CLAUSES    = {"name": body}          body(case) -> Info | None, raises Violation
    def tasks(tier, seed): -> [Task(fn_name, params)]
    def <fn_name>(rec, **params)          drives cases through rec.case()/rec.given()

A *case* is a JSON-serialisable dict.  A body returns None or an ``info`` dict:
    n       evaluations made by the body (default 1)
    nt      number of distinct non-trivial cases among them (default: 1 if
            info["nontrivial"] else 0); batch bodies (one case = one calendar year)
            report the count themselves, distinct by construction
    labels  list of label names, or dict label -> count
    nontrivial  bool
    refused "text" when the library refused the input in a documented way
"""
import hashlib
import json
import math
import os
import sys
import time
import traceback
from collections import Counter

ROOT = os.path.dirname(os.path.dirname(os.path.abspath(__file__)))
REPO = os.environ.get("VERIF_REPO", "/repo")
PKG_DIR = os.path.join(os.path.realpath(REPO), "pymeeus")
KF_FILE = os.path.join(ROOT, "known_findings.json")


class Violation(Exception):
    """The property does not hold for this case."""

    def __init__(self, msg, site="", kind="mismatch", **data):
        Exception.__init__(self, msg)
        self.msg = msg
        self.site = site
        self.kind = kind
        self.data = data

    def to_json(self):
        return {"msg": self.msg, "site": self.site, "kind": self.kind,
                "data": _jsonable(self.data)}


class HarnessError(Exception):
    pass


class Hang(BaseException):
    """Raised by the CPU-time watchdog (BaseException so that `except Exception` inside
    the library cannot swallow it)."""


CASE_CPU_LIMIT = float(os.environ.get("VERIF_CASE_CPU_LIMIT", "60"))


def cpu_limited(thunk, secs=None):
    """Run thunk() under a limit of *CPU* seconds of this process (ITIMER_VIRTUAL: machine
    load does not count, so a loaded machine cannot cause a spurious trip)."""
    import signal
    secs = CASE_CPU_LIMIT if secs is None else secs

    def handler(sig, frm):
        raise Hang()
    try:
        old = signal.signal(signal.SIGVTALRM, handler)
    except ValueError:          # not in the main thread
        return thunk()
    signal.setitimer(signal.ITIMER_VIRTUAL, secs)
    try:
        return thunk()
    finally:
        signal.setitimer(signal.ITIMER_VIRTUAL, 0)
        signal.signal(signal.SIGVTALRM, old)


def _jsonable(x):
    if isinstance(x, dict):
        return {str(k): _jsonable(v) for k, v in x.items()}
    if isinstance(x, (list, tuple, set, frozenset)):
        return [_jsonable(v) for v in x]
    if isinstance(x, bool) or x is None or isinstance(x, (int, str)):
        return x
    if isinstance(x, float):
        if math.isnan(x) or math.isinf(x):
            return repr(x)
        return x
    return repr(x)


def case_hash(case):
    s = json.dumps(_jsonable(case), sort_keys=True)
    return int.from_bytes(hashlib.blake2b(s.encode(), digest_size=8).digest(), "big")


def sub_seed(seed, *parts):
    s = "|".join([str(seed)] + [str(p) for p in parts])
    return int.from_bytes(hashlib.blake2b(s.encode(), digest_size=4).digest(), "big")


def lib_frame(exc):
    """Innermost traceback frame inside the package under test, or None."""
    tb = exc.__traceback__
    found = None
    innermost = None
    while tb is not None:
        fn = os.path.realpath(tb.tb_frame.f_code.co_filename)
        innermost = fn
        if fn.startswith(PKG_DIR + os.sep):
            found = "%s:%s" % (os.path.basename(fn), tb.tb_frame.f_code.co_name)
        tb = tb.tb_next
    return found, innermost


def classify_exception(e, clause):
    """Turn an exception escaping a body into a Violation if it was raised by the
    library under test (innermost frame in pymeeus or in the stdlib *below* a pymeeus
    frame); otherwise it is a harness error and is re-raised."""
    site, innermost = lib_frame(e)
    if site is None:
        raise e
    # raised in harness code after returning from the library?  then innermost frame
    # is in /verif: harness error.
    if innermost.startswith(ROOT + os.sep):
        raise e
    return Violation("unexpected %s: %s" % (type(e).__name__, e), site=site,
                     kind="exception:" + type(e).__name__, exc=repr(e))


# ----------------------------------------------------------------------------
# known findings

_KF_CACHE = None


def load_known():
    global _KF_CACHE
    if _KF_CACHE is None:
        try:
            with open(KF_FILE) as f:
                _KF_CACHE = json.load(f)["findings"]
        except FileNotFoundError:
            _KF_CACHE = []
    return _KF_CACHE


def open_findings(prop):
    return [k for k in load_known() if k.get("status") == "open" and k["property"] == prop]


# ----------------------------------------------------------------------------

class Rec(object):
    """Per-task recorder; merged by the runner."""

    def __init__(self, prop, module, tier, seed):
        self.prop = prop
        self.module = module
        self.tier = tier
        self.seed = seed
        self.evals = 0
        self.cases = 0
        self.labels = Counter()
        self.nt_hashes = set()
        self.nt_batch = 0
        self.batch_keys = set()
        self.samples = {}          # label -> case (first seen)
        self.per_clause = Counter()
        self.refused = Counter()
        self.kf_hits = Counter()
        self.kf_examples = {}
        self.excluded_known = 0
        self.violations = []       # dicts
        self._buckets = set()
        self._last_fail = None
        self.notes = []
        self.inconclusive = []
        self._sigs = getattr(module, "KNOWN_SIGNATURES", {})
        self._open = {k["id"]: k for k in open_findings(prop)}

    # -- known findings
    def match_known(self, clause, case, v):
        for kid, kf in self._open.items():
            pred = self._sigs.get(kid)
            if pred is None:
                continue
            try:
                if pred(clause, case, v):
                    return kid
            except Exception:
                continue
        return None

    # -- one case through one clause body; returns True if ok / excluded
    def run_body(self, clause, case):
        body = self.module.CLAUSES[clause]
        try:
            info = cpu_limited(lambda: body(case))
        except Violation as v:
            return None, v
        except Hang:
            return None, Violation("the case did not finish within %.0f s of CPU time (endless "
                                   "loop in the library?)" % CASE_CPU_LIMIT, site=clause, kind="hang")
        except Exception as e:
            if type(e).__module__.startswith("hypothesis"):
                raise
            v = classify_exception(e, clause)
            return None, v
        return info or {}, None

    def account(self, clause, case, info):
        n = info.get("n", 1)
        self.evals += n
        self.cases += 1
        self.per_clause[clause] += n
        labels = info.get("labels") or ()
        if isinstance(labels, dict):
            for k, c in labels.items():
                self.labels[k] += c
        else:
            for k in labels:
                self.labels[k] += 1
        if info.get("refused"):
            self.refused["%s:%s" % (clause, info["refused"])] += 1
        if "nt" in info:
            h = case_hash([clause, case])
            if h not in self.batch_keys:
                self.batch_keys.add(h)
                self.nt_batch += info["nt"]
        elif info.get("nontrivial"):
            self.nt_hashes.add(case_hash([clause, case]))
        keys = list(labels) if labels else ["plain"]
        for k in keys[:4]:
            sk = "%s/%s" % (clause, k)
            if sk not in self.samples and len(self.samples) < 400:
                self.samples[sk] = {"clause": clause, "case": _jsonable(case),
                                    "observed": _jsonable(info.get("show"))}

    def case(self, clause, case):
        """Enumeration-style: run, collect violations (bucketed), continue."""
        info, v = self.run_body(clause, case)
        if v is None:
            self.account(clause, case, info)
            return True
        kid = self.match_known(clause, case, v)
        if kid:
            self.kf_hits[kid] += 1
            self.excluded_known += 1
            self.kf_examples.setdefault(kid, {"clause": clause, "case": _jsonable(case),
                                              "violation": v.to_json()})
            self.evals += 1
            return True
        b = (clause, v.site, v.kind)
        if b not in self._buckets and len(self._buckets) < 8:
            self._buckets.add(b)
            self.violations.append({"clause": clause, "case": _jsonable(case),
                                    "violation": v.to_json()})
        self.evals += 1
        return False

    def given(self, clause, strategy, max_examples, shard=0, shrink=True):
        """Hypothesis-driven: generate, check, shrink, record minimal failure."""
        import hypothesis
        from hypothesis import given, settings, HealthCheck, Phase

        rec = self
        if len(self.violations) >= 3:
            # enough distinct failures in this task: later campaigns of the task are
            # skipped so that a tree that is broken everywhere still reports quickly
            self.inconclusive.append("skipped %s shard %s after 3 violations in this task" % (clause, shard))
            return False
        phases = [Phase.explicit, Phase.generate]
        if shrink:
            phases.append(Phase.shrink)
        state = {"last": None}

        @hypothesis.seed(sub_seed(self.seed, self.prop, clause, shard))
        @settings(max_examples=max_examples, deadline=None, database=None,
                  report_multiple_bugs=False, derandomize=False, phases=phases,
                  suppress_health_check=[HealthCheck.too_slow,
                                         HealthCheck.large_base_example,
                                         HealthCheck.data_too_large])
        @given(strategy)
        def run(case):
            if state.get("abort"):
                return          # a hang was seen: do not shrink (every attempt costs the limit)
            info, v = rec.run_body(clause, case)
            if v is None:
                rec.account(clause, case, info)
                return
            kid = rec.match_known(clause, case, v)
            if kid:
                rec.kf_hits[kid] += 1
                rec.excluded_known += 1
                rec.kf_examples.setdefault(kid, {"clause": clause,
                                                 "case": _jsonable(case),
                                                 "violation": v.to_json()})
                rec.evals += 1
                return
            rec.evals += 1
            state["last"] = (case, v)
            if v.kind == "hang":
                state["abort"] = True
            raise v

        try:
            run()
        except BaseException as exc:
            flaky = "Flaky" in type(exc).__name__ and state["last"] is not None
            if not (isinstance(exc, Violation) or state.get("abort") or flaky):
                raise
            case, v = state["last"]
            if flaky:
                # the violation was observed on a concrete case but did not recur when
                # Hypothesis replayed the case: the library's behaviour depends on hidden
                # state (a cache, object identity ...).  The observation stands.
                v.msg += "  [observed once; not reproduced when the same case was replayed: " \
                         "state-dependent behaviour]"
                v.kind += ":state-dependent"
            self.violations.append({"clause": clause, "case": _jsonable(case),
                                    "violation": v.to_json()})
            return False
        return True

    def export(self):
        return {
            "evals": self.evals, "cases": self.cases, "labels": dict(self.labels),
            "nt_hashes": self.nt_hashes, "nt_batch": self.nt_batch,
            "samples": self.samples, "per_clause": dict(self.per_clause),
            "refused": dict(self.refused), "kf_hits": dict(self.kf_hits),
            "kf_examples": self.kf_examples, "excluded_known": self.excluded_known,
            "violations": self.violations, "notes": self.notes,
            "inconclusive": self.inconclusive,
        }


class Task(object):
    def __init__(self, fn, **params):
        self.fn = fn
        self.params = params

    def __repr__(self):
        return "Task(%s, %r)" % (self.fn, self.params)
