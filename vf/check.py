"""Runner:  python -m vf.check <ID> [--tier quick|thorough] [--replay FILE] [--jobs N]

exit 0  property held on everything explored (KNOWN-FINDING lines may be printed)
exit 1  VIOLATION property=<id> replay=<path>   (a violation known_findings.json
        does not list)
exit 2  harness error (never a violation)
"""
import argparse
import importlib
import json
import multiprocessing
import os
import sys
import time
import traceback

from . import core
from .core import Rec, Task, Violation


def load_module(pid):
    return importlib.import_module("vf.props.%s" % pid.lower())


def _run_task(args):
    pid, tier, seed, idx, fn, params = args
    t0 = time.time()
    if fn == "__regress__":
        # the committed regress cases run in a worker as well, so that the parent process (from
        # which every worker is forked) never executes library code
        try:
            return ("regress", idx, run_regress(pid, load_module(pid), seed, None))
        except BaseException:
            return ("error", idx, "regress cases:\n%s" % traceback.format_exc())
    try:
        mod = load_module(pid)
        rec = Rec(pid, mod, tier, seed)
        getattr(mod, fn)(rec, **params)
        out = rec.export()
        out["task"] = "%s%r" % (fn, params)
        out["wall"] = time.time() - t0
        return ("ok", idx, out)
    except BaseException:
        return ("error", idx, "task %s%r:\n%s" % (fn, params, traceback.format_exc()))


def replay_path(pid, clause, case):
    h = "%016x" % core.case_hash([clause, case])
    d = os.path.join(core.ROOT, "replays")
    os.makedirs(d, exist_ok=True)
    return os.path.join(d, "%s-%s-%s.json" % (pid, clause, h[:12]))


def write_replay(pid, viol):
    p = replay_path(pid, viol["clause"], viol["case"])
    with open(p, "w") as f:
        json.dump({"property": pid, "clause": viol["clause"], "case": viol["case"],
                   "violation": viol["violation"]}, f, indent=1, sort_keys=True)
        f.write("\n")
    return os.path.relpath(p, core.ROOT)


def do_replay(pid, mod, path, seed):
    with open(path) as f:
        doc = json.load(f)
    rec = Rec(pid, mod, "quick", seed)
    clause, case = doc["clause"], doc["case"]
    info, v = rec.run_body(clause, case)
    if v is None:
        print("replay %s: clause %s holds on this case (%s)" % (path, clause,
              json.dumps(core._jsonable(info.get("show"))) if info else ""))
        return 0
    kid = rec.match_known(clause, case, v)
    if kid:
        print("KNOWN-FINDING: property=%s %s: %s" % (pid, kid, v.msg))
        return 0
    print("replay %s: %s [%s %s]" % (path, v.msg, v.site, v.kind))
    print("VIOLATION property=%s replay=%s" % (pid, os.path.relpath(os.path.abspath(path), core.ROOT)))
    return 1


def run_regress(pid, mod, seed, out):
    """Committed cases under regress/<ID>/: witnesses of fixed defects (must hold now)
    and witnesses of open known findings (must still match their signature)."""
    d = os.path.join(core.ROOT, "regress", pid)
    res = {"ran": 0, "violations": [], "known": {}, "stale": []}
    if not os.path.isdir(d):
        return res
    rec = Rec(pid, mod, "quick", seed)
    for name in sorted(os.listdir(d)):
        if not name.endswith(".json"):
            continue
        with open(os.path.join(d, name)) as f:
            doc = json.load(f)
        clause, case = doc["clause"], doc["case"]
        info, v = rec.run_body(clause, case)
        res["ran"] += 1
        expect = doc.get("expect", "pass")
        if v is None:
            if expect != "pass":
                res["stale"].append((name, expect))
            continue
        kid = rec.match_known(clause, case, v)
        if kid:
            res["known"].setdefault(kid, v.msg)
            continue
        res["violations"].append({"clause": clause, "case": case,
                                  "violation": v.to_json(), "regress": name})
    return res


def main(argv=None):
    ap = argparse.ArgumentParser()
    ap.add_argument("pid")
    ap.add_argument("--tier", default=os.environ.get("VERIF_TIER") or "quick",
                    choices=["quick", "thorough"])
    ap.add_argument("--replay")
    ap.add_argument("--jobs", type=int, default=int(os.environ.get("VERIF_JOBS", "16")))
    ap.add_argument("--only", help="run only tasks whose fn name contains this")
    a = ap.parse_args(argv)
    pid = a.pid.upper()
    seed = int(os.environ.get("VERIF_SEED", "1") or "1")
    t0 = time.time()
    try:
        import pymeeus
        src = os.path.realpath(os.path.dirname(pymeeus.__file__))
        if src != core.PKG_DIR:
            print("harness error: pymeeus imported from %s, expected %s" % (src, core.PKG_DIR))
            return 2
        mod = load_module(pid)
        if hasattr(mod, "self_test"):
            mod.self_test()
    except Exception:
        traceback.print_exc()
        print("harness error: cannot load property module / oracle self-test failed")
        return 2

    if a.replay:
        try:
            return do_replay(pid, mod, a.replay, seed)
        except Exception:
            traceback.print_exc()
            return 2

    try:
        reg = None
        tasks = mod.tasks(a.tier, seed)
        if a.only:
            tasks = [t for t in tasks if a.only in t.fn or a.only in repr(t.params)]
        jobs = [(pid, a.tier, seed, i, t.fn, t.params) for i, t in enumerate(tasks)]
        results = [None] * len(jobs)
        jobs = [(pid, a.tier, seed, -1, "__regress__", {})] + jobs
        errors = []
        nproc = max(1, min(a.jobs, len(jobs)))
        ctx = multiprocessing.get_context("fork")
        pool = ctx.Pool(max(nproc, 2) if nproc > 1 else 1, maxtasksperchild=1)
        it = pool.imap_unordered(_run_task, jobs, chunksize=1)
        for status, idx, out in it:
            if status == "ok":
                results[idx] = out
            elif status == "regress":
                reg = out
            else:
                errors.append(out)
        if pool:
            pool.close()
            pool.join()
    except Exception:
        traceback.print_exc()
        print("harness error")
        return 2
    if errors:
        for e in errors:
            print(e)
        print("harness error: %d task(s) failed" % len(errors))
        return 2

    # ---- merge
    from collections import Counter
    evals = 0
    labels = Counter()
    nt = set()
    nt_batch = 0
    per_clause = Counter()
    refused = Counter()
    kf_hits = Counter()
    kf_examples = {}
    excluded = 0
    violations = list(reg["violations"])
    samples = {}
    notes = []
    inconclusive = []
    task_walls = {}
    for r in results:
        evals += r["evals"]
        labels.update(r["labels"])
        nt |= r["nt_hashes"]
        nt_batch += r["nt_batch"]
        per_clause.update(r["per_clause"])
        refused.update(r["refused"])
        kf_hits.update(r["kf_hits"])
        for k, v in r["kf_examples"].items():
            kf_examples.setdefault(k, v)
        excluded += r["excluded_known"]
        violations.extend(r["violations"])
        for k, v in r["samples"].items():
            samples.setdefault(k, v)
        notes.extend(r["notes"])
        inconclusive.extend(r["inconclusive"])
        task_walls[r["task"]] = round(r["wall"], 2)
    # dedupe violations by (clause, site, kind)
    seen = set()
    uniq = []
    for v in violations:
        b = (v["clause"], v["violation"]["site"], v["violation"]["kind"])
        if b in seen:
            continue
        seen.add(b)
        uniq.append(v)
    violations = uniq

    # ---- known findings: one line per listed (open) finding
    for kf in core.open_findings(pid):
        kid = kf["id"]
        n = kf_hits.get(kid, 0)
        if kid in reg["known"] or n:
            print("KNOWN-FINDING: property=%s %s: %s (witness reproduced: %s; matching "
                  "generated cases excluded this run: %d)" % (
                      pid, kid, kf["what"], "yes" if kid in reg["known"] else "n/a", n))
        else:
            print("KNOWN-FINDING: property=%s %s: %s (listed; not reproduced in this run)"
                  % (pid, kid, kf["what"]))
    for name, expect in reg["stale"]:
        print("note: regress case %s (expected %s) now holds" % (name, expect))

    # ---- evidence
    skeys = sorted(samples)
    step = max(1, len(skeys) // 14)
    sample_list = [samples[k] for k in skeys[::step]][:16]
    if not sample_list and kf_examples:
        sample_list = list(kf_examples.values())[:3]
    wall = time.time() - t0
    ev = {
        "property_id": pid,
        "tier": a.tier,
        "seed": seed,
        "level": getattr(mod, "LEVEL", "exploration"),
        "coverage": {
            "evaluations": evals + reg["ran"],
            "distinct_nontrivial": len(nt) + nt_batch,
            "rule": mod.RULE,
            "samples": sample_list,
            "exhaustive": bool(getattr(mod, "EXHAUSTIVE", {}).get(a.tier, False)),
            "per_clause_evaluations": dict(sorted(per_clause.items())),
            "label_histogram": dict(sorted(labels.items())),
            "documented_refusals": dict(sorted(refused.items())),
            "excluded_known": excluded,
            "known_finding_hits": dict(kf_hits),
            "regress_cases": reg["ran"],
            "tasks": len(results),
            "task_wall_s": task_walls,
            "inconclusive": inconclusive,
            "notes": notes[:40],
        },
        "assumptions": list(getattr(mod, "ASSUMPTIONS", [])),
        "wall_s": round(wall, 2),
        "violations": len(violations),
    }
    os.makedirs(os.path.join(core.ROOT, "evidence"), exist_ok=True)
    with open(os.path.join(core.ROOT, "evidence", "%s.json" % pid), "w") as f:
        json.dump(ev, f, indent=1, sort_keys=True)
        f.write("\n")

    print("%s %s seed=%d: %d evaluations, %d distinct non-trivial, %d tasks, %.1fs, "
          "excluded_known=%d" % (pid, a.tier, seed, ev["coverage"]["evaluations"],
                                 ev["coverage"]["distinct_nontrivial"], len(results),
                                 wall, excluded))
    if violations:
        for v in violations:
            p = write_replay(pid, v)
            print("  clause=%s site=%s kind=%s: %s" % (v["clause"], v["violation"]["site"],
                                                       v["violation"]["kind"],
                                                       v["violation"]["msg"]))
            print("  case=%s" % json.dumps(v["case"], sort_keys=True)[:600])
            print("VIOLATION property=%s replay=%s" % (pid, p))
        return 1
    return 0


if __name__ == "__main__":
    sys.exit(main())
