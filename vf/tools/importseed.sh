#!/bin/sh
# importseed.sh <PID> [extra check ids]   : confirm and import $SEEDROOT/<PID>/_seed/{a,b,c} into /verif/seeded/<PID>-$ROUND{a,b,c}
# env: SEEDROOT (default /tmp/seed), ROUND (default empty; "2" for the second round)
PID=$1; shift; EXTRA="$@"; SEEDROOT=${SEEDROOT:-/tmp/seed}
cd /verif
for v in a b c; do
  S=$SEEDROOT/$PID/_seed/$v
  [ -f $S/patch.diff ] || continue
  D=/verif/seeded/$PID-$ROUND$v; mkdir -p $D
  cp $S/patch.diff $S/demo.py $D/; [ -f $S/notes.txt ] && cp $S/notes.txt $D/
  python3 -m vf.tools.seedcheck $D $PID $EXTRA --write-meta > /tmp/seedcheck_$PID$ROUND$v.log 2>&1
  python3 - "$D" "$PID" <<'PY'
import json, sys, os
d, pid = sys.argv[1], sys.argv[2]
r = json.load(open(os.path.join(d, "check_result.json")))
notes = open(os.path.join(d, "notes.txt")).read() if os.path.exists(os.path.join(d, "notes.txt")) else ""
meta = {
 "property": pid,
 "origin": "written by a fresh sub-agent that was given only the property text and a scratch worktree of the repository (nothing from /verif)",
 "what_it_changes_and_needs_to_manifest": notes.strip(),
 "confirmed_by_coordinator": {
   "repo_commit": r["checked_at_repo_commit"],
   "patch_applies_to_repo_head": r["patch_applies"],
   "repo_test_suite_with_change": r.get("repo_tests"),
   "demo_exit_with_change": r.get("demo_exit_with_change"),
   "demo_exit_without_change": r.get("demo_exit_without_change"),
   "valid_seed": r.get("valid_seed"),
   "how": "python3 -m vf.tools.seedcheck (scratch copy of /repo's pymeeus+tests under /tmp, patch -p1, pytest, demo against the copy and against /repo, ./check <ID> --tier quick with VERIF_REPO=<copy>)",
 },
 "checks_run_against_it": r.get("checks"),
 "caught_by": r.get("caught_by"),
}
old = os.path.join(d, "meta.json")
if os.path.exists(old):
    try:
        h = json.load(open(old)).get("history")
        if h:
            meta["history"] = h
    except Exception:
        pass
json.dump(meta, open(os.path.join(d, "meta.json"), "w"), indent=1)
os.remove(os.path.join(d, "check_result.json"))
print(os.path.basename(d), "valid=%s" % r.get("valid_seed"), "caught_by=%s" % r.get("caught_by"),
      {k: (c["exit"], c["wall_s"], c["first_detail"][:1]) for k, c in (r.get("checks") or {}).items()})
PY
done
