#!/bin/sh
# usage: sweep.sh "<seeds>" "<ids>"  -> one line per (id, seed): exit code, wall, summary
cd /verif
for s in $1; do for p in $2; do
  t0=$(date +%s); out=$(VERIF_SEED=$s ./check $p --tier ${TIER:-quick} 2>&1); rc=$?; t1=$(date +%s)
  echo "$p seed=$s rc=$rc wall=$((t1-t0))s $(echo "$out" | grep -c '^VIOLATION') viol | $(echo "$out" | grep "evaluations" | cut -c1-120)"
  [ $rc -ne 0 ] && echo "$out" | grep -v "^KNOWN-FINDING" | grep -v "^  case=" | cut -c1-300 | head -8
done; done
