"""Development-time sensitivity tool (not part of any registered check).

Applies one change to a scratch copy of the package (outside /repo and /verif), confirms
the change survives the repository's own test suite, runs the named check(s) against the
scratch copy through VERIF_REPO, reports, and removes the scratch copy.

  python -m vf.tools.mutate --file pymeeus/Angle.py --old 'X' --new 'Y' --check C03
  python -m vf.tools.mutate --patch some.diff --check C03 C20 [--tier quick]
  python -m vf.tools.mutate --list mutants/C03.json         (batch: list of mutants)
"""
import argparse
import json
import os
import shutil
import subprocess
import sys
import tempfile
import time

ROOT = os.path.dirname(os.path.dirname(os.path.dirname(os.path.abspath(__file__))))
REPO = "/repo"


def make_scratch():
    d = tempfile.mkdtemp(prefix="vfmut-", dir=os.environ.get("TMPDIR", "/tmp"))
    for sub in ("pymeeus", "tests"):
        shutil.copytree(os.path.join(REPO, sub), os.path.join(d, sub),
                        ignore=shutil.ignore_patterns("__pycache__"))
    return d


def run_tests(d):
    env = dict(os.environ, PYTHONPATH=d, PYTHONDONTWRITEBYTECODE="1")
    env.pop("ARCHITEST_PYMEEUS_VERIF", None)
    p = subprocess.run(["/venv/bin/python", "-m", "pytest", "-q", "-p", "no:cacheprovider",
                        "-x", "--deselect",
                        "tests/test_jupiterMoons.py::TestJupiterMoons::test_is_phenomena",
                        "tests"], cwd=d, env=env, capture_output=True, text=True)
    tail = p.stdout.strip().splitlines()[-1] if p.stdout.strip() else p.stderr[-300:]
    return p.returncode == 0, tail


def run_check(d, pid, tier, seed):
    env = dict(os.environ, VERIF_REPO=d, VERIF_SEED=str(seed))
    t0 = time.time()
    p = subprocess.run([os.path.join(ROOT, "check"), pid, "--tier", tier], cwd=ROOT, env=env,
                       capture_output=True, text=True)
    return p.returncode, p.stdout + p.stderr, time.time() - t0


def apply_mutant(d, m):
    if "patch" in m:
        p = subprocess.run(["git", "apply", "--unsafe-paths", "--directory", d, os.path.abspath(m["patch"])],
                           cwd=d, capture_output=True, text=True)
        if p.returncode != 0:
            p = subprocess.run(["patch", "-p1", "-i", os.path.abspath(m["patch"])], cwd=d,
                               capture_output=True, text=True)
            if p.returncode != 0:
                raise SystemExit("cannot apply patch: " + p.stdout + p.stderr)
        return
    path = os.path.join(d, m["file"])
    s = open(path).read()
    cnt = s.count(m["old"])
    if cnt == 0:
        raise LookupError("old text not found in %s" % m["file"])
    nth = m.get("nth", 0)
    if cnt > 1 and "nth" not in m and not m.get("all"):
        raise LookupError("old text occurs %d times in %s; give nth or all" % (cnt, m["file"]))
    if m.get("all"):
        s = s.replace(m["old"], m["new"])
    else:
        idx = -1
        for _ in range(nth + 1):
            idx = s.index(m["old"], idx + 1)
        s = s[:idx] + m["new"] + s[idx + len(m["old"]):]
    open(path, "w").write(s)


def one(m, checks, tier, seed, want_tests=True, verbose=False):
    d = make_scratch()
    try:
        apply_mutant(d, m)
        ok, tail = run_tests(d) if want_tests else (True, "skipped")
        out = {"name": m.get("name") or m.get("patch") or m.get("old"), "tests_pass": ok,
               "tests": tail, "checks": {}}
        for pid in checks:
            rc, txt, dt = run_check(d, pid, tier, seed)
            viol = [l for l in txt.splitlines() if l.startswith("VIOLATION")]
            detail = [l for l in txt.splitlines() if l.startswith("  clause=")]
            out["checks"][pid] = {"exit": rc, "violations": len(viol), "wall": round(dt, 1),
                                  "detail": detail[:3]}
            if verbose or rc == 2:
                print(txt)
        return out
    finally:
        shutil.rmtree(d, ignore_errors=True)


def main():
    ap = argparse.ArgumentParser()
    ap.add_argument("--file")
    ap.add_argument("--old")
    ap.add_argument("--new")
    ap.add_argument("--nth", type=int)
    ap.add_argument("--patch")
    ap.add_argument("--list")
    ap.add_argument("--check", nargs="+")
    ap.add_argument("--tier", default="quick")
    ap.add_argument("--seed", type=int, default=1)
    ap.add_argument("--no-tests", action="store_true")
    ap.add_argument("-v", action="store_true")
    a = ap.parse_args()
    muts = []
    if a.list:
        doc = json.load(open(a.list))
        muts = doc["mutants"]
        checks = a.check or doc.get("checks")
    elif a.patch:
        muts = [{"patch": a.patch}]
        checks = a.check
    else:
        m = {"file": a.file, "old": a.old, "new": a.new}
        if a.nth is not None:
            m["nth"] = a.nth
        muts = [m]
        checks = a.check
    rc = 0
    for m in muts:
        if "patch" in m and not os.path.isabs(m["patch"]):
            m["patch"] = os.path.join(ROOT, m["patch"]) if not os.path.exists(m["patch"]) else m["patch"]
        try:
            r = one(m, m.get("checks") or checks, a.tier, a.seed, not a.no_tests, a.v)
        except (LookupError, SystemExit) as ex:
            print("%-8s %s  (%s)" % ("SKIPPED", m.get("name") or m.get("old"), ex))
            sys.stdout.flush()
            continue
        caught = any(c["exit"] == 1 for c in r["checks"].values())
        status = "CAUGHT" if caught else "MISSED"
        if not r["tests_pass"]:
            status += " (but repo tests FAIL: %s)" % r["tests"]
        print("%-8s %s" % (status, r["name"]))
        for pid, c in r["checks"].items():
            print("    %s exit=%d wall=%ss %s" % (pid, c["exit"], c["wall"], "; ".join(c["detail"])[:300]))
        sys.stdout.flush()
        if not caught:
            rc = 1
    return rc


if __name__ == "__main__":
    sys.exit(main())
