"""Maintain /verif/known_findings.json (development-time only; checks never write it).

  python -m vf.tools.kf fixed  C03 <commit> "what failed"
  python -m vf.tools.kf open   <json-file-with-entry>       entry: id, property, clause, site, what, signature, witness
  python -m vf.tools.kf regress C03 <name> <clause> '<case-json>' [expect]   -> regress/C03/<name>.json
"""
import fcntl
import json
import os
import sys

ROOT = os.path.dirname(os.path.dirname(os.path.dirname(os.path.abspath(__file__))))
KF = os.path.join(ROOT, "known_findings.json")


def update(fn):
    with open(KF + ".lock", "w") as lk:
        fcntl.flock(lk, fcntl.LOCK_EX)
        try:
            doc = json.load(open(KF))
        except FileNotFoundError:
            doc = {"findings": []}
        fn(doc)
        tmp = KF + ".tmp"
        with open(tmp, "w") as f:
            json.dump(doc, f, indent=1)
            f.write("\n")
        os.replace(tmp, KF)


def main():
    cmd = sys.argv[1]
    if cmd == "fixed":
        pid, commit, what = sys.argv[2:5]
        e = {"status": "fixed", "property": pid, "commit": commit, "what": what,
             "line": "fixed: property=%s %s %s" % (pid, commit, what)}
        update(lambda d: d["findings"].append(e))
    elif cmd == "open":
        e = json.load(open(sys.argv[2]))
        e["status"] = "open"
        for k in ("id", "property", "what", "site", "signature"):
            assert k in e, k

        def f(d):
            d["findings"] = [x for x in d["findings"] if x.get("id") != e["id"]] + [e]
        update(f)
    elif cmd == "regress":
        pid, name, clause, case = sys.argv[2:6]
        expect = sys.argv[6] if len(sys.argv) > 6 else "pass"
        d = os.path.join(ROOT, "regress", pid)
        os.makedirs(d, exist_ok=True)
        with open(os.path.join(d, name + ".json"), "w") as f:
            json.dump({"property": pid, "clause": clause, "case": json.loads(case), "expect": expect}, f, indent=1)
            f.write("\n")
    else:
        raise SystemExit(__doc__)


if __name__ == "__main__":
    main()
