#!/bin/sh
# usage: applyfix.sh <diff> <PID> "<commit subject (after 'fix: ')>" "<what failed (for known_findings)>" ["commit body"]
set -e
DIFF=$(realpath "$1"); PID=$2; SUBJ=$3; WHAT=$4; BODY=$5
cd /repo
git diff --quiet || { echo "repo dirty"; exit 1; }
grep -v '^#' "$DIFF" | patch -p1 --no-backup-if-mismatch
OUT=$(/venv/bin/python -m pytest -q -p no:cacheprovider tests 2>&1 | tail -1)
echo "$OUT"
case "$OUT" in *"1 failed, 250 passed"*) ;; *) echo "TESTS CHANGED - reverting"; git checkout -- .; exit 1;; esac
/venv/bin/python -m flake8 --select=E9,F $(git diff --name-only) || true
git commit -qam "fix: $SUBJ

$BODY"
SHA=$(git log --format=%h -1)
cd /verif && python3 -m vf.tools.kf fixed "$PID" "$SHA" "$WHAT"
mkdir -p /verif/fixes_applied && git mv -k "$1" /verif/fixes_applied/ 2>/dev/null || mv "$DIFF" /verif/fixes_applied/
echo "applied as $SHA"
