"""Regenerate /verif/MANIFEST.json from the property modules that exist.

Each property module may define MANIFEST = {"level_text":..., "level_note":..., "technique":...};
properties without a module are listed under not_applicable with the reason in NOT_BUILT.
"""
import importlib
import json
import os
import sys

ROOT = os.path.dirname(os.path.dirname(os.path.dirname(os.path.abspath(__file__))))
sys.path.insert(0, ROOT)
sys.path.insert(0, "/repo")

IDS = ["C%02d" % i for i in range(1, 21)]
# modules that exist but are not yet quiet / reviewed: not claimed until they are
PENDING = {}
NOT_BUILT = "check not built yet in this session (designed in DESIGN.md section 5; to be claimed once its module is committed and quiet on the unchanged tree)"


def main():
    checks = []
    na = []
    served = []
    for pid in IDS:
        path = os.path.join(ROOT, "vf", "props", pid.lower() + ".py")
        if not os.path.exists(path):
            na.append({"property_id": pid, "reason": NOT_BUILT})
            continue
        if pid in PENDING:
            na.append({"property_id": pid, "reason": PENDING[pid]})
            continue
        mod = importlib.import_module("vf.props." + pid.lower())
        m = getattr(mod, "MANIFEST", {})
        if m.get("not_applicable"):
            na.append({"property_id": pid, "reason": m["not_applicable"]})
            continue
        served.append(pid)
        checks.append({
            "property_id": pid,
            "quick_cmd": "./check %s --tier quick" % pid,
            "thorough_cmd": "./check %s --tier thorough" % pid,
            "evidence_file": "evidence/%s.json" % pid,
            "replay_cmd_template": "./check %s --replay {path}" % pid,
            "engine": "vf",
            "level_claimed": {
                "category": getattr(mod, "LEVEL", "exploration"),
                "text": m.get("level_text", "Generated-input search against an explicit oracle; see DESIGN.md."),
                "design_ref": "DESIGN.md section 5, %s" % pid,
            },
            "level_note": m.get("level_note", "; ".join(getattr(mod, "ASSUMPTIONS", [])) or "see DESIGN.md"),
            "technique": m.get("technique", "property-based testing (Hypothesis) against an explicit oracle"),
        })
    doc = {
        "version": 1,
        "setup_cmd": "/venv/bin/python -c 'import hypothesis, sortedcontainers' 2>/dev/null || /venv/bin/pip install --no-index --find-links /opt/veriftools/wheels hypothesis sortedcontainers",
        "hooks": {
            "guard": "ARCHITEST_PYMEEUS_VERIF",
            "enable": "no hooks are needed: every property is observable through the public API; ./check exports ARCHITEST_PYMEEUS_VERIF=1 and puts /repo first on PYTHONPATH so the current working tree is imported (pure Python, nothing to build)",
            "baseline_off_cmd": "cd /repo && env -u ARCHITEST_PYMEEUS_VERIF /venv/bin/python -m pytest -q -p no:cacheprovider --timeout=900 tests",
            "source_commits": [],
            "add_only": True,
        },
        "engines": [{
            "name": "vf", "path": "vf/check.py", "serves_properties": served,
            "kind_free_text": "property-based testing and fuzzing: Hypothesis-generated inputs and histories, and exhaustive enumeration of the finite calendar domains, checked against explicit oracles (integer calendar, exact rationals, vector geometry, event search on the library's own positions, two-body propagator); 16-way multiprocessing; shrunk failures become replay files",
        }],
        "checks": checks,
        "notes": "Known findings and fixed defects: known_findings.json. Seeded breaking changes: seeded/. Design: DESIGN.md.",
        "not_applicable": na,
    }
    with open(os.path.join(ROOT, "MANIFEST.json"), "w") as f:
        json.dump(doc, f, indent=1)
        f.write("\n")
    print("claimed:", served)
    print("not claimed:", [x["property_id"] for x in na])


if __name__ == "__main__":
    main()
