"""Confirm a seeded breaking change and run the checks against it (development-time).

  python3 -m vf.tools.seedcheck <seed-dir> <PID> [more PIDs ...] [--tier quick] [--write-meta]

<seed-dir> holds patch.diff and demo.py (and optionally notes.txt).  Steps, all on a scratch
copy of /repo's pymeeus + tests outside /repo and /verif (removed afterwards):
  1. patch applies;   2. repo test suite unchanged (250 pass);
  3. demo exits 1 on the patched copy and 0 on /repo;
  4. each named check run against the patched copy: exit 1 + VIOLATION = caught.
"""
import json
import os
import shutil
import subprocess
import sys
import time

from . import mutate

ROOT = mutate.ROOT


def run_demo(demo, libdir):
    env = dict(os.environ, PYTHONPATH=libdir, PYTHONDONTWRITEBYTECODE="1")
    try:
        p = subprocess.run(["/venv/bin/python", demo], env=env, capture_output=True, text=True,
                           cwd=os.path.dirname(demo), timeout=1800)
    except subprocess.TimeoutExpired:
        return 124, "timeout"
    return p.returncode, (p.stdout + p.stderr)[-600:]


def main():
    args = [a for a in sys.argv[1:] if not a.startswith("--")]
    tier = "quick"
    if "--tier" in sys.argv:
        tier = sys.argv[sys.argv.index("--tier") + 1]
        args = [a for a in args if a != tier]
    seed_dir = os.path.abspath(args[0])
    pids = args[1:]
    patch = os.path.join(seed_dir, "patch.diff")
    demo = os.path.join(seed_dir, "demo.py")
    d = mutate.make_scratch()
    meta = {"seed": os.path.basename(seed_dir), "checked_at_repo_commit": subprocess.run(
        ["git", "-C", "/repo", "log", "--format=%h", "-1"], capture_output=True, text=True).stdout.strip()}
    try:
        p = subprocess.run(["patch", "-p1", "-i", patch], cwd=d, capture_output=True, text=True)
        meta["patch_applies"] = p.returncode == 0
        if p.returncode != 0:
            print("PATCH DOES NOT APPLY:", p.stdout[-400:], p.stderr[-400:])
            print(json.dumps(meta))
            return 2
        ok, tail = mutate.run_tests(d)
        meta["repo_tests_pass_with_change"] = ok
        meta["repo_tests"] = tail
        rc1, out1 = run_demo(demo, d)
        rc0, out0 = run_demo(demo, "/repo")
        meta["demo_exit_with_change"] = rc1
        meta["demo_exit_without_change"] = rc0
        meta["demo_output_with_change"] = out1.strip()[-300:]
        meta["checks"] = {}
        for pid in pids:
            rc, txt, dt = mutate.run_check(d, pid, tier, int(os.environ.get("VERIF_SEED", "1")))
            viol = [l for l in txt.splitlines() if l.startswith("VIOLATION")]
            detail = [l.strip()[:400] for l in txt.splitlines() if l.startswith("  clause=")]
            meta["checks"][pid] = {"tier": tier, "exit": rc, "violation_lines": len(viol),
                                   "wall_s": round(dt, 1), "first_detail": detail[:2]}
            if rc == 2:
                print(txt[-2000:])
    finally:
        shutil.rmtree(d, ignore_errors=True)
    valid = meta["repo_tests_pass_with_change"] and meta["demo_exit_with_change"] == 1 \
        and meta["demo_exit_without_change"] == 0
    meta["valid_seed"] = valid
    meta["caught_by"] = [p for p, c in meta["checks"].items() if c["exit"] == 1]
    print(json.dumps(meta, indent=1))
    if "--write-meta" in sys.argv:
        with open(os.path.join(seed_dir, "check_result.json"), "w") as f:
            json.dump(meta, f, indent=1)
            f.write("\n")
    return 0


if __name__ == "__main__":
    sys.exit(main())
