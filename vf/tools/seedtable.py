"""Print the markdown table of seeded changes (DESIGN.md 8.5) from seeded/*/meta.json."""
import glob
import json
import os
import re

ROOT = os.path.dirname(os.path.dirname(os.path.dirname(os.path.abspath(__file__))))
rows = []
for d in sorted(glob.glob(os.path.join(ROOT, "seeded", "*", "meta.json"))):
    m = json.load(open(d))
    name = os.path.basename(os.path.dirname(d))
    notes = " ".join(m["what_it_changes_and_needs_to_manifest"].split())
    notes = re.sub(r"^(Change( [A-Ca-c])?( \([^)]*\))?:|[abc] [-–—]|Change [ABC] [-–—])\s*", "", notes)
    first = []
    for k, c in (m["checks_run_against_it"] or {}).items():
        if c["exit"] == 1 and c["first_detail"]:
            mm = re.search(r"clause=(\S+) site=(\S+) kind=(\S+?):? ", c["first_detail"][0] + " ")
            if mm:
                first.append("%s: %s / %s" % (k, mm.group(1), mm.group(3).rstrip(":")))
    short = notes[:170].rsplit(" ", 1)[0]
    h = m.get("history", "")
    if isinstance(h, list):
        own = m.get("property")
        missed = bool(h) and own not in (h[0].get("caught_by") or [])
    else:
        missed = h.startswith("First run: M") or "harness error" in h
    rows.append("| %s | %s | %s | %s%s |" % (name, short.replace("|", "/"), ", ".join(m["caught_by"]) or "-",
                                            "; ".join(first), " (missed at first, see above)" if missed else ""))
print("| seed | what was changed (author's note, abridged) | caught by | first report (check: clause / kind) |")
print("|---|---|---|---|")
print("\n".join(rows))
