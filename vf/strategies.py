"""Boundary-aware Hypothesis strategies shared by the property modules (DESIGN 2)."""
import math
import sys

from hypothesis import strategies as st

ULP = sys.float_info.epsilon
DELTAS = [0.0, 1e-12, -1e-12, 1e-9, -1e-9, 1e-6, -1e-6, 1e-3, -1e-3]


def nextafter(x, up=True):
    return math.nextafter(x, math.inf if up else -math.inf)


def near_multiples(unit, kmin, kmax, deltas=None):
    """k*unit + delta, and +-1 ulp of k*unit."""
    deltas = DELTAS if deltas is None else deltas

    def build(k, d, u):
        x = k * unit
        if u == 1:
            x = nextafter(x, True)
        elif u == -1:
            x = nextafter(x, False)
        return x + d
    return st.builds(build, st.integers(kmin, kmax), st.sampled_from(deltas),
                     st.sampled_from([0, 0, 1, -1]))


def bfloats(lo, hi, units=(), specials=()):
    """Floats in [lo, hi]: uniform, near multiples of the given units, range ends,
    specials.  All results are clamped into [lo, hi]."""
    parts = [st.floats(lo, hi, allow_nan=False, allow_infinity=False)]
    for u in units:
        kmin = int(math.ceil(lo / u))
        kmax = int(math.floor(hi / u))
        if kmax >= kmin:
            parts.append(near_multiples(u, kmin, kmax))
    sp = [lo, hi, nextafter(lo, True), nextafter(hi, False)] + list(specials)
    sp = [x for x in sp if lo <= x <= hi]
    parts.append(st.sampled_from(sp))
    return st.one_of(*parts).map(lambda x: min(hi, max(lo, x)))


def log_uniform(lo, hi):
    return st.floats(math.log(lo), math.log(hi)).map(math.exp)


# ---- directions on the sphere (longitude, latitude in degrees)

def sphere_points():
    uniform = st.tuples(st.floats(0, 360, exclude_max=True),
                        st.floats(-1, 1).map(lambda z: math.degrees(math.asin(z))))
    pole_off = st.sampled_from([0.0, 1e-12, 1e-9, 1e-7, 1e-5, 1e-4, 1e-3, 1e-2, 0.1, 1.0, 4.0])
    poles = st.tuples(st.floats(0, 360, exclude_max=True), pole_off,
                      st.sampled_from([1, -1])).map(lambda t: (t[0], t[2] * (90.0 - t[1])))
    equator = st.tuples(st.floats(0, 360, exclude_max=True),
                        st.sampled_from([0.0, 1e-12, -1e-12, 1e-6, -1e-6]))
    seam = st.tuples(st.sampled_from([0.0, 1e-12, 1e-9, 1e-6, 360 - 1e-6, 360 - 1e-9,
                                      nextafter(360.0, False), 180.0, 90.0, 270.0]),
                     st.floats(-90, 90))
    return st.one_of(uniform, uniform, poles, equator, seam)


def unit_vector(lon, lat):
    lo, la = math.radians(lon), math.radians(lat)
    return (math.cos(la) * math.cos(lo), math.cos(la) * math.sin(lo), math.sin(la))


def from_vector(v):
    x, y, z = v
    r = math.sqrt(x * x + y * y + z * z)
    lat = math.degrees(math.atan2(z, math.sqrt(x * x + y * y)))
    lon = math.degrees(math.atan2(y, x)) % 360.0
    if lon >= 360.0:
        lon = 0.0
    return lon, lat, r


def offset_point(lon, lat, dist, bearing):
    """Point at angular distance `dist` (deg) from (lon, lat) along `bearing` (deg, from
    north through east), built with vectors so that the separation is known by
    construction."""
    p = unit_vector(lon, lat)
    lo, la = math.radians(lon), math.radians(lat)
    north = (-math.sin(la) * math.cos(lo), -math.sin(la) * math.sin(lo), math.cos(la))
    east = (-math.sin(lo), math.cos(lo), 0.0)
    b = math.radians(bearing)
    t = tuple(math.cos(b) * n + math.sin(b) * e for n, e in zip(north, east))
    d = math.radians(dist)
    q = tuple(math.cos(d) * pi + math.sin(d) * ti for pi, ti in zip(p, t))
    lon2, lat2, _ = from_vector(q)
    return lon2, lat2


def sep_vectors(a, b):
    """Angle between two unit vectors in degrees, atan2(|a x b|, a . b)."""
    cx = a[1] * b[2] - a[2] * b[1]
    cy = a[2] * b[0] - a[0] * b[2]
    cz = a[0] * b[1] - a[1] * b[0]
    return math.degrees(math.atan2(math.sqrt(cx * cx + cy * cy + cz * cz),
                                   a[0] * b[0] + a[1] * b[1] + a[2] * b[2]))


def sep_deg(lon1, lat1, lon2, lat2):
    return sep_vectors(unit_vector(lon1, lat1), unit_vector(lon2, lat2))


# ---- epochs

def years(lo=-2000.0, hi=4000.0):
    """Fractional years with era ends over-weighted."""
    return st.one_of(st.floats(lo, hi),
                     st.floats(1900, 2100),
                     st.sampled_from([lo, hi]).flatmap(
                         lambda e: st.floats(0, 50).map(
                             lambda d: e + d if e == lo else e - d)))


def jde_from_year(y):
    return 2451545.0 + (y - 2000.0) * 365.25


# ---- Angle objects whose comparison tolerance is not the default

ANGLE_TOLS = [None, None, None, 0.0, 1e-14, 1e-6, 1e-3, 0.01]


def angle_with_tolerance(x, salt=0):
    """Angle(x) whose comparison tolerance (set_tolerance, a documented attribute that takes no
    part in the value) is varied deterministically with x: default for three cases in eight,
    otherwise one of {0, 1e-14, 1e-6, 1e-3, 0.01}, for odd picks carried through the copy
    constructor.  Nothing that is a function of the *value* may depend on it."""
    from pymeeus.Angle import Angle
    a = Angle(x)
    k = (int(abs(x) * 7919.0) + salt) % len(ANGLE_TOLS)
    if ANGLE_TOLS[k] is not None:
        a.set_tolerance(ANGLE_TOLS[k])
        if k % 2:
            a = Angle(a)
    return a
