"""Boundary-aware Hypothesis strategies for instants (Julian Ephemeris Days) and civil
date/time fields, shared by C02 and C16.  Built on the integer calendar oracle so the
boundary families (civil midnight, first of month, first of year, whole seconds, the 1582
reform instant) are placed exactly, then displaced by a small delta."""
import math

from hypothesis import strategies as st

from .oracles import calendar as cal

JD_MAX = 5.4e6
REFORM = 2299160.5            # 1582-10-15 0h, the instant after 1582-10-04 24h
SEC = 1.0 / 86400.0

DELTA_ABS = [0.0, 0.0, 1e-9, -1e-9, 1e-8, -1e-8, 1e-6, -1e-6, SEC, -SEC, 0.5 * SEC, -0.5 * SEC,
             1e-3 * SEC, -1e-3 * SEC, 1e-10, -1e-10, 1e-12, -1e-12]


def _ulps(x, k):
    for _ in range(abs(k)):
        x = math.nextafter(x, math.inf if k > 0 else -math.inf)
    return x


def displaced(base, lo=0.0, hi=JD_MAX):
    """base +- {0, k ulp, 1e-12 .. 1 s}, clamped into [lo, hi]."""
    def build(x, d, k):
        x = float(x)
        y = _ulps(x, k) if k else x + d
        return min(hi, max(lo, y))
    return st.builds(build, base, st.sampled_from(DELTA_ABS),
                     st.sampled_from([0, 0, 0, 1, -1, 2, -2, 3, -3]))


def first_of_month():
    """0h of the first day of a civil month (January over-weighted), years -4712..10072."""
    def build(y, m):
        if (y, m) == (-4712, 1):
            return 0.5              # keep a margin above JD 0
        return cal.jdn(y, m, 1) - 0.5
    ys = st.one_of(st.integers(-4712, 10071), st.integers(-4712, 6000), st.integers(1500, 2100),
                   st.sampled_from([-4712, -4711, -1, 0, 1, 4, 100, 1500, 1582, 1583, 1600,
                                    1700, 1900, 2000, 2100, 6000, 10000]))
    ms = st.sampled_from([1, 1, 1, 2, 3, 3, 4, 5, 6, 7, 8, 9, 10, 11, 12, 12])
    return st.builds(build, ys, ms)


def midnights(lo=0, hi=5399999):
    return st.integers(lo, hi).map(lambda n: n + 0.5)


def clock_ticks():
    """n + 0.5 + a whole number of seconds / minutes / hours."""
    def build(n, unit, k):
        return n + 0.5 + (k % (86400 // unit)) * unit / 86400.0
    return st.builds(build, st.integers(0, 5399998), st.sampled_from([1, 60, 3600]),
                     st.integers(0, 86399))


def jde_bases():
    return st.one_of(
        midnights(), midnights(), first_of_month(), first_of_month(), clock_ticks(),
        st.integers(0, 5400000).map(float),                    # noon
        st.just(REFORM), st.just(REFORM),
        midnights(0, 40), midnights(2299100, 2299220), midnights(5399000, 5399999),
        st.sampled_from([0.5, 1.5, 2451544.5, 2451545.0, 2400000.5, 1721057.5, 1721423.5,
                         4194303.5, 4194304.5, 2097151.5, 2097152.5, 1048575.5, 524287.5]),
    )


def jdes(lo=0.0, hi=JD_MAX):
    """Julian (Ephemeris) Days in [lo, hi]: uniform, and boundary families +- delta."""
    clamp = lambda x: min(hi, max(lo, x))
    return st.one_of(
        st.floats(lo, hi, allow_nan=False),
        displaced(jde_bases(), lo, hi), displaced(jde_bases(), lo, hi),
        displaced(jde_bases(), lo, hi),
        st.floats(0.0, 400.0).map(clamp),
        st.floats(2299150.0, 2299171.0).map(clamp),
        st.sampled_from([lo, hi, math.nextafter(hi, 0.0), 0.0, 5e-324, 1e-9, 0.49999999999999994,
                         0.5, 1.0]).map(clamp),
    )


def is_near_boundary(j, within=SEC):
    """True when j is within `within` days of a civil midnight (day/month/year boundaries
    are all midnights) or of a whole second of the day; used for labels only."""
    f = (j + 0.5) % 1.0
    return min(f, 1.0 - f) <= within


# ---- civil date/time fields

SECONDS = [0, 0.0, 1, 30, 59, 59.0, 0.5, 59.5, 59.999, 59.999999, 59.99999999, 59.9999999999,
           59.99999999999999, 1e-6, 1e-9, 29.999999999999996, 0.001]


def years():
    return st.one_of(st.integers(-4712, 6000), st.integers(1, 3000), st.integers(1500, 2100),
                     st.sampled_from([-4712, -4711, -1000, -4, -1, 0, 1, 4, 100, 400, 1000, 1500,
                                      1581, 1582, 1582, 1583, 1600, 1700, 1800, 1900, 1972, 2000,
                                      2100, 2400, 5999, 6000]))


def civil_dates():
    """(y, m, d) that exists in the civil calendar, month ends and leap days over-weighted."""
    def build(y, m, dsel, draw):
        L = cal.month_len(y, m)
        d = {0: 1, 1: L, 2: min(28, L), 3: 1 + draw % L, 4: 1 + draw % L}[dsel]
        if y == 1582 and m == 10 and 5 <= d <= 14:
            d = 4 if draw % 2 else 15
        return (y, m, d)
    return st.builds(build, years(), st.sampled_from([1, 2, 2, 3, 4, 5, 6, 7, 8, 9, 10, 10, 11, 12, 12]),
                     st.integers(0, 4), st.integers(0, 30))


def clock_times():
    """(h, mi, s): boundaries of every field over-weighted."""
    hs = st.one_of(st.integers(0, 23), st.sampled_from([0, 0, 23, 23, 12]))
    ms = st.one_of(st.integers(0, 59), st.sampled_from([0, 0, 59, 59, 30]))
    ss = st.one_of(st.sampled_from(SECONDS), st.floats(0, 60, exclude_max=True),
                   st.integers(0, 59))
    return st.tuples(hs, ms, ss)
