"""C17 - curve fitting returns the least-squares solution.

Oracle: the normal equations formed and solved exactly over fractions.Fraction from the exact
rational values of the float inputs (vf/oracles/lsq.py), with an exact condition number that
decides which data sets are "well-conditioned" (the only ones whose coefficients are asserted).
"""
import itertools
import math
from fractions import Fraction as F

from hypothesis import strategies as st

from pymeeus.CurveFitting import CurveFitting

from ..core import Violation, Task
from .. import strategies as S
from ..oracles import lsq

PROPERTY = "C17"
LEVEL = "exploration"
MANIFEST = {
    "level_text": "Randomised search (Hypothesis, ~25k data sets quick / 700k thorough: 2-200 points, spread and clustered abscissae in [-1e3, 1e3], noiseless and noisy ordinates, six input forms, every permutation of sets of up to 4 points) against an exact-rational least-squares solution. Finds violations; does not prove absence.",
    "level_note": "Trusts fractions.Fraction arithmetic and the reference normal-equation solver (self-tested on every run against literal fits). Coefficients are asserted only on well-conditioned data as defined in the assumptions.",
    "technique": "property-based testing (Hypothesis) with exact-rational least-squares reference (differential oracle)",
}
RULE = ("Hypothesis-generated data sets: n in 2..200 points (mostly 2..12, every size up to 200 "
        "reachable); abscissae spread over [-1e3, 1e3], [-10, 10] or [0, 1], or clustered (centre in "
        "[-1e3, 1e3] plus offsets of size 1e-3..10), duplicates allowed, in generated order; "
        "ordinates from a linear / quadratic / basis-expansion model, noiseless or with bounded "
        "noise (1e-3..10), or unrelated. Clauses: linear, quadratic, general (1-3 basis functions "
        "from {1, x, x^2, sin kx, cos kx, exp(x/100)}; the bases (x^2, x, 1) and (x, 1) are also "
        "compared with the quadratic and linear fits), corr (range, collinear, affine, sign flip), "
        "degenerate (all x equal; two distinct x for the quadratic; all y equal for r). Input forms: "
        "two lists, two tuples, flat x1, y1, ..., y-only list, copy, set(); for n <= 4 the body runs "
        "every permutation of the points. Non-trivial: >= 3 points and non-zero noise, or clustered "
        "abscissae, or a permuted / alternative input form; always for degenerate. Distinct = "
        "distinct case dict."
        " Further input forms: a longer x list, a longer y tuple, an odd number of flat values (surplus values without partner are dropped), and an object already fitted on other (ordinary or degenerate) data that takes over another CurveFitting through set(). Abscissae may be Python ints, among them tables that start at 0, end at n-1 and sum to n(n-1)/2 without being the index set.")
ASSUMPTIONS = [
    "well-conditioned (coefficients asserted) means: (100 + 4n) * 2.2e-16 * G < 1e-6 where G is the "
    "larger of (i) the exact kappa_inf of the normal matrix scaled symmetrically by powers of two "
    "to a diagonal in [1/2, 2) (the closed-form Cramer solutions are invariant under that "
    "scaling) and (ii) the exact Hadamard ratio prod(A_ii)/det(A), the factor by which Cramer's "
    "rule amplifies the rounding of its determinants (about kappa for two coefficients, up to "
    "kappa^2 for three); G < 4.3e7 for small n, 5e6 for n = 200; AND the exact "
    "determinant(s) the library compares with its absolute zero threshold 1e-10 (n*Sxx - Sx^2; "
    "the 3x3 determinant; the Gram diagonal and determinant of the general fit) are >= 1e-8; data "
    "below that threshold may be refused with the documented ZeroDivisionError",
    "coefficient tolerance: |c_i - c_i*| <= 1e-6 |c_i*| + (100 + 4n) u G ||y||_2 / ||f_i||_2: "
    "relative 1e-6 as stated plus the forward error bound of the closed form (itself < 1e-6 in "
    "the natural unit ||y||/||f_i|| of coefficient i on asserted data) for coefficients that "
    "are (nearly) zero in the exact solution",
    "orthogonality: |sum r_i f_j(x_i)| <= 1e-6 max(sum |y_i f_j(x_i)|, 1e-3 ||y||_2 ||f_j||_2) "
    "with the residuals of the library's coefficients evaluated exactly (the second term only "
    "matters when y and f_j have disjoint supports)",
    "noiseless data recovered: same tolerance against the generating coefficients (the ordinates "
    "are the float roundings of the model, so 'exactly' means to that tolerance)",
    "transcendental basis functions are taken at their float values f_j(x_i) (the library calls "
    "the same Python functions), the reference is exact for those values",
    "ill-conditioned data: only the exception type is asserted (nothing but ZeroDivisionError); "
    "a basis function whose sum of squares over the data is below 1e-8 is treated by the library "
    "like an absent one (its defaults are null functions): such cases are not asserted",
    "generated reals lie on a decimal grid (9 digits for abscissae, 6 for coefficients and free "
    "ordinates): no denormals or magnitudes whose squares underflow",
    "correlation: abscissae/ordinates have spread/|centre| >= 1e-6 by construction; r must be "
    "a float in [-1-1e-9, 1+1e-9]; exactly collinear data (dyadic x, slope and intercept, exact "
    "r^2 = 1) must give +-1 to 1e-9 with the sign of the slope; positive affine maps x -> a x + b "
    "are applied in float arithmetic and the exact change of r caused by their rounding is "
    "added to the 1e-9 tolerance; negation is exact",
    "degenerate data are exactly degenerate (identical floats), including values whose float "
    "sums do not cancel (0.1, 0.7, 1000.1, ...); degenerate means fewer distinct abscissae than "
    "coefficients (or constant x / constant y for r); basis functions that merely happen to be "
    "linearly dependent on the given abscissae (all vanish at x = 0, ...) are not asserted",
]

U = 2.220446049250313e-16
DET_MIN = F(4, 10 ** 10)      # four times the library's absolute zero threshold (base.TOL = 1e-10)


def kfloat(kap):
    if kap == float("inf") or kap > 10 ** 60:
        return float("inf")
    return float(kap)


def kfloat(kap):
    if kap == float("inf") or kap > 10 ** 60:
        return float("inf")
    return float(kap)


def well(n, kap):
    return err_factor(n, kap) < 1e-6


def self_test():
    lsq.self_test()


# --------------------------------------------------------------------- basis functions

def _one(x):
    return 1.0


def _x(x):
    return x


def _x2(x):
    return x * x


def _exp(x):
    return math.exp(x / 100.0)


def basis_fn(spec):
    name = spec[0]
    if name == "one":
        return _one
    if name == "x":
        return _x
    if name == "x2":
        return _x2
    if name == "exp":
        return _exp
    k = spec[1]
    if name == "sin":
        return lambda x: math.sin(k * x)
    if name == "cos":
        return lambda x: math.cos(k * x)
    raise AssertionError(spec)


def exact_row(specs, x):
    """Exact values of the basis at x (polynomial pieces exactly, the others at their float
    values)."""
    row = []
    for s in specs:
        if s[0] == "one":
            row.append(F(1))
        elif s[0] == "x":
            row.append(F(x))
        elif s[0] == "x2":
            row.append(F(x) * F(x))
        else:
            row.append(F(basis_fn(s)(x)))
    return row


# --------------------------------------------------------------------- building objects

FORMS = ["lists", "tuples", "flat", "copy", "set", "yonly", "x_longer", "y_longer", "flat_odd", "set_cf"]
SURPLUS = [7.25, -3.0, 1000.0, 0.5]


def build(form, xs, ys):
    if form == "lists":
        ax, ay = list(xs), list(ys)
        cf = CurveFitting(ax, ay)
        if ax != list(xs) or ay != list(ys):
            raise Violation("CurveFitting(x, y) changed the caller's lists", site="CurveFitting.set",
                            kind="argument_mutated")
        return cf
    if form == "tuples":
        return CurveFitting(tuple(xs), tuple(ys))
    if form == "flat":
        args = []
        for x, y in zip(xs, ys):
            args += [x, y]
        return CurveFitting(*args)
    if form == "copy":
        return CurveFitting(CurveFitting(list(xs), list(ys)))
    if form == "set":
        return reused(xs, ys, degenerate_prior=(len(xs) % 2 == 0))
    if form == "yonly":
        return CurveFitting(list(ys))
    # surplus values without a partner are dropped (documented by the examples of set(): a longer
    # x list, an odd number of flat values; the code makes both lengths equal)
    k = 1 + len(xs) % 3
    if form == "x_longer":
        return CurveFitting(list(xs) + SURPLUS[:k], list(ys))
    if form == "y_longer":
        return CurveFitting(tuple(xs), tuple(ys) + tuple(SURPLUS[:k]))
    if form == "flat_odd":
        args = []
        for x, y in zip(xs, ys):
            args += [x, y]
        return CurveFitting(*(args + SURPLUS[:1]))
    if form == "set_cf":
        # an object already used on other data takes over the data of another object
        return reused(xs, ys, degenerate_prior=(len(xs) % 2 == 1), through_object=True)
    raise AssertionError(form)


def reused(xs, ys, degenerate_prior, through_object=False):
    """An object that has already been used on other data (ordinary or degenerate) and is then
    re-loaded through set(): the documented alternative to the constructor."""
    if degenerate_prior:
        cf = CurveFitting([5.0, 5.0, 5.0], [3.0, -1.0, 2.0])
    else:
        cf = CurveFitting([1.0, 2.0, 4.0, 7.0], [3.0, -1.0, 2.0, 0.5])
    for m in (cf.linear_fitting, cf.quadratic_fitting, cf.correlation_coeff):
        try:
            m()
        except ZeroDivisionError:
            pass
    if through_object:
        try:
            cf.general_fitting(_x2, _x, _one)
        except ZeroDivisionError:
            pass
        cf.set(CurveFitting(list(xs), list(ys)))
    else:
        cf.set(list(xs), list(ys))
    return cf


def call_fit(cf, kind, specs):
    if kind == "linear":
        return cf.linear_fitting()
    if kind == "quadratic":
        return cf.quadratic_fitting()
    fns = [basis_fn(s) for s in specs]
    return cf.general_fitting(*fns)


SPECS = {"linear": [["x"], ["one"]], "quadratic": [["x2"], ["x"], ["one"]]}


def thresholds_ok(kind, A):
    """The exact quantities the library compares with its absolute zero threshold."""
    k = len(A)
    d = lsq.det(A)
    if d < DET_MIN:
        return False
    if kind == "general":
        if any(A[i][i] < DET_MIN for i in range(k)):
            return False
        prod = F(1)
        for i in range(k):
            prod *= A[i][i]
        if prod < DET_MIN:
            return False
    return True


def reference(kind, specs, xs, ys):
    """Everything that depends on the data set only (not on the order of the points)."""
    k = len(specs)
    n = len(xs)
    phi = [exact_row(specs, x) for x in xs]
    fy = [F(y) for y in ys]
    A, b = lsq.gram(phi, fy)
    ref = {"k": k, "n": n, "A": A, "b": b, "kind": kind, "distinct_x": len(set(float(x) for x in xs))}
    try:
        ref["cstar"] = lsq.solve(A, b)
    except lsq.Singular:
        ref["cstar"] = None
    ref["null"] = kind == "general" and any(A[i][i] < DET_MIN for i in range(k))
    if ref["cstar"] is None or ref["null"]:
        ref["well"] = False
        return ref
    kap = lsq.scaled_cond(A)
    prod = F(1)
    for i in range(k):
        prod *= A[i][i]
    had = prod / lsq.det(A)                 # Hadamard ratio >= 1: what Cramer's rule divides by
    amp = max(kfloat(kap), kfloat(had))
    ref["kappa"], ref["hadamard"], ref["amp"] = kfloat(kap), kfloat(had), amp
    ref["err"] = (100.0 + 4.0 * n) * U * amp
    ref["well"] = ref["err"] < 1e-6 and thresholds_ok(kind, A)
    ref["ynorm"] = math.sqrt(float(sum(v * v for v in fy)))
    ref["fnorm"] = [math.sqrt(float(A[i][i])) for i in range(k)]
    ref["absyf"] = [sum(abs(yv * row[j]) for yv, row in zip(fy, phi)) for j in range(k)]
    return ref


def check_fit(ref, got, what, site, model=None):
    """Compare one result with the exact solution; returns (asserted, labels)."""
    kind, k, A, b, cstar = ref["kind"], ref["k"], ref["A"], ref["b"], ref["cstar"]
    if ref["null"]:
        # a basis function that vanishes on the data is indistinguishable from an absent one
        # (the defaults of general_fitting are null functions): not asserted
        return False, ["null_basis_function(not asserted)"]
    if isinstance(got, ZeroDivisionError):
        if cstar is None:
            return False, ["exactly_degenerate_refused"]
        if ref["well"]:
            raise Violation("%s raised ZeroDivisionError(%s) on well-conditioned data (scaled kappa %.3g, "
                            "Hadamard ratio %.3g, det %.3g)" % (what, got, ref["kappa"], ref["hadamard"],
                                                                float(lsq.det(A))), site=site,
                            kind="refused_well_conditioned", kappa=ref["kappa"])
        return False, ["refused_ill_conditioned_or_below_threshold"]
    if cstar is None:
        if ref["distinct_x"] >= k:
            # the basis functions happen to be linearly dependent on these abscissae (e.g. all of
            # them vanish at x = 0): not a degeneracy of the data, cannot be seen in floats
            return False, ["dependent_basis_on_data(not asserted)"]
        raise Violation("%s returned %r for exactly degenerate data (%d distinct abscissae for %d coefficients) "
                        "instead of raising ZeroDivisionError" % (what, got, ref["distinct_x"], k), site=site,
                        kind="degenerate_returned_numbers")
    want_len = 2 if kind == "linear" else 3
    if not isinstance(got, tuple) or len(got) != want_len:
        raise Violation("%s returned %r, not a %d-tuple" % (what, got, want_len), site=site, kind="shape")
    coefs = [float(c) for c in got[:k]]
    for extra in got[k:]:
        if extra != 0.0:
            raise Violation("%s returned %r: coefficient of an absent basis function is not 0" % (what, got),
                            site=site, kind="extra_coefficient")
    if not ref["well"]:
        if not all(math.isfinite(c) for c in coefs):
            return False, ["ill_conditioned(not asserted)", "nonfinite_coefficients"]
        return False, ["ill_conditioned(not asserted)"]
    ynorm = ref["ynorm"]
    for i in range(k):
        floor = ref["err"] * ynorm / ref["fnorm"][i]
        tol = 1e-6 * abs(float(cstar[i])) + floor
        if not math.isfinite(coefs[i]) or abs(F(coefs[i]) - cstar[i]) > F(tol):
            raise Violation("%s = %r: coefficient %d is %r, exact least squares %r (scaled kappa %.3g, Hadamard "
                            "ratio %.3g, tol %.2e)" % (what, got, i, coefs[i], float(cstar[i]), ref["kappa"],
                                                       ref["hadamard"], tol), site=site,
                            kind="coefficient", index=i, got=coefs[i], want=float(cstar[i]), kappa=ref["kappa"])
        if model is not None:
            mt = 1e-6 * abs(model[i]) + floor
            if abs(F(coefs[i]) - F(model[i])) > F(mt) + abs(cstar[i] - F(model[i])):
                raise Violation("%s = %r does not recover the noiseless model coefficient %d = %r"
                                % (what, got, i, model[i]), site=site, kind="noiseless_recovery", index=i)
    # residuals orthogonal to every basis function: sum_i r_i f_j(x_i) = b_j - (A c)_j exactly
    fc = [F(c) for c in coefs]
    for j in range(k):
        dot = abs(b[j] - sum(A[j][m] * fc[m] for m in range(k)))
        lim = max(ref["absyf"][j], F(ynorm * ref["fnorm"][j]) / 1000)
        if dot > F(1, 10 ** 6) * lim + F(1, 10 ** 300):
            raise Violation("%s = %r: residuals are not orthogonal to basis function %d: |sum r f| = %.3e, "
                            "sum |y f| = %.3e" % (what, got, j, float(dot), float(lim)), site=site,
                            kind="orthogonality", index=j)
    return True, ["well_conditioned"]


def _run(cf, kind, specs):
    try:
        return call_fit(cf, kind, specs)
    except ZeroDivisionError as ex:
        return ex


def body_fit(case):
    kind = case["kind"]
    specs = SPECS.get(kind) or case["basis"]
    form = case["form"]
    xs, ys = list(case["x"]), list(case["y"])
    if form == "yonly":
        xs = list(range(len(ys)))
    n = len(xs)
    site = "CurveFitting.%s_fitting" % kind
    model = case.get("model") if case.get("noise", 1) == 0 else None
    labels = ["kind:" + kind, "form:" + form]
    if kind == "general":
        labels.append("general:%d_functions" % len(specs))
        for nm in sorted(set(s[0] for s in specs)):
            labels.append("basis_has:" + nm)
    evals = 0
    orders = [tuple(range(n))]
    if n <= 4 and form != "yonly":
        orders = list(itertools.permutations(range(n)))
        labels.append("all_permutations")
    ref = reference(kind, specs, xs, ys)
    ref2 = None
    asserted = False
    extra = []
    first = None
    for od in orders:
        px, py = [xs[i] for i in od], [ys[i] for i in od]
        cf = build(form, px, py)
        if len(cf) != n:
            raise Violation("len() = %r for %d points" % (len(cf), n), site="CurveFitting.set", kind="len")
        got = _run(cf, kind, specs)
        what = "CurveFitting<%s>(%r, %r).%s_fitting(%s)" % (form, px, py, kind,
                                                            "" if kind != "general" else ", ".join(map(str, specs)))
        asserted, extra = check_fit(ref, got, what, site, model)
        evals += 1
        if first is None:
            first = got
        # equivalence of general_fitting(x, 1) with linear_fitting beyond the a-priori well-conditioned
        # band, judged a posteriori: both divide by the same determinant n*Sxx - Sx^2.  When the
        # dedicated routine delivers a *non-zero* slope accurate to 1e-6 of itself, its determinant
        # was accurate, so the general fit with the same basis must not refuse the data (seeded
        # change C17-2b).  Only the refusal is asserted: the general routine's coefficients are
        # measurably less accurate on clustered data (1.6e-5 in calibration), and a slope that is
        # exactly zero says nothing about the determinant (found at VERIF_SEED=9: constant ordinates).
        if kind == "general" and not asserted and ref["cstar"] is not None and not ref["null"] \
                and [s_[0] for s_ in specs] == ["x", "one"] and abs(lsq.det(ref["A"])) >= F(1, 10 ** 8):
            cs = ref["cstar"]
            try:
                dres = cf.linear_fitting()
            except ZeroDivisionError:
                dres = None
            if dres is not None and cs[0] != 0 and abs(F(float(dres[0])) - cs[0]) <= abs(cs[0]) / 10 ** 6:
                if "equivalence_checked_a_posteriori" not in labels:
                    labels.append("equivalence_checked_a_posteriori")
                if isinstance(got, ZeroDivisionError):
                    raise Violation("%s raised ZeroDivisionError(%s) although linear_fitting returns %r, whose "
                                    "slope is the exact least-squares slope to 1e-6, for the same data: the "
                                    "general fit with (x, 1) must equal the linear fit" % (what, got, dres),
                                    site=site, kind="general_refuses_what_dedicated_fit_solves")
        # equivalences of the general fit
        if kind == "general" and asserted:
            names = [s[0] for s in specs]
            other = None
            if names == ["x2", "x", "one"]:
                other, oname = cf.quadratic_fitting(), "quadratic_fitting"
            elif names == ["x", "one"]:
                other, oname = cf.linear_fitting(), "linear_fitting"
            if other is not None:
                if ref2 is None:
                    ref2 = dict(ref, kind="quadratic" if len(names) == 3 else "linear")
                check_fit(ref2, other, what + " vs " + oname, "CurveFitting." + oname)
                if "equivalence_checked" not in labels:
                    labels.append("equivalence_checked")
    labels += extra
    clustered = case.get("xmode") == "cluster"
    if clustered:
        labels.append("clustered_abscissae")
    noise = case.get("noise", 1)
    if noise:
        labels.append("noisy")
    else:
        labels.append("noiseless")
    if n >= 50:
        labels.append("n>=50")
    if len(set(xs)) < n:
        labels.append("repeated_abscissae")
    nontrivial = (n >= 3 and noise != 0) or clustered or form != "lists" or len(orders) > 1
    info = {"labels": labels, "nontrivial": bool(nontrivial), "n": evals,
            "show": {"result": None if isinstance(first, Exception) else list(first)}}
    if isinstance(first, Exception):
        info["refused"] = "ZeroDivisionError"
    return info


# --------------------------------------------------------------------- correlation

def _corr(xs, ys, what):
    cf = CurveFitting(list(xs), list(ys))
    r = cf.correlation_coeff()
    if not isinstance(r, float) or not math.isfinite(r):
        raise Violation("%s returned %r" % (what, r), site="CurveFitting.correlation_coeff", kind="type")
    if not (-1.0 - 1e-9 <= r <= 1.0 + 1e-9):
        raise Violation("%s = %r is outside [-1, 1]" % (what, r), site="CurveFitting.correlation_coeff",
                        kind="range", r=r)
    return r


def body_corr(case):
    xs, ys = list(case["x"]), list(case["y"])
    site = "CurveFitting.correlation_coeff"
    what = "CurveFitting(%r, %r).correlation_coeff()" % (xs, ys)
    try:
        s, r2 = lsq.correlation(xs, ys)
    except lsq.Singular:
        try:
            r = CurveFitting(xs, ys).correlation_coeff()
        except ZeroDivisionError:
            return {"labels": ["zero_variance_refused"], "refused": "ZeroDivisionError", "nontrivial": True}
        raise Violation("%s returned %r for data with zero variance instead of raising ZeroDivisionError"
                        % (what, r), site=site, kind="degenerate_returned_numbers")
    r = _corr(xs, ys, what)
    rex = s * math.sqrt(float(r2))
    labels = []
    if r2 == 1:
        labels.append("exactly_collinear")
        if abs(r - s) > 1e-9:
            raise Violation("%s = %r for exactly collinear data (slope sign %+d)" % (what, r, s), site=site,
                            kind="collinear", r=r)
    ax, bx, ay, by = case["aff"]
    x2 = [ax * x + bx for x in xs]
    y2 = [ay * y + by for y in ys]
    try:
        rex2 = lsq.correlation_float(x2, y2)
    except lsq.Singular:
        rex2 = None
    if rex2 is not None:
        r2_ = _corr(x2, y2, "CurveFitting(%r, %r).correlation_coeff()" % (x2, y2))
        if abs(r2_ - r) > 1e-9 + abs(rex2 - rex):
            raise Violation("%s = %r but after x -> %r x + %r, y -> %r y + %r it is %r"
                            % (what, r, ax, bx, ay, by, r2_), site=site, kind="affine", r=r, r2=r2_)
        labels.append("affine")
    rn = _corr([-x for x in xs], ys, "CurveFitting(-x, y).correlation_coeff() of " + what)
    if abs(rn + r) > 1e-9:
        raise Violation("%s = %r but with x negated it is %r" % (what, r, rn), site=site, kind="sign_flip_x")
    rn = _corr(xs, [-y for y in ys], "CurveFitting(x, -y).correlation_coeff() of " + what)
    if abs(rn + r) > 1e-9:
        raise Violation("%s = %r but with y negated it is %r" % (what, r, rn), site=site, kind="sign_flip_y")
    if case.get("xmode") == "cluster":
        labels.append("clustered_abscissae")
    if abs(rex) > 0.999999 and r2 != 1:
        labels.append("|r|>0.999999")
    if abs(rex) < 0.1:
        labels.append("|r|<0.1")
    n = len(xs)
    return {"labels": labels or ["plain"], "n": 4,
            "nontrivial": bool((n >= 3 and r2 != 1) or case.get("xmode") == "cluster"),
            "show": {"r": r, "exact": rex}}


# --------------------------------------------------------------------- degenerate data

def body_degenerate(case):
    kind = case["dkind"]
    xs, ys = list(case["x"]), list(case["y"])
    # every other case goes through an object already used on ordinary data and re-loaded by set()
    if len(ys) % 3 == 1:
        cf = reused(xs, ys, degenerate_prior=False)
    elif len(ys) % 3 == 2:
        cf = reused(xs, ys, degenerate_prior=False, through_object=True)
    else:
        cf = CurveFitting(xs, ys)
    if kind == "all_x_equal_linear":
        call, site = cf.linear_fitting, "CurveFitting.linear_fitting"
    elif kind in ("all_x_equal_quadratic", "two_distinct_x_quadratic"):
        call, site = cf.quadratic_fitting, "CurveFitting.quadratic_fitting"
    elif kind in ("all_x_equal_corr", "all_y_equal_corr"):
        call, site = cf.correlation_coeff, "CurveFitting.correlation_coeff"
    elif kind == "all_x_equal_general2":
        call, site = (lambda: cf.general_fitting(_x, _one)), "CurveFitting.general_fitting"
    elif kind == "two_distinct_x_general3":
        call, site = (lambda: cf.general_fitting(_x2, _x, _one)), "CurveFitting.general_fitting"
    else:
        raise AssertionError(kind)
    what = "CurveFitting(%r, %r): %s" % (xs, ys, kind)
    try:
        res = call()
    except ZeroDivisionError:
        return {"labels": ["degenerate:" + kind], "nontrivial": True}
    except (ValueError, OverflowError, ArithmeticError) as ex:
        raise Violation("%s raised %s(%s) instead of ZeroDivisionError" % (what, type(ex).__name__, ex),
                        site=site, kind="degenerate_wrong_exception:" + type(ex).__name__)
    raise Violation("%s returned %r instead of raising ZeroDivisionError" % (what, res), site=site,
                    kind="degenerate_returned_numbers")


CLAUSES = {"linear": body_fit, "quadratic": body_fit, "general": body_fit, "corr": body_corr,
           "degenerate": body_degenerate}


# --------------------------------------------------------------------- strategies

def rfloats(lo, hi, nd=9):
    """Floats in [lo, hi] on a decimal grid of nd digits: no denormals or magnitudes whose
    squares underflow (those are outside the property's domain)."""
    return st.floats(lo, hi).map(lambda v: min(hi, max(lo, round(v, nd))) + 0.0)


def sizes():
    return st.one_of(st.integers(2, 12), st.integers(2, 12), st.integers(2, 4), st.integers(13, 60),
                     st.integers(61, 200))


def _clip(v):
    return min(1000.0, max(-1000.0, v))


@st.composite
def xsets(draw, n, dyadic=False):
    mode = draw(st.sampled_from(["wide", "mid", "unit", "cluster", "cluster", "grid", "ints", "tiny"]))
    if mode == "tiny":
        # a small spread about the origin: the sums of squares and the determinant of the normal
        # equations come down to within a few orders of magnitude of the library's absolute zero
        # threshold while the problem stays perfectly conditioned
        w = draw(S.log_uniform(1e-6, 1e-2))
        offs = draw(st.lists(st.integers(-8, 8), min_size=n, max_size=n, unique=(n <= 12)))
        xs = [w * o + 0.0 for o in offs]
        if len(set(xs)) < 2:
            xs[0] = xs[0] + w
        return "cluster", xs
    if mode == "ints":
        # Python ints (documented input type): small tables of counts, and tables that look like
        # the index set 0..n-1 of the single-sequence form without being it
        how = draw(st.sampled_from(["any", "any", "index_like", "index_moved"]))
        if how == "any":
            xs = draw(st.lists(st.integers(-20, 20), min_size=n, max_size=n))
        elif how == "index_like":
            xs = [0] + draw(st.lists(st.integers(0, max(1, n - 1)), min_size=max(0, n - 2),
                                     max_size=max(0, n - 2))) + [n - 1]
            xs = xs[:n] if n >= 2 else xs
        else:
            xs = list(range(n))
            if n >= 4:
                for _ in range(draw(st.integers(1, 3))):
                    i = draw(st.integers(1, n - 2))
                    j = draw(st.integers(1, n - 2))
                    if i != j and xs[j] > 0:
                        xs[i] += 1
                        xs[j] -= 1
            xs = [xs[0]] + list(draw(st.permutations(xs[1:-1]))) + [xs[-1]] if n >= 3 else xs
        if len(set(xs)) < 2:
            xs[-1] = xs[0] + 1
        return "ints", xs
    if mode == "wide":
        xs = draw(st.lists(rfloats(-1000, 1000), min_size=n, max_size=n))
    elif mode == "mid":
        xs = draw(st.lists(rfloats(-10, 10), min_size=n, max_size=n))
    elif mode == "unit":
        xs = draw(st.lists(rfloats(0, 1), min_size=n, max_size=n))
    elif mode == "grid":
        step = draw(st.sampled_from([1.0, 0.5, 0.25, 10.0]))
        k0 = draw(st.integers(-20, 10))
        xs = [(k0 + i) * step for i in range(n)]
        xs = [_clip(v) for v in draw(st.permutations(xs))]
    else:
        c = draw(st.one_of(rfloats(-1000, 1000), st.sampled_from([1000.0, -1000.0, 0.0, 500.0])))
        w = draw(S.log_uniform(1e-3, 10.0))
        offs = draw(st.lists(rfloats(-1, 1), min_size=n, max_size=n))
        xs = [_clip(c + w * o) for o in offs]
        mode = "cluster"
    if dyadic:
        xs = [math.floor(v * 1024.0 + 0.5) / 1024.0 for v in xs]
    xs = [0.0 if v == 0 else v for v in xs]
    return mode, xs


def noise_levels():
    return st.sampled_from([0, 0, 1e-3, 0.1, 1.0, 10.0])


@st.composite
def fit_cases(draw, kind):
    n = draw(sizes())
    form = draw(st.sampled_from(["lists", "lists", "tuples", "flat", "copy", "set", "yonly", "x_longer",
                                 "y_longer", "flat_odd", "set_cf"]))
    if form == "yonly":
        mode, xs = "grid", [float(i) for i in range(n)]
    else:
        mode, xs = draw(xsets(n))
    noise = draw(noise_levels())
    case = {"kind": kind, "form": form, "xmode": mode, "noise": noise}
    if kind == "general":
        pool = [["one"], ["x"], ["x2"], ["exp"], ["sin", 1.0], ["sin", 0.1], ["sin", 2.0], ["cos", 1.0],
                ["cos", 0.1], ["cos", 0.01]]
        pick = draw(st.sampled_from(["x2x1", "x1", "any1", "any2", "any3", "any3", "any2"]))
        if pick == "x2x1":
            specs = [["x2"], ["x"], ["one"]]
        elif pick == "x1":
            specs = [["x"], ["one"]]
        else:
            k = int(pick[-1])
            specs = draw(st.lists(st.sampled_from(pool), min_size=k, max_size=k, unique_by=lambda s: tuple(s)))
        case["basis"] = specs
        if pick == "x1" and form != "yonly" and draw(st.booleans()):
            # tight clusters on a dyadic grid far from the origin: outside the a-priori band, yet the
            # float sums are exact there, the dedicated fit is accurate, and the equivalence is judged
            # a posteriori (label equivalence_checked_a_posteriori)
            c = draw(st.sampled_from([999.5, -999.5, 500.25, -750.0, 64.0, 321.0]))
            h = draw(st.sampled_from([1.0 / 128, 1.0 / 256, 1.0 / 64, 1.0 / 1024]))
            ks = draw(st.lists(st.integers(-12, 12), min_size=n, max_size=n))
            if len(set(ks)) < 2:
                ks[0] = ks[0] + 1
            xs = [c + k * h for k in ks]
            sl = draw(st.sampled_from([1.0, -2.0, 0.5, 8.0, -0.25]))
            ys_ = [sl * (x - c) + draw(st.integers(-8, 8)) / 8.0 for x in xs]
            case.update({"xmode": "cluster", "noise": 1, "x": xs, "y": ys_})
            return case
    else:
        specs = SPECS[kind]
    fns = [basis_fn(s) for s in specs]
    coefs = [draw(st.one_of(st.integers(-5, 5).map(float), rfloats(-100, 100, 6))) for _ in specs]
    if draw(st.sampled_from([True, True, True, False])):
        eps = [draw(rfloats(-1, 1)) for _ in range(n)] if noise else [0.0] * n
        ys = [sum(c * f(x) for c, f in zip(coefs, fns)) + noise * e for x, e in zip(xs, eps)]
        case["model"] = coefs
    else:
        ys = draw(st.lists(rfloats(-100, 100, 6), min_size=n, max_size=n))
        case["noise"] = 1
    case["x"] = xs
    case["y"] = [0.0 if v == 0 else v for v in ys]
    return case


@st.composite
def corr_cases(draw):
    n = draw(sizes())
    collinear = draw(st.sampled_from([True, False, False]))
    mode, xs = draw(xsets(n, dyadic=collinear))
    if max(xs) - min(xs) < 4e-3:
        xs[0] = xs[0] + 1.0 if xs[0] < 999 else xs[0] - 1.0
    if collinear:
        a = draw(st.sampled_from([1.0, -1.0, 2.0, -0.5, 3.0, -4.0, 0.25]))
        b = draw(st.sampled_from([0.0, 1.0, -37.5, 512.0]))
        ys = [a * x + b for x in xs]
    else:
        a = draw(rfloats(-5, 5, 6))
        b = draw(rfloats(-100, 100, 6))
        nz = draw(st.sampled_from([1e-3, 0.1, 1.0, 10.0, 100.0]))
        eps = draw(st.lists(rfloats(-1, 1), min_size=n, max_size=n))
        ys = [a * x + b + nz * e for x, e in zip(xs, eps)]
    # keep spread / |centre| >= 2e-6 (also after the affine maps) for both variables
    for vals in (xs, ys):
        if max(vals) - min(vals) < 2e-6 * (1000.0 + max(abs(v) for v in vals)):
            vals[0] = vals[0] + 1.0 if vals[0] < 999.0 else vals[0] - 1.0
    aff = [draw(st.sampled_from([0.5, 2.0, 3.0, 0.1, 1.0, 7.0])), draw(st.sampled_from([0.0, 1.0, -3.25, 100.0])),
           draw(st.sampled_from([0.5, 2.0, 3.0, 0.1, 1.0, 7.0])), draw(st.sampled_from([0.0, 1.0, -3.25, 100.0]))]
    # a change of units: pure rescaling by many orders of magnitude (no offset, so the relative
    # spread of the data is untouched) of one variable or of both
    units = draw(st.sampled_from([None, None, (1e-6, 1.0), (1.0, 1e-6), (2.0 ** -30, 2.0 ** -30), (1e5, 1e-8),
                                  (2.0 ** 20, 1.0), (2.0 ** 300, 2.0 ** 300), (2.0 ** -300, 2.0 ** -300),
                                  (2.0 ** 200, 2.0 ** -200), (2.0 ** 400, 1.0)]))
    if units is not None:
        aff = [units[0], 0.0, units[1], 0.0]
    return {"x": xs, "y": ys, "aff": aff, "xmode": mode}


@st.composite
def degenerate_cases(draw):
    kind = draw(st.sampled_from(["all_x_equal_linear", "all_x_equal_quadratic", "two_distinct_x_quadratic",
                                 "all_x_equal_corr", "all_y_equal_corr", "all_x_equal_general2",
                                 "two_distinct_x_general3"]))
    n = draw(st.one_of(st.integers(2, 8), st.integers(2, 40)))
    val = st.one_of(st.sampled_from([0.1, 0.7, 1000.1, -999.9, 1.0 / 3.0, 123.456, 1e-3, 0.3, 2.0, 0.0, -0.7,
                                     1e3, 5e-324]),
                    rfloats(-1000, 1000))
    v1 = draw(val)
    if kind.endswith("general2") and abs(v1) < 1e-3:
        v1 = 0.1            # a basis function that vanishes on all the data counts as absent
    free = draw(st.lists(rfloats(-100, 100, 6), min_size=n, max_size=n))
    if len(set(free)) < 2:
        free[0] = free[0] + 1.0
    if kind.startswith("all_x_equal"):
        xs, ys = [v1] * n, free
    elif kind == "all_y_equal_corr":
        xs, ys = free, [v1] * n
    else:
        v2 = draw(val)
        if v2 == v1:
            v2 = v1 + 1.0
        n = max(n, 3)
        pat = draw(st.lists(st.booleans(), min_size=n, max_size=n))
        pat[0], pat[1] = True, False
        xs = [v1 if p else v2 for p in pat]
        ys = (free + draw(st.lists(rfloats(-100, 100, 6), min_size=3, max_size=3)))[:n]
    return {"dkind": kind, "x": xs, "y": ys}


STRATS = {"linear": lambda: fit_cases("linear"), "quadratic": lambda: fit_cases("quadratic"),
          "general": lambda: fit_cases("general"), "corr": corr_cases, "degenerate": degenerate_cases}


def tasks(tier, seed):
    mult = 1 if tier == "quick" else 30
    plan = {"linear": (4, 1500), "quadratic": (4, 1000), "general": (5, 1000), "corr": (3, 1200),
            "degenerate": (1, 2500)}
    out = []
    k = 1 if tier == "quick" else 2
    for clause, (shards, n) in plan.items():
        for sh in range(shards * k):
            out.append(Task("t_given", clause=clause, shard=sh, n=n * mult // k))
    return out


def t_given(rec, clause, shard, n):
    rec.given(clause, STRATS[clause](), n, shard=shard)
