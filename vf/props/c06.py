"""C06 - precession is a rigid, invertible rotation, consistent across routes.

Oracle: vector geometry on the unit sphere (vf/oracles/rot.py).  Every comparison is a
great-circle separation computed with atan2(|a x b|, a . b), so right ascensions at a
pole (undefined) never enter.  The change equator <-> ecliptic of the route clause is
done by the harness with the library's mean_obliquity() value (the anchor) - the
library's own equatorial2ecliptical()/ecliptical2equatorial() belong to C05.
"""
import math

from hypothesis import strategies as st

from pymeeus.Angle import Angle
from pymeeus.Epoch import Epoch
from pymeeus import Coordinates as C

from ..core import Violation, Task
from .. import strategies as S
from ..oracles import rot

PROPERTY = "C06"
LEVEL = "exploration"
MANIFEST = {
    "level_text": "Randomised search (Hypothesis; directions uniform + both polar caps down to 1e-9 deg from the pole + the 85 deg branch of the code; forward, backward, zero and tiny intervals; starting epochs other than J2000) against a vector-geometry model of the sphere: identity, there-and-back, preserved pair separations and orientation, equatorial vs ecliptical route, Newcomb vs FK5, proper motion, orbital elements there-and-back. Finds violations; does not prove absence.",
    "level_note": "Trusts math.atan2/sin/cos and the 60-line vector helper (self-tested on every run). Tolerances are the ones stated in the property; where it states none the derivation is in the assumptions.",
    "technique": "property-based testing (Hypothesis) with metamorphic relations (round trip, isometry, route agreement) judged by a vector-geometry oracle",
}
RULE = ("Hypothesis-generated cases, one clause per relation and function. Directions: "
        "uniform on the sphere, both polar caps (90 - 10^u deg, u in [-9, 0.7], and exactly "
        "+-90), the 85 deg branch point of the code +- {0, 1e-12 .. 0.1}, equator, 0/360 "
        "seam (route clause: also the ecliptic polar caps). Epoch pairs: start in J2000 +- {5, 10, 20, 40} centuries (+-5 for the "
        "clauses the text limits: ecliptical there-and-back, route, orbital elements; "
        "1800-2100 for Newcomb), end uniform in the same span, equal to the start (zero "
        "interval), start +- 10^u years (tiny interval), or J2000. Pairs/triples of stars: "
        "independent or constructed at a known distance (1e-7..180 deg) and bearing from "
        "the first. Proper motions up to 10 arcsec/yr per coordinate, given as float or "
        "Angle. Orbital elements: i in [0, 180] with 10^u and 180 - 10^u and exact 0, 90, "
        "180. Non-trivial: |dec| > 85 deg at start or after precessing, or backward "
        "interval, or start epoch other than J2000, or non-zero proper motion, or i < 1 / "
        "i > 90; distinct = distinct case dict.")
ASSUMPTIONS = [
    "orbital_equinox2equinox there-and-back: the property states no tolerance; 3e-6 deg is used (three times the ecliptical 1e-6 deg, since the perihelion direction composes node, inclination and argument, each carrying the ecliptical method's there-and-back error; found at VERIF_SEED=7: 1.002e-6 deg at the 5-century edge for i = 1.5e-12 deg)",
    "all comparisons are great-circle separations between directions (an RA at the pole is "
    "never compared); stated tolerances: zero interval and there-and-back 1e-9 deg "
    "equatorial / 1e-6 deg ecliptical (there-and-back ecliptical only with both epochs "
    "inside J2000 +-5 centuries), pair separations 1e-9 deg, routes 1e-4 deg inside +-5 "
    "centuries, Newcomb vs FK5 0.005 deg for both epochs in 1800-2100",
    "orientation (sign of the triple product of three stars) is asserted only when "
    "|triple product| > 1e-3",
    "route clause: equator <-> ecliptic by the harness' own rotation with the value of "
    "mean_obliquity(epoch); the library's conversion functions are C05's subject",
    "proper motion (text gives no tolerance): precess(start, pm) must equal "
    "precess(start + pm * T) with T = elapsed days / 365.25 (Newcomb: / 365.242199, its own "
    "century) to 1e-9 deg; cases keep |dec + pm_dec * T| <= 90",
    "motion_in_space with zero radial velocity: separation from the linear prediction "
    "(ra + pm_ra T, dec + pm_dec T) <= (mu T)^2 (1 + |tan dec|) + 1e-12 rad (the second-order "
    "remainder of straight-line motion; measured ratio <= 0.5), |dec| <= 80, |T| <= 1000 yr",
    "p_motion_equa2eclip returns floats (radians/yr, computed from Angle.rad()) although "
    "documented as Angles; either is accepted; it must be the first-order image of the "
    "equatorial proper motion under the rotation by the given obliquity (relative 1e-4 over "
    "0.01 yr), |dec|, |lat| <= 80",
    "orbital elements there-and-back (text gives no tolerance): 1e-6 deg inside +-5 centuries "
    "(the function shares the eta/Pi/p polynomials of the ecliptical clause) on the "
    "inclination, on the orbit pole and the perihelion direction (vectors), and on node and "
    "argument scaled by sin i (a vanishing inclination does not demand a defined node); for "
    "i0 == 0 exactly with a zero interval only i and the pole are asserted (neither the "
    "orbit nor a rotation defines a node); generated inclinations are 0 or >= 1e-12 deg "
    "(smaller positive values are replaced by 0: their squares underflow)",
    "composition over three epochs and agreement of orbital_equinox2equinox with "
    "precession_ecliptical are not stated by the property and not asserted",
    "callers' Angle and Epoch arguments must be unchanged after every call",
]

TOL_EQ = 1e-9
TOL_ECL = 1e-6
TOL_RIGID = 1e-9
TOL_ROUTE = 1e-4
TOL_NEWCOMB = 0.005
TOL_PM = 1e-9
TOL_ORB = 3e-6      # no tolerance is stated for the orbital elements; see ASSUMPTIONS
PM_MAX = 10.0 / 3600.0

FUNCS = {"eq": C.precession_equatorial, "ecl": C.precession_ecliptical,
         "newcomb": C.precession_newcomb}
SITE = {"eq": "Coordinates.precession_equatorial", "ecl": "Coordinates.precession_ecliptical",
        "newcomb": "Coordinates.precession_newcomb"}
YEAR_DAYS = {"eq": 365.25, "ecl": 365.25, "newcomb": 365.242199}


def self_test():
    rot.self_test()


def jde_of(y):
    return 2451545.0 + (y - 2000.0) * 365.25


def ep(y):
    return Epoch(jde_of(y))


class Watch(object):
    """Remembers the values of caller-owned Angles/Epochs and checks they are unchanged."""

    def __init__(self):
        self.items = []

    def angle(self, x):
        a = Angle(x)
        self.items.append((a, a(), "Angle"))
        return a

    def epoch(self, y):
        e = ep(y)
        self.items.append((e, e.jde(), "Epoch"))
        return e

    def check(self, site):
        for obj, v0, kind in self.items:
            v = obj() if kind == "Angle" else obj.jde()
            if v != v0:
                raise Violation("%s changed its caller's %s from %r to %r" % (site, kind, v0, v),
                                site=site, kind="argument_mutated", before=v0, after=v)


def call(fn, site, e0, e1, a, d, *pm, **kw):
    out = fn(e0, e1, a, d, *pm, **kw)
    if not (isinstance(out, tuple) and len(out) == 2 and isinstance(out[0], Angle)
            and isinstance(out[1], Angle)):
        raise Violation("%s returned %r, not a pair of Angles" % (site, out), site=site, kind="type")
    x, y = out[0](), out[1]()
    if not (math.isfinite(x) and math.isfinite(y)):
        raise Violation("%s returned non-finite coordinates (%r, %r)" % (site, x, y),
                        site=site, kind="non_finite")
    return x, y


def too_far(d, tol):
    return not (d <= tol)         # also true for NaN


def epoch_labels(case, labels):
    y0, y1 = case["y0"], case["y1"]
    nt = False
    if jde_of(y1) < jde_of(y0):
        labels.append("backward_interval")
        nt = True
    elif jde_of(y1) == jde_of(y0):
        labels.append("zero_interval")
    elif y1 - y0 < 1e-2:
        labels.append("tiny_interval")
    if y0 != 2000.0:
        labels.append("start_not_J2000")
        nt = True
    else:
        labels.append("start_J2000")
    if max(abs(y0 - 2000.0), abs(y1 - 2000.0)) > 500.0:
        labels.append("beyond_5_centuries")
    return nt


def dir_labels(dec_in, dec_out, labels):
    nt = False
    if dec_in > 85.0:
        labels.append("north_cap_start")
        nt = True
    if dec_in < -85.0:
        labels.append("south_cap_start")
        nt = True
    if abs(dec_in) > 89.999:
        labels.append("within_1e-3_of_pole")
    if abs(abs(dec_in) - 85.0) <= 0.1:
        labels.append("at_85deg_branch")
    if dec_out is not None and abs(dec_out) > 85.0:
        labels.append("cap_after_precessing")
        nt = True
    return nt


# ------------------------------------------------------------------ precession clauses

def make_identity(which):
    fn, site = FUNCS[which], SITE[which]
    tol = TOL_EQ if which == "eq" else TOL_ECL

    def body(case):
        w = Watch()
        e0 = w.epoch(case["y0"])
        e1 = w.epoch(case["y0"])
        a, d = w.angle(case["ra"]), w.angle(case["dec"])
        x, y = call(fn, site, e0, e1, a, d)
        dist = rot.sep(rot.vec(case["ra"], case["dec"]), rot.vec(x, y))
        if too_far(dist, tol):
            raise Violation("%s over a zero interval at year %r moved (%r, %r) to (%r, %r): %.3e deg"
                            % (site, case["y0"], case["ra"], case["dec"], x, y, dist),
                            site=site, kind="identity", off=dist)
        w.check(site)
        labels = ["zero_interval"]
        nt = dir_labels(case["dec"], y, labels)
        if case["y0"] != 2000.0:
            labels.append("start_not_J2000")
            nt = True
        return {"labels": labels, "nontrivial": nt, "show": {"out": [x, y], "off_deg": dist}}
    return body


def make_roundtrip(which):
    fn, site = FUNCS[which], SITE[which]
    tol = TOL_EQ if which == "eq" else TOL_ECL

    def body(case):
        w = Watch()
        e0, e1 = w.epoch(case["y0"]), w.epoch(case["y1"])
        a, d = w.angle(case["ra"]), w.angle(case["dec"])
        x1, y1 = call(fn, site, e0, e1, a, d)
        a1, d1 = w.angle(x1), w.angle(y1)
        x2, y2 = call(fn, site, e1, e0, a1, d1)
        dist = rot.sep(rot.vec(case["ra"], case["dec"]), rot.vec(x2, y2))
        if too_far(dist, tol):
            raise Violation("%s %r -> %r -> %r: (%r, %r) -> (%r, %r) -> (%r, %r), %.3e deg from the start"
                            % (site, case["y0"], case["y1"], case["y0"], case["ra"], case["dec"],
                               x1, y1, x2, y2, dist), site=site, kind="roundtrip", off=dist)
        w.check(site)
        labels = []
        nt = epoch_labels(case, labels)
        nt = dir_labels(case["dec"], y1, labels) or nt
        return {"labels": labels, "nontrivial": nt,
                "show": {"there": [x1, y1], "back": [x2, y2], "off_deg": dist}}
    return body


def make_rigid(which):
    fn, site = FUNCS[which], SITE[which]

    def body(case):
        w = Watch()
        e0, e1 = w.epoch(case["y0"]), w.epoch(case["y1"])
        stars = case["stars"]
        vin, vout, outs = [], [], []
        for ra, dec in stars:
            a, d = w.angle(ra), w.angle(dec)
            x, y = call(fn, site, e0, e1, a, d)
            vin.append(rot.vec(ra, dec))
            vout.append(rot.vec(x, y))
            outs.append((x, y))
        worst = 0.0
        for i in range(len(stars)):
            for j in range(i + 1, len(stars)):
                s0 = rot.sep(vin[i], vin[j])
                s1 = rot.sep(vout[i], vout[j])
                diff = abs(s1 - s0)
                if too_far(diff, TOL_RIGID):
                    raise Violation("%s %r -> %r: separation of %r and %r was %r deg, is %r deg after "
                                    "precessing to %r and %r (changed by %.3e)"
                                    % (site, case["y0"], case["y1"], stars[i], stars[j], s0, s1,
                                       outs[i], outs[j], diff), site=site, kind="separation",
                                    off=diff)
                worst = max(worst, diff)
        labels = []
        if len(stars) == 3:
            t0 = rot.triple(*vin)
            if abs(t0) > 1e-3:
                t1 = rot.triple(*vout)
                labels.append("orientation_checked")
                if (t1 > 0) != (t0 > 0):
                    raise Violation("%s %r -> %r mirrors the sky: triple product of %r went from %r to %r"
                                    % (site, case["y0"], case["y1"], stars, t0, t1), site=site,
                                    kind="orientation")
        w.check(site)
        nt = epoch_labels(case, labels)
        for (ra, dec), (x, y) in zip(stars, outs):
            nt = dir_labels(dec, y, labels) or nt
        labels = sorted(set(labels))
        smin = min(rot.sep(vin[i], vin[j]) for i in range(len(stars)) for j in range(i + 1, len(stars)))
        if smin < 1e-3:
            labels.append("pair_closer_than_1e-3")
        if max(rot.sep(vin[i], vin[j]) for i in range(len(stars)) for j in range(i + 1, len(stars))) > 179.0:
            labels.append("pair_nearly_antipodal")
        return {"labels": labels, "nontrivial": nt, "show": {"out": outs, "worst_change_deg": worst}}
    return body


def mean_obliquity_deg(e, site):
    eps = C.mean_obliquity(e)
    if not isinstance(eps, Angle):
        raise Violation("mean_obliquity returned %r" % (eps,), site="Coordinates.mean_obliquity", kind="type")
    v = eps()
    # the receiver owns the Angle it was given and may re-use it (documented set()); whoever asks
    # for the obliquity of the same epoch later must still get the right value
    eps.set(0.0 if v != 0.0 else 1.0)
    return v


def body_route_lib(case):
    """The route clause with the library's own coordinate conversions on the ecliptical leg
    (equatorial2ecliptical / ecliptical2equatorial at the mean obliquity of each epoch), started
    from equatorial or from ecliptical coordinates."""
    w = Watch()
    site = SITE["eq"]
    e0, e1 = w.epoch(case["y0"]), w.epoch(case["y1"])
    eps0 = mean_obliquity_deg(e0, site)
    eps1 = mean_obliquity_deg(e1, site)
    if case["start"] == "ecl":
        lon0, lat0 = case["lon"], case["lat"]
        a, d = C.ecliptical2equatorial(Angle(lon0), Angle(lat0), Angle(eps0))
        ra0, dec0 = a(), d()
        want0 = rot.ecl2equ(rot.vec(lon0, lat0), eps0)
        if too_far(rot.sep(rot.vec(ra0, dec0), want0), TOL_ROUTE):
            raise Violation("ecliptical2equatorial(%r, %r, obliquity %r) = (%r, %r), %.3e deg from the "
                            "rotated direction" % (lon0, lat0, eps0, ra0, dec0,
                                                   rot.sep(rot.vec(ra0, dec0), want0)),
                            site="Coordinates.ecliptical2equatorial", kind="route_conversion")
        lo, la = Angle(lon0), Angle(lat0)
    else:
        ra0, dec0 = case["lon"], case["lat"]
        lo, la = C.equatorial2ecliptical(Angle(ra0), Angle(dec0), Angle(eps0))
    x, y = call(FUNCS["eq"], site, e0, e1, w.angle(ra0), w.angle(dec0))
    l1, b1 = call(FUNCS["ecl"], SITE["ecl"], e0, e1, w.angle(lo()), w.angle(la()))
    a1, d1 = C.ecliptical2equatorial(Angle(l1), Angle(b1), Angle(eps1))
    dist = rot.sep(rot.vec(x, y), rot.vec(a1(), d1()))
    if too_far(dist, TOL_ROUTE):
        raise Violation("precession %r -> %r of the %s direction (%r, %r): equatorial route gives (%r, %r), "
                        "the route through the library's ecliptical coordinates (%r, %r) gives (%r, %r): "
                        "%.3e deg apart" % (case["y0"], case["y1"],
                                            "ecliptical" if case["start"] == "ecl" else "equatorial",
                                            case["lon"], case["lat"], x, y, lo(), la(), a1(), d1(), dist),
                        site="Coordinates.precession_equatorial/precession_ecliptical",
                        kind="route_library_conversions", off=dist)
    w.check(site)
    labels = ["route_from_" + case["start"]]
    nt = epoch_labels(case, labels)
    nt = dir_labels(dec0, y, labels) or nt
    if abs(la()) > 85.0:
        labels.append("ecliptic_cap")
    if abs(la()) == 90.0:
        labels.append("ecliptic_pole_exact")
    return {"labels": labels, "nontrivial": True, "show": {"equatorial": [x, y], "apart_deg": dist}}


def body_route(case):
    w = Watch()
    site = SITE["eq"]
    e0, e1 = w.epoch(case["y0"]), w.epoch(case["y1"])
    a, d = w.angle(case["ra"]), w.angle(case["dec"])
    x, y = call(FUNCS["eq"], site, e0, e1, a, d)
    eps0 = mean_obliquity_deg(e0, site)
    eps1 = mean_obliquity_deg(e1, site)
    lon, lat = rot.lonlat(rot.equ2ecl(rot.vec(case["ra"], case["dec"]), eps0))
    lo, la = w.angle(lon), w.angle(lat)
    l1, b1 = call(FUNCS["ecl"], SITE["ecl"], e0, e1, lo, la)
    via = rot.ecl2equ(rot.vec(l1, b1), eps1)
    dist = rot.sep(rot.vec(x, y), via)
    if too_far(dist, TOL_ROUTE):
        xr, yr = rot.lonlat(via)
        raise Violation("precession %r -> %r of (%r, %r): equatorial route gives (%r, %r), the route "
                        "through the ecliptic (obliquities %r, %r) gives (%r, %r): %.3e deg apart"
                        % (case["y0"], case["y1"], case["ra"], case["dec"], x, y, eps0, eps1, xr, yr, dist),
                        site="Coordinates.precession_equatorial/precession_ecliptical",
                        kind="route", off=dist)
    w.check(site)
    labels = []
    nt = epoch_labels(case, labels)
    nt = dir_labels(case["dec"], y, labels) or nt
    if abs(lat) > 85.0:
        labels.append("ecliptic_cap")
    if abs(case["y1"] - case["y0"]) > 100.0:
        labels.append("interval_over_1_century")
    return {"labels": labels, "nontrivial": nt, "show": {"equatorial": [x, y], "apart_deg": dist}}


def body_newcomb(case):
    w = Watch()
    site = SITE["newcomb"]
    e0, e1 = w.epoch(case["y0"]), w.epoch(case["y1"])
    a, d = w.angle(case["ra"]), w.angle(case["dec"])
    xn, yn = call(FUNCS["newcomb"], site, e0, e1, a, d)
    xf, yf = call(FUNCS["eq"], SITE["eq"], e0, e1, a, d)
    dist = rot.sep(rot.vec(xn, yn), rot.vec(xf, yf))
    if too_far(dist, TOL_NEWCOMB):
        raise Violation("precession %r -> %r of (%r, %r): Newcomb (FK4) gives (%r, %r), FK5 gives "
                        "(%r, %r): %.3e deg apart" % (case["y0"], case["y1"], case["ra"], case["dec"],
                                                      xn, yn, xf, yf, dist),
                        site=site, kind="newcomb_vs_fk5", off=dist)
    w.check(site)
    labels = []
    nt = epoch_labels(case, labels)
    nt = dir_labels(case["dec"], yn, labels) or nt
    return {"labels": labels, "nontrivial": nt, "show": {"newcomb": [xn, yn], "fk5": [xf, yf],
                                                       "apart_deg": dist}}


def make_pm(which):
    fn, site = FUNCS[which], SITE[which]
    yd = YEAR_DAYS[which]

    def body(case):
        w = Watch()
        e0, e1 = w.epoch(case["y0"]), w.epoch(case["y1"])
        a, d = w.angle(case["ra"]), w.angle(case["dec"])
        pma, pmd = case["pm_ra"], case["pm_dec"]
        form = case["form"]
        if form == "float":
            args = (pma, pmd)
        elif form == "angle":
            args = (w.angle(pma), w.angle(pmd))
        elif form == "only_first":
            # the second component is left to its documented default (no motion in it)
            args = (w.angle(pma),)
            pmd = 0.0
        elif form == "only_second":
            args = ()
            pma = 0.0
        else:
            args = (w.angle(pma), pmd)
        kw = {}
        if form == "only_second":
            kw = {("p_motion_lat" if which == "ecl" else "p_motion_dec"): w.angle(pmd)}
        x, y = call(fn, site, e0, e1, a, d, *args, **kw)
        T = (jde_of(case["y1"]) - jde_of(case["y0"])) / yd
        ra2 = case["ra"] + pma * T
        dec2 = case["dec"] + pmd * T
        x0, y0 = call(fn, site, e0, e1, Angle(ra2), Angle(dec2))
        dist = rot.sep(rot.vec(x, y), rot.vec(x0, y0))
        if too_far(dist, TOL_PM):
            xz, yz = call(fn, site, e0, e1, a, d)
            raise Violation("%s %r -> %r (%.6f yr) of (%r, %r) with proper motion (%r, %r) deg/yr [%s] gives "
                            "(%r, %r); the start displaced by pm*T, (%r, %r), precesses to (%r, %r): "
                            "%.3e deg apart (without proper motion: (%r, %r))"
                            % (site, case["y0"], case["y1"], T, case["ra"], case["dec"], pma, pmd, form,
                               x, y, ra2, dec2, x0, y0, dist, xz, yz), site=site,
                            kind="proper_motion", off=dist)
        w.check(site)
        labels = ["pm_as_" + form]
        nt = epoch_labels(case, labels)
        nt = dir_labels(case["dec"], y, labels) or nt
        if pma != 0.0 or pmd != 0.0:
            labels.append("nonzero_proper_motion")
            nt = True
        if math.hypot(pma, pmd) * abs(T) > 0.1:
            labels.append("displacement_over_0.1deg")
        return {"labels": labels, "nontrivial": nt, "show": {"out": [x, y], "T_years": T}}
    return body


def body_pm_space(case):
    w = Watch()
    site = "Coordinates.motion_in_space"
    a, d = w.angle(case["ra"]), w.angle(case["dec"])
    pma, pmd, T = case["pm_ra"], case["pm_dec"], case["T"]
    if case["form"] == "float":
        args = (pma, pmd)
    else:
        args = (w.angle(pma), w.angle(pmd))
    out = C.motion_in_space(a, d, case["dist"], 0.0, args[0], args[1], T)
    if not (isinstance(out, tuple) and len(out) == 2 and isinstance(out[0], Angle)
            and isinstance(out[1], Angle)):
        raise Violation("%s returned %r" % (site, out), site=site, kind="type")
    x, y = out[0](), out[1]()
    mu = math.hypot(math.radians(pma) * math.cos(math.radians(case["dec"])), math.radians(pmd))
    bound = (mu * T) ** 2 * (1.0 + abs(math.tan(math.radians(case["dec"])))) + 1e-12
    dist = math.radians(rot.sep(rot.vec(x, y), rot.vec(case["ra"] + pma * T, case["dec"] + pmd * T)))
    if too_far(dist, bound):
        raise Violation("%s((%r, %r), %r pc, 0 km/s, pm (%r, %r) deg/yr, %r yr) = (%r, %r): %.3e rad from the "
                        "linear displacement (ra + pm_ra T, dec + pm_dec T); second-order bound %.3e rad"
                        % (site, case["ra"], case["dec"], case["dist"], pma, pmd, T, x, y, dist, bound),
                        site=site, kind="proper_motion_linear", off=dist, bound=bound)
    w.check(site)
    labels = ["pm_as_" + case["form"], "nonzero_proper_motion"]
    if T < 0:
        labels.append("backward_interval")
    return {"labels": labels, "nontrivial": True, "show": {"out": [x, y]}}


def body_pm_convert(case):
    w = Watch()
    site = "Coordinates.p_motion_equa2eclip"
    ra, dec, eps = case["ra"], case["dec"], case["eps"]
    pma, pmd = case["pm_ra"], case["pm_dec"]
    lon, lat = rot.lonlat(rot.equ2ecl(rot.vec(ra, dec), eps))
    out = C.p_motion_equa2eclip(w.angle(pma), w.angle(pmd), w.angle(ra), w.angle(dec),
                                w.angle(lat), w.angle(eps))
    if not (isinstance(out, tuple) and len(out) == 2):
        raise Violation("%s returned %r" % (site, out), site=site, kind="type")
    vals = []
    for v in out:
        if isinstance(v, Angle):
            vals.append(v())
        elif isinstance(v, float):
            vals.append(math.degrees(v))
        else:
            raise Violation("%s returned %r" % (site, out), site=site, kind="type")
    pl, pb = vals
    h = 0.01
    moved = rot.equ2ecl(rot.vec(ra + pma * h, dec + pmd * h), eps)
    pred = rot.vec(lon + pl * h, lat + pb * h)
    size = rot.sep(rot.vec(ra, dec), rot.vec(ra + pma * h, dec + pmd * h))
    dist = rot.sep(moved, pred)
    if too_far(dist, 1e-4 * size + 1e-13):
        raise Violation("%s(pm (%r, %r) deg/yr at (%r, %r), lat %r, obliquity %r) = (%r, %r) deg/yr: after "
                        "%r yr the ecliptical prediction is %.3e deg from the rotated equatorial one "
                        "(displacement %.3e deg)" % (site, pma, pmd, ra, dec, lat, eps, pl, pb, h, dist, size),
                        site=site, kind="proper_motion_conversion", off=dist, size=size)
    w.check(site)
    return {"labels": ["nonzero_proper_motion", "pm_converted_to_ecliptic"], "nontrivial": True,
            "show": {"pm_lon_lat_deg_per_yr": [pl, pb]}}


# ------------------------------------------------------------------ orbital elements

def body_orbital(case):
    w = Watch()
    site = "Coordinates.orbital_equinox2equinox"
    e0, e1 = w.epoch(case["y0"]), w.epoch(case["y1"])
    i0, w0, o0 = case["i"], case["arg"], case["node"]
    ai, aw, ao = w.angle(i0), w.angle(w0), w.angle(o0)
    out = C.orbital_equinox2equinox(e0, e1, ai, aw, ao)
    if not (isinstance(out, tuple) and len(out) == 3 and all(isinstance(v, Angle) for v in out)):
        raise Violation("%s returned %r" % (site, out), site=site, kind="type")
    i1, w1, o1 = out
    m1 = (i1(), w1(), o1())
    k1 = [w.angle(v) for v in m1]
    back = C.orbital_equinox2equinox(e1, e0, k1[0], k1[1], k1[2])
    i2, w2, o2 = back[0](), back[1](), back[2]()
    p0, n0 = rot.orbit_frame(i0, w0, o0)
    p2, n2 = rot.orbit_frame(i2, w2, o2)
    si = abs(math.sin(math.radians(i0)))
    errs = {"inclination": abs(i2 - i0), "orbit_pole": rot.sep(n0, n2),
            "node_x_sin_i": abs(rot.wrap180(o2 - o0)) * si,
            "argument_x_sin_i": abs(rot.wrap180(w2 - w0)) * si}
    labels = []
    if i0 == 0.0 and jde_of(case["y0"]) == jde_of(case["y1"]):
        # i0 = 0 and eta = 0: neither the orbit nor a rotation defines a node
        labels.append("node_undefined_zero_interval")
    else:
        errs["perihelion_direction"] = rot.sep(p0, p2)
    for what, e in sorted(errs.items()):
        if too_far(e, TOL_ORB):
            raise Violation("%s %r -> %r -> %r: (i, arg, node) = (%r, %r, %r) -> (%r, %r, %r) -> (%r, %r, %r): "
                            "%s off by %.3e deg" % (site, case["y0"], case["y1"], case["y0"], i0, w0, o0,
                                                    m1[0], m1[1], m1[2], i2, w2, o2, what, e),
                            site=site, kind="roundtrip:" + what, off=e)
    w.check(site)
    nt = epoch_labels(case, labels)
    if i0 < 1.0:
        labels.append("i<1")
        nt = True
    if i0 > 90.0:
        labels.append("i>90_retrograde")
        nt = True
    if i0 > 179.0:
        labels.append("i>179")
    if i0 in (0.0, 90.0, 180.0):
        labels.append("i_exactly_%d" % int(i0))
    if m1[0] < 1.0 or m1[0] > 179.0:
        labels.append("intermediate_i_within_1deg_of_0_or_180")
    return {"labels": labels, "nontrivial": nt,
            "show": {"there": list(m1), "back": [i2, w2, o2]}}


CLAUSES = {
    "identity_eq": make_identity("eq"), "identity_ecl": make_identity("ecl"),
    "roundtrip_eq": make_roundtrip("eq"), "roundtrip_ecl": make_roundtrip("ecl"),
    "rigid_eq": make_rigid("eq"), "rigid_ecl": make_rigid("ecl"),
    "route": body_route, "route_lib": body_route_lib, "newcomb": body_newcomb,
    "pm_eq": make_pm("eq"), "pm_ecl": make_pm("ecl"), "pm_newcomb": make_pm("newcomb"),
    "pm_space": body_pm_space, "pm_convert": body_pm_convert,
    "orbital": body_orbital,
}


# ------------------------------------------------------------------ strategies

def caps():
    """(lon, lat) inside the polar caps: 90 - 10^u, u in [-9, 0.7], and the pole itself."""
    off = st.one_of(st.floats(-9.0, 0.7).map(lambda u: 10.0 ** u),
                    st.sampled_from([0.0, 1e-12, 1e-9, 1e-8, 1e-7, 1e-6, 1e-5, 1e-4, 1e-3, 4.999, 5.0]))
    return st.tuples(st.floats(0, 360, exclude_max=True), off, st.sampled_from([1, -1])).map(
        lambda t: (t[0], t[2] * (90.0 - t[1])))


def branch85():
    d = st.sampled_from([0.0, 1e-12, -1e-12, 1e-9, -1e-9, 1e-6, -1e-6, 1e-3, -1e-3, 0.1, -0.1])
    return st.tuples(st.floats(0, 360, exclude_max=True), d, st.sampled_from([1, -1])).map(
        lambda t: (t[0], t[2] * (85.0 + t[1])))


def directions():
    return st.one_of(S.sphere_points(), S.sphere_points(), caps(), caps(), branch85())


def start_years(span):
    lo, hi = 2000.0 - span, 2000.0 + span
    return st.one_of(st.just(2000.0), st.floats(lo, hi), st.floats(lo, hi),
                     st.floats(0, min(50.0, span)).flatmap(
                         lambda d: st.sampled_from([lo + d, hi - d])),
                     st.sampled_from([1900.0, 1950.0, 2050.0, 2100.0, 1999.9999, 2000.0001]))


def year_pairs(spans, lo=None, hi=None):
    """(y0, y1): y1 uniform in the span, equal to y0, y0 +- tiny, or J2000."""
    def pairs(span):
        a, b = (2000.0 - span, 2000.0 + span) if lo is None else (lo, hi)

        def clamp(y):
            return min(b, max(a, y))
        y0s = start_years(span) if lo is None else st.one_of(
            st.floats(a, b), st.sampled_from([a, b, 1900.0, 1950.0, 2000.0, 2050.0]))

        def ends(y0):
            return st.one_of(
                st.floats(a, b), st.floats(a, b), st.floats(a, b),
                st.just(y0),
                st.tuples(st.floats(-6.0, 1.0), st.sampled_from([1, -1])).map(
                    lambda t: clamp(y0 + t[1] * 10.0 ** t[0])),
                st.just(2000.0),
                st.sampled_from([a, b]),
            ).map(lambda y1: (y0, y1))
        return y0s.flatmap(ends)
    return st.sampled_from(spans).flatmap(pairs)


WIDE = [500.0, 1000.0, 2000.0, 4000.0]
NARROW = [500.0]


def ecliptic_caps():
    """Equatorial (ra, dec) of directions inside the ecliptic polar caps (the ecliptical
    leg of the route clause then starts within 5 deg of an ecliptic pole)."""
    return caps().map(lambda p: rot.lonlat(rot.ecl2equ(rot.vec(p[0], p[1]), 23.44)))


def route_cases():
    return st.builds(lambda p, yy: {"ra": p[0], "dec": p[1], "y0": yy[0], "y1": yy[1]},
                     st.one_of(directions(), ecliptic_caps()),
                     year_pairs(NARROW))


def route_lib_cases():
    return st.builds(lambda p, start, yy: {"lon": p[0], "lat": p[1], "start": start, "y0": yy[0], "y1": yy[1]},
                     st.one_of(directions(), caps()), st.sampled_from(["equ", "ecl"]),
                     year_pairs(NARROW))


def identity_cases():
    return st.builds(lambda p, y: {"ra": p[0], "dec": p[1], "y0": y},
                     directions(), st.sampled_from(WIDE).flatmap(start_years))


def roundtrip_cases(spans):
    return st.builds(lambda p, yy: {"ra": p[0], "dec": p[1], "y0": yy[0], "y1": yy[1]},
                     directions(), year_pairs(spans))


def partner(p):
    """A second star: independent, or at a constructed distance/bearing from p."""
    dist = st.one_of(st.floats(math.log(1e-7), math.log(180.0)).map(math.exp),
                     st.sampled_from([180.0, 180.0 - 1e-6, 90.0, 1e-9]))
    built = st.tuples(dist, st.floats(0, 360)).map(
        lambda t: S.offset_point(p[0], p[1], min(t[0], 180.0), t[1]))
    return st.one_of(directions(), built)


def rigid_cases():
    def build(p, q, r, yy, n):
        stars = [list(p), list(q), list(r)][:n]
        return {"stars": stars, "y0": yy[0], "y1": yy[1]}
    return directions().flatmap(
        lambda p: st.builds(build, st.just(p), partner(p), partner(p), year_pairs(WIDE),
                            st.sampled_from([2, 2, 3])))


def newcomb_cases():
    return st.builds(lambda p, yy: {"ra": p[0], "dec": p[1], "y0": yy[0], "y1": yy[1]},
                     directions(), year_pairs([150.0], 1800.0, 2100.0))


def pm_values():
    return st.one_of(st.floats(-PM_MAX, PM_MAX), st.floats(-PM_MAX, PM_MAX),
                     st.sampled_from([0.0, PM_MAX, -PM_MAX, 1.0 / 3600.0, -1e-6]))


def pm_cases(which):
    yd = YEAR_DAYS[which]
    yp = year_pairs([150.0], 1800.0, 2100.0) if which == "newcomb" else year_pairs([500.0, 1000.0])

    def build(p, yy, pma, pmd, form):
        T = (jde_of(yy[1]) - jde_of(yy[0])) / yd
        if abs(p[1] + pmd * T) > 90.0:
            pmd = -pmd
        return {"ra": p[0], "dec": p[1], "y0": yy[0], "y1": yy[1], "pm_ra": pma, "pm_dec": pmd,
                "form": form}
    return st.builds(build, directions(), yp, pm_values(), pm_values(),
                     st.sampled_from(["float", "angle", "mixed", "only_first", "only_second"]))


def pm_space_cases():
    def build(ra, dec, pma, pmd, T, sgn, dist, form):
        T = sgn * 10.0 ** T
        if abs(dec + pmd * T) > 85.0:
            pmd = -pmd
        return {"ra": ra, "dec": dec, "pm_ra": pma, "pm_dec": pmd, "T": T, "dist": dist, "form": form}
    return st.builds(build, st.floats(0, 360, exclude_max=True), st.floats(-80, 80), pm_values(),
                     pm_values(), st.floats(-2.0, 3.0), st.sampled_from([1, -1]),
                     st.floats(1.0, 1000.0), st.sampled_from(["float", "angle"]))


def pm_convert_cases():
    def ok(c):
        lon, lat = rot.lonlat(rot.equ2ecl(rot.vec(c["ra"], c["dec"]), c["eps"]))
        return abs(lat) <= 80.0 and (c["pm_ra"] != 0.0 or c["pm_dec"] != 0.0)
    return st.builds(lambda ra, dec, pma, pmd, eps: {"ra": ra, "dec": dec, "pm_ra": pma, "pm_dec": pmd,
                                                     "eps": eps},
                     st.floats(0, 360, exclude_max=True), st.floats(-60, 60), pm_values(), pm_values(),
                     st.floats(20.0, 26.0)).filter(ok)


def inclinations():
    return st.one_of(st.floats(0, 180), st.floats(0, 180),
                     st.floats(-9.0, 0.3).map(lambda u: 10.0 ** u),
                     st.floats(-9.0, 0.3).map(lambda u: 180.0 - 10.0 ** u),
                     st.sampled_from([0.0, 90.0, 180.0, 1.0, 0.9999999, 1.0000001, 89.999999,
                                      90.000001, 179.0])).map(lambda x: 0.0 if x < 1e-12 else x)


def orbital_cases():
    ang = st.one_of(st.floats(0, 360, exclude_max=True),
                    st.sampled_from([0.0, 90.0, 180.0, 270.0, 359.999999999]))
    return st.builds(lambda i, w, o, yy: {"i": i, "arg": w, "node": o, "y0": yy[0], "y1": yy[1]},
                     inclinations(), ang, ang, year_pairs(NARROW))


STRATS = {
    "identity_eq": identity_cases, "identity_ecl": identity_cases,
    "roundtrip_eq": lambda: roundtrip_cases(WIDE), "roundtrip_ecl": lambda: roundtrip_cases(NARROW),
    "rigid_eq": rigid_cases, "rigid_ecl": rigid_cases,
    "route": route_cases, "route_lib": route_lib_cases, "newcomb": newcomb_cases,
    "pm_eq": lambda: pm_cases("eq"), "pm_ecl": lambda: pm_cases("ecl"),
    "pm_newcomb": lambda: pm_cases("newcomb"),
    "pm_space": pm_space_cases, "pm_convert": pm_convert_cases,
    "orbital": orbital_cases,
}

# clause -> (shards in the quick tier, cases per shard)
PLAN = {
    "identity_eq": (1, 2500), "identity_ecl": (1, 2500),
    "roundtrip_eq": (3, 2500), "roundtrip_ecl": (2, 2500),
    "rigid_eq": (4, 1000), "rigid_ecl": (4, 1000),
    "route": (3, 2500), "route_lib": (2, 2500), "newcomb": (2, 2500),
    "pm_eq": (2, 2000), "pm_ecl": (1, 2000), "pm_newcomb": (1, 2000),
    "pm_space": (1, 1500), "pm_convert": (1, 1500),
    "orbital": (3, 2500),
}


def tasks(tier, seed):
    out = []
    for clause, (shards, n) in PLAN.items():
        if tier == "quick":
            for sh in range(shards):
                out.append(Task("t_given", clause=clause, shard=sh, n=n))
        else:
            for sh in range(shards * 4):
                out.append(Task("t_given", clause=clause, shard=sh, n=n * 4))
    return out


def t_given(rec, clause, shard, n):
    rec.given(clause, STRATS[clause](), n, shard=shard)
