"""C04 - sexagesimal / right-ascension decomposition and printing are canonical.

Oracle: exact rational arithmetic.  The Angle's float value is a rational; its exact
degree / minute / second fields, the exact effect of rounding at the n-th decimal of a
second and the exact value read back from a printed string are all computed with
fractions.Fraction.  Strings are parsed by a strict grammar written from the docstrings
of Angle.dms_str / Angle.ra_str ("Dd M' S''", "Hh M' S''", "D:M:S"; leading zero fields
of the fancy form may be omitted, as the library's own doctests show: "-5' 24.0''").
"""
import math
import re
from fractions import Fraction as F

from hypothesis import strategies as st

from pymeeus.Angle import Angle

from ..core import Violation, Task
from .. import strategies as S

PROPERTY = "C04"
LEVEL = "exploration"
MANIFEST = {
    "level_text": "Randomised search (Hypothesis; values built as +-(D + M/60 + S/3600 + eps) in degrees and in hours with eps straddling every rounding boundary, plus uniform, tiny and near-360 values; every generated value is printed in all 56 combinations of n_dec -1..12 x fancy/colon x angle/RA, ~1.5M strings quick) against an exact-rational model of the decomposition, the rounding and a strict parser. Finds violations; does not prove absence.",
    "level_note": "Trusts fractions.Fraction and the regular-expression grammar written from the docstrings. Differences below 2e-10 of the printed seconds unit (2 x the library's documented tolerance base.TOL) are not asserted.",
    "technique": "property-based testing (Hypothesis) with exact-rational reference model and strict string grammar",
}
RULE = ("Hypothesis-generated Angle values in (-360, 360), two clauses. Values: uniform; "
        "+-(D + M/60 + S/3600 + eps) with integer D in 0..359, M, S in 0..59 (0 and 59 "
        "over-weighted) and eps in {0, +-1e-12, +-1e-10, +-1e-8, +-1e-6 deg, +-(0.5 +- "
        "{0, 1e-3, 1e-6}) * 10^-n arcsec for n = 0..12, +-1e-13..1e-3 arcsec log-uniform}; "
        "the same in hours (x15) for right ascension; +-(log-uniform 1e-20..1); +-(360 - "
        "log-uniform 1e-13..1e-3); specials (+-0.0, denormals, +-359.99999999999994, "
        "whole degrees and hours). tuple: dms_tuple, ra_tuple, deg2dms and both "
        "recombinations (exact and through Angle(d, m, s, sign) / dms2deg). string: each "
        "value is printed with dms_str and ra_str, fancy and colon style, n_dec = -1..12 "
        "(56 strings per value, each counted as one evaluation). A (value, variant, n_dec, "
        "style) is non-trivial when the exact seconds round up to 60 at n_dec (the carry "
        "path runs; further labelled when the minutes carry and when the degrees wrap), or "
        "the exact seconds round down to x.0 from within 10^-n of a field boundary, or lie "
        "within 1e-3 units of the last decimal of a rounding tie, or the value is negative with a zero degree field, or within 1 arcsec (1 s) of 0 or "
        "360 (24 h), or rounds to zero; distinct = distinct (value, variant, n_dec, style).")
ASSUMPTIONS = [
    "the Angle is built from the generated float with a comparison tolerance (set_tolerance) taken from {default, 0, 1e-14, 1e-6, 1e-3}, also carried through the copy constructor: the tolerance is not part of the value, so decomposition and printing must not depend on it",
    "tuple pieces: degrees/hours and minutes must be integer-valued numbers, seconds a "
    "float in [0, 60), sign +1 or -1 (== comparison); recombination tolerance 1e-9 deg as "
    "stated; the recombination through the library (Angle(d, m, s, sign), Angle.dms2deg) "
    "is compared modulo 360",
    "strings, n_dec >= 0: the seconds field must be a multiple of 10^-n_dec and the value "
    "read back must lie within 0.5 * 10^-n_dec + 2e-10 of the exact value, in units of the "
    "seconds field (arcsec, or seconds of time for RA), modulo 360 deg / 24 h; half-way "
    "cases are accepted either way. 2e-10 is twice base.TOL, the library's documented "
    "resolution; double precision cannot carry more for values above a few degrees",
    "strings, n_dec = -1 (rounding disabled): read back within 1e-9 deg of the value",
    "a printed '360d' or '24h' is accepted since the text says modulo 360 deg (24 h); "
    "ra_str does print \"24h 0' 0.0''\" when the seconds of 23h 59' 59.99..'' round up",
    "sign rule: no minus sign when the printed fields are all zero or the value is positive; "
    "exactly one, on the first non-zero field, when the value is negative and a field is "
    "non-zero. A seconds field in exponent notation (Python repr below 1e-4) is accepted",
    "sensitivity (mutants/C04.json, quick tier, seed 1): 17 of 19 mutants reported as "
    "VIOLATION (both carries removed, carry tested before rounding or with s > 60, sign on "
    "every field / dropped / on the zero field, 'h' not substituted, truncation, one decimal "
    "too many, minutes rounded, ra_tuple not divided, ...); missed by construction: the 360 "
    "wrap removed (a printed 360d is the value modulo 360, which the text allows) and "
    "sign(0) = -1 in deg2dms (still +-1, recombines to 0)",
]

TOL_DEG = F(1, 10 ** 9)
SLACK = F(2, 10 ** 10)          # in units of the seconds field
N_DECS = list(range(-1, 13))

FLOAT = r"-?\d+(?:\.\d+)?(?:e[-+]?\d+)?"
RE_FANCY = {
    False: re.compile(r"^(?:(?:(-?\d+)d )?(-?\d+)' )?(" + FLOAT + r")''$"),
    True: re.compile(r"^(?:(?:(-?\d+)h )?(-?\d+)' )?(" + FLOAT + r")''$"),
}
RE_COLON = re.compile(r"^(-?\d+):(-?\d+):(" + FLOAT + r")$")


def centered_mod(x, m):
    d = x % m
    if d > F(m) / 2:
        d -= m
    return d


def exact_fields(v):
    """Exact (whole units, minutes, seconds) of |v| (Fraction)."""
    a = abs(v)
    d = a.numerator // a.denominator
    r = (a - d) * 60
    m = r.numerator // r.denominator
    s = (r - m) * 60
    return d, m, s


# ------------------------------------------------------------------- tuple clause

def check_tuple(tup, v, unit_max, factor, what, site):
    """tup from the library; v exact value in degrees; the tuple is in units of
    degrees/factor (factor 15 for hours)."""
    if not (isinstance(tup, tuple) and len(tup) == 4):
        raise Violation("%s = %r is not a 4-tuple" % (what, tup), site=site, kind="tuple_shape")
    d, m, s, sign = tup
    for name, x in (("degrees/hours", d), ("minutes", m)):
        if isinstance(x, bool) or not isinstance(x, (int, float)) or x != x or x != int(x):
            raise Violation("%s = %r: %s is not an integer" % (what, tup, name),
                            site=site, kind="tuple_type")
    if not isinstance(s, float):
        raise Violation("%s = %r: seconds is %s, not float" % (what, tup, type(s).__name__),
                        site=site, kind="tuple_type")
    if not (0 <= d < unit_max):
        raise Violation("%s = %r: leading field outside [0, %d)" % (what, tup, unit_max),
                        site=site, kind="tuple_range")
    if not (0 <= m < 60):
        raise Violation("%s = %r: minutes outside [0, 60)" % (what, tup), site=site,
                        kind="tuple_range")
    if not (0.0 <= s < 60.0):
        raise Violation("%s = %r: seconds outside [0, 60)" % (what, tup), site=site,
                        kind="tuple_range")
    if not (sign == 1 or sign == -1) or isinstance(sign, bool):
        raise Violation("%s = %r: sign is not +-1" % (what, tup), site=site, kind="tuple_sign")
    rec = int(sign) * (F(d) + F(m) / 60 + F(s) / 3600) * factor
    if abs(rec - v) > TOL_DEG:
        raise Violation("%s = %r recombines to %r, value is %r (off by %.3e deg)"
                        % (what, tup, float(rec), float(v), float(rec - v)), site=site,
                        kind="tuple_recombine", off=float(rec - v))
    return d, m, s, sign


def body_tuple(case):
    x = case["x"]
    a = angle_of(x)
    val = a()
    v = F(val)
    labels = []
    t1 = check_tuple(a.dms_tuple(), v, 360, 1, "Angle(%r).dms_tuple()" % x, "Angle.dms_tuple")
    t2 = check_tuple(a.ra_tuple(), v, 24, 15, "Angle(%r).ra_tuple()" % x, "Angle.ra_tuple")
    check_tuple(Angle.deg2dms(val), v, 360, 1, "Angle.deg2dms(%r)" % val, "Angle.deg2dms")
    # recombination through the library
    d, m, s, sign = t1
    for how, got in (("Angle(d, m, s, sign)", Angle(d, m, s, sign)()),
                     ("Angle((d, m, s, sign))", Angle((d, m, s, sign))()),
                     ("Angle.dms2deg(sign*d, sign*m, sign*s)",
                      Angle.dms2deg(sign * d, sign * m, sign * s))):
        if abs(centered_mod(F(got) - v, 360)) > TOL_DEG:
            raise Violation("%s with %r gives %r, value is %r" % (how, t1, got, val),
                            site="Angle.dms2deg", kind="library_recombine", got=got)
    h, hm, hs, hsign = t2
    got = Angle(h, hm, hs, hsign, ra=True)()
    if abs(centered_mod(F(got) - v, 360)) > TOL_DEG:
        raise Violation("Angle(h, m, s, sign, ra=True) with %r gives %r, value is %r"
                        % (t2, got, val), site="Angle.set_ra", kind="library_recombine", got=got)
    if a() != val:
        raise Violation("the tuple methods changed the Angle", site="Angle.dms_tuple",
                        kind="mutated")
    nt = False
    e9 = F(1, 10 ** 9)
    for tag, (dd, mm, ss) in (("dms", exact_fields(v)), ("ra", exact_fields(v / 15))):
        if ss < e9 or ss > 60 - e9:
            if (ss < e9 and mm == 0) or (ss > 60 - e9 and mm == 59):
                labels.append(tag + ":within_1e-9s_of_whole_degree/hour")
            else:
                labels.append(tag + ":within_1e-9s_of_whole_minute")
            nt = True
        elif (ss % 1) < e9 or (ss % 1) > 1 - e9:
            labels.append(tag + ":within_1e-9s_of_whole_second")
            nt = True
    if val < 0:
        labels.append("negative")
        if val > -1:
            labels.append("negative_subdegree")
            nt = True
    if abs(v) < F(1, 3600) and v != 0:
        labels.append("within_1arcsec_of_0")
        nt = True
    if abs(v) > 360 - F(1, 3600):
        labels.append("within_1arcsec_of_360")
        nt = True
    if v == 0:
        labels.append("zero")
    return {"labels": labels or ["plain"], "nontrivial": nt,
            "show": {"dms_tuple": list(t1), "ra_tuple": list(t2)}}


# ------------------------------------------------------------------ string clause

def parse(text, fancy, ra, what, site):
    """Strict grammar -> (field strings as printed [D, M, S] with None for omitted)."""
    if not isinstance(text, str):
        raise Violation("%s returned %r, not a string" % (what, text), site=site, kind="type")
    mo = (RE_FANCY[ra] if fancy else RE_COLON).match(text)
    if not mo:
        raise Violation("%s = %r does not match the documented %s format"
                        % (what, text, ("Hh M' S''" if ra else "Dd M' S''") if fancy else "D:M:S"),
                        site=site, kind="grammar", text=text)
    return mo.groups()


def check_string(text, v, n_dec, fancy, ra, what, site):
    """v: exact value in the leading unit of the string (degrees, or hours for RA)."""
    Ds, Ms, Ss = parse(text, fancy, ra, what, site)
    fields = [f for f in (Ds, Ms, Ss) if f is not None]
    D = abs(int(Ds)) if Ds is not None else 0
    M = abs(int(Ms)) if Ms is not None else 0
    Sx = abs(F(Ss))
    if M >= 60 or Sx >= 60:
        raise Violation("%s = %r shows 60 (or more) in the %s field"
                        % (what, text, "minutes" if M >= 60 else "seconds"), site=site,
                        kind="sixty", text=text)
    negs = [f.startswith("-") for f in fields]
    nneg = sum(negs)
    mag = F(D) + F(M, 60) + Sx / 3600
    nonzero = [F(f) != 0 for f in fields]
    if nneg > 1:
        raise Violation("%s = %r carries the sign %d times" % (what, text, nneg), site=site,
                        kind="sign_repeated", text=text)
    if nneg == 1:
        lead = nonzero.index(True) if any(nonzero) else None
        if lead is None or not negs[lead]:
            raise Violation("%s = %r: the minus sign is not on the leading non-zero field"
                            % (what, text), site=site, kind="sign_position", text=text)
        if v >= 0:
            raise Violation("%s = %r is negative, the value %r is not" % (what, text, float(v)),
                            site=site, kind="sign_wrong", text=text)
    elif mag != 0 and v < 0:
        raise Violation("%s = %r shows no sign, the value %r is negative" % (what, text, float(v)),
                        site=site, kind="sign_missing", text=text)
    modulus = 24 if ra else 360
    parsed = -mag if nneg else mag
    diff = centered_mod(parsed - v, modulus)
    if n_dec >= 0:
        q = F(1, 10 ** n_dec)
        if (Sx / q).denominator != 1:
            raise Violation("%s = %r: seconds are not rounded to %d decimals" % (what, text, n_dec),
                            site=site, kind="not_rounded", text=text)
        bound = (q / 2 + SLACK) / 3600
    else:
        bound = TOL_DEG / (15 if ra else 1)
    if abs(diff) > bound:
        raise Violation("%s = %r reads back %.3e %s away from the value %r (allowed %.3e)"
                        % (what, text, float(diff) * 3600, "s" if ra else "arcsec", float(v),
                           float(bound) * 3600), site=site, kind="readback", text=text,
                        off_seconds=float(diff) * 3600)
    return mag


def string_labels(v, n_dec, mag, ra, labels):
    """Classify one (value, variant, n_dec); returns True when non-trivial."""
    pre = "ra:" if ra else "dms:"
    nt = False
    d0, m0, s0 = exact_fields(v)
    top = 23 if ra else 359
    if n_dec >= 0:
        q = F(1, 10 ** n_dec)
        if s0 >= 60 - q / 2:
            nt = True
            if m0 == 59:
                if d0 == top:
                    labels[pre + "carry_wraps_360/24"] = labels.get(pre + "carry_wraps_360/24", 0) + 1
                else:
                    labels[pre + "carry_minutes->degrees"] = labels.get(pre + "carry_minutes->degrees", 0) + 1
            else:
                labels[pre + "carry_seconds->minutes"] = labels.get(pre + "carry_seconds->minutes", 0) + 1
            if n_dec >= 3:
                labels["carry_at_n_dec>=3"] = labels.get("carry_at_n_dec>=3", 0) + 1
        elif s0 != 0 and s0 < q / 2 and (d0 or m0):
            nt = True
            labels[pre + "rounds_down_to_field_boundary"] = labels.get(pre + "rounds_down_to_field_boundary", 0) + 1
        elif s0 != 0 and abs(abs(s0 / q - round(s0 / q)) - F(1, 2)) < F(1, 1000):
            nt = True
            labels[pre + "within_1e-3_of_a_rounding_tie"] = labels.get(pre + "within_1e-3_of_a_rounding_tie", 0) + 1
        if mag == 0 and v != 0:
            nt = True
            labels[pre + "rounds_to_zero"] = labels.get(pre + "rounds_to_zero", 0) + 1
    if v < 0 and d0 == 0:
        nt = True
        k = pre + ("negative_subminute" if m0 == 0 else "negative_subdegree")
        labels[k] = labels.get(k, 0) + 1
    one = F(1, 3600)
    if v != 0 and abs(v) < one:
        nt = True
        labels[pre + "within_1s_of_0"] = labels.get(pre + "within_1s_of_0", 0) + 1
    if abs(v) > (24 if ra else 360) - one:
        nt = True
        labels[pre + "within_1s_of_360/24"] = labels.get(pre + "within_1s_of_360/24", 0) + 1
    return nt


TOLS = [None, None, 0.0, 1e-14, 1e-6, 1e-3]


def angle_of(x):
    """The Angle for the float x.  The comparison tolerance of an Angle (set_tolerance) is part
    of the object but not of its value: printing and splitting must not depend on it, so it
    is varied deterministically with x (default for a third of the cases; also through the
    copy constructor, which carries the tolerance over)."""
    j = int(abs(x) * 104729.0) % 7
    if j in (1, 2, 3):
        # the same direction entered as a right ascension in hours, a whole number of turns
        # away (24 h, -24 h, 48 h): "any Angle", however it was entered
        a = Angle(x / 15.0 + (24.0, -24.0, 48.0)[j - 1], ra=True)
    else:
        a = Angle(x)
    k = int(abs(x) * 7919.0) % len(TOLS)
    if TOLS[k] is not None:
        a.set_tolerance(TOLS[k])
        if k % 2:
            a = Angle(a)
    return a


def body_string(case):
    x = case["x"]
    a = angle_of(x)
    val = a()
    labels = {}
    n = 0
    nt = 0
    eg = None
    for ra in (False, True):
        v = F(val) / 15 if ra else F(val)
        site = "Angle.ra_str" if ra else "Angle.dms_str"
        for n_dec in N_DECS:
            is_nt = None
            for fancy in (True, False):
                if ra:
                    text = a.ra_str(fancy, n_dec)
                else:
                    text = a.dms_str(fancy, n_dec)
                what = "Angle(%r).%s(fancy=%r, n_dec=%d)" % (x, "ra_str" if ra else "dms_str",
                                                             fancy, n_dec)
                mag = check_string(text, v, n_dec, fancy, ra, what, site)
                n += 1
                if is_nt is None:
                    is_nt = string_labels(v, n_dec, mag, ra, labels)
                if is_nt:
                    nt += 1
                    if eg is None or (n_dec == 2 and fancy):
                        eg = "%s == %r" % (what, text)
    if a() != val:
        raise Violation("printing changed the Angle", site="Angle.dms_str", kind="mutated")
    labels["values"] = 1
    return {"n": n, "nt": nt, "labels": labels, "show": {"e.g.": eg}}


CLAUSES = {"tuple": body_tuple, "string": body_string}


# ----------------------------------------------------------------------- strategies

MAXV = 359.99999999999994


def clamp(v):
    if v != v:
        return 0.0
    return max(-MAXV, min(MAXV, v))


def _eps_arcsec():
    """Offsets in units of the seconds field that straddle the rounding boundaries."""
    half = st.builds(lambda n, k, sg: sg * (0.5 + k) * 10.0 ** (-n), st.integers(0, 12),
                     st.sampled_from([0.0, 0.0, 1e-3, -1e-3, 1e-6, -1e-6, 1e-9, -1e-9]),
                     st.sampled_from([1, -1]))
    small = st.builds(lambda m, sg: sg * m, S.log_uniform(1e-13, 1e-3), st.sampled_from([1, -1]))
    fixed = st.sampled_from([0.0, 0.0, 3.6e-9, -3.6e-9, 3.6e-7, -3.6e-7, 3.6e-5, -3.6e-5,
                             3.6e-3, -3.6e-3])          # +-1e-12 .. 1e-6 deg
    return st.one_of(half, half, small, fixed)


def _field(top):
    return st.one_of(st.integers(0, top), st.sampled_from([0, top, top, 0, 1, top - 1]))


def sexagesimal_values():
    def build(d, m, s, eps, sg, hours):
        unit = (d % 24 if hours else d) + m / 60.0 + (s + eps) / 3600.0
        return clamp(sg * unit * (15.0 if hours else 1.0))
    return st.builds(build, st.one_of(st.integers(0, 359), st.sampled_from([0, 0, 359, 23, 1])),
                     _field(59), _field(59), _eps_arcsec(), st.sampled_from([1, -1]),
                     st.booleans())


def seconds_values():
    """d + m/60 + S/3600 with a fractional S just below 60 or just above a whole second."""
    def build(d, m, k, c, sg, hours, whole):
        s = (60.0 if whole is None else float(whole)) - c * 10.0 ** (-k)
        unit = (d % 24 if hours else d) + m / 60.0 + s / 3600.0
        return clamp(sg * unit * (15.0 if hours else 1.0))
    return st.builds(build, st.one_of(st.integers(0, 359), st.sampled_from([0, 359, 23])),
                     _field(59), st.integers(0, 13),
                     st.sampled_from([0.5, 0.4999, 0.5001, 1.0, 0.1, 0.49, 0.51, 0.05, -0.4, -0.5]),
                     st.sampled_from([1, -1]), st.booleans(),
                     st.one_of(st.none(), st.none(), st.integers(1, 59)))


def edge_values():
    tiny = st.builds(lambda m, sg: sg * m, S.log_uniform(1e-20, 1.0), st.sampled_from([1, -1]))
    top = st.builds(lambda m, sg: clamp(sg * (360.0 - m)), S.log_uniform(1e-13, 1e-3),
                    st.sampled_from([1, -1]))
    specials = st.sampled_from([0.0, -0.0, 5e-324, -5e-324, 1e-300, -1e-300, MAXV, -MAXV,
                                359.9999999999999, -359.9999999999999, 1.0, -1.0, 15.0, -15.0,
                                1 / 60.0, -1 / 60.0, 1 / 3600.0, -1 / 3600.0, 0.25, 345.0,
                                359.0, -359.0, 180.0, 0.9999999999999999, -0.9999999999999999,
                                0.016666666666666666, 0.00027777777777777778, 14.999999999999998,
                                359.99986111111110, 359.9999999, -359.9999999, 359.99999999999])
    whole = st.builds(lambda k, u, d: clamp(k * u + d), st.integers(-359, 359),
                      st.sampled_from([1.0, 15.0, 1 / 60.0, 0.25]),
                      st.sampled_from([0.0, 0.0, 1e-12, -1e-12, 1e-10, -1e-10, 1e-13, -1e-13]))
    return st.one_of(tiny, top, specials, whole)


def values():
    return st.one_of(st.floats(-MAXV, MAXV), sexagesimal_values(), sexagesimal_values(),
                     sexagesimal_values(), seconds_values(), seconds_values(), edge_values())


def cases():
    return values().map(lambda x: {"x": x})


STRATS = {"tuple": cases, "string": cases}


def tasks(tier, seed):
    quick = tier == "quick"
    plan = {"tuple": (4, 6000), "string": (14, 2000)}
    out = []
    for clause, (shards, n) in plan.items():
        if quick:
            for sh in range(shards):
                out.append(Task("t_given", clause=clause, shard=sh, n=n))
        else:
            for sh in range(shards * 3):
                out.append(Task("t_given", clause=clause, shard=sh, n=n * 12))
    return out


def t_given(rec, clause, shard, n):
    rec.given(clause, STRATS[clause](), n, shard=shard)
