"""C12 - interpolation reproduces polynomials; roots and extrema lie where asked.

Oracle: the interpolating polynomial computed exactly over fractions.Fraction from the exact
rational values of the float table (vf/oracles/lagrange.py).  It decides what the value and
the derivative are, whether the interpolant changes sign on the requested interval, and
whether a returned abscissa is a root / an extremum.
"""
import math
from fractions import Fraction as F

from hypothesis import strategies as st

from pymeeus.Angle import Angle
from pymeeus.Interpolation import Interpolation
from pymeeus import Coordinates as C

from ..core import Violation, Task
from .. import strategies as S
from ..oracles import lagrange as L

PROPERTY = "C12"
LEVEL = "exploration"
MANIFEST = {
    "level_text": "Randomised search (Hypothesis, ~43k tables quick / 1.1M thorough: 2-9 nodes from grids of halves/thirds/units in any order, polynomial, multi-root and smooth data, all input forms, default/sub-interval/reversed/out-of-table limits) against an exact-rational reference interpolant. Finds violations; does not prove absence.",
    "level_note": "Trusts fractions.Fraction arithmetic and the reference Newton/Lagrange code (self-tested on every run against literal polynomials). Root/extremum demands are asserted only on tables whose conditioning keeps float evaluation noise below the object's tolerance.",
    "technique": "property-based testing (Hypothesis) with exact-rational reference interpolant (differential oracle)",
}
RULE = ("Hypothesis-generated tables: n in 2..9 pairwise distinct abscissae from a grid of halves, "
        "thirds, sixths or units in [-10, 10] (equally spaced runs, contiguous runs, random subsets "
        "of a window), supplied in a generated order; ordinates from (a) an integer polynomial of "
        "degree < n, (b) a product of linear factors with 1-4 roots inside the table, (c) a smooth "
        "sin/exp mixture. Clauses: value (pass-through, value and derivative at generated abscissae "
        "incl. nodes and table ends, over the input forms lists/tuples/flat/set/copy/y-only/"
        "Angle-valued y), refuse (out-of-table abscissa, duplicated abscissae), root and minmax "
        "(limits: default, sub-interval bracketing one chosen root, random sub-interval, reversed, "
        "partly outside the table), conj (planetary_conjunction, planet_star_conjunction, "
        "planet_stars_in_line with 3-7 entries), minsep (minimum_angular_separation). Non-trivial: "
        "limits other than the default, or more than one sign change in the table, or unordered "
        "input, or n >= 5 (value/root/minmax); always for refuse, conj, minsep. Distinct = distinct "
        "case dict."
        " In the copy form the source object is, for odd table lengths, re-loaded with another table after the copy was taken (and the copy re-loaded from its source for lengths divisible by four).")
ASSUMPTIONS = [
    "'relative 1e-9' for value and derivative is taken relative to max|y_i| * sum_i |l_i(x)| "
    "(resp. max|y_i| * sum_i |l_i'(x)|): the largest tabulated ordinate times the Lebesgue "
    "function of the table at x (>= 1, = 1 at nodes), i.e. the size of the change that a "
    "relative perturbation of the ordinates can cause; abscissae within the "
    "object's tolerance (1e-10) of a node but not equal to it are not used (there the object "
    "returns the tabulated ordinate by documented design)",
    "a root is demanded when the reference interpolant has strictly opposite signs, each beyond "
    "the object's tolerance, at the two ends of the requested interval after the documented "
    "clamping to the table; same-sign ends with an interior sign change are a documented refusal "
    "(ValueError 'Invalid interval'); whenever a value is returned it must lie in the interval "
    "and the reference interpolant must vanish there to tolerance + float evaluation noise, or "
    "the value must be within the object's tolerance of a node that is itself a root (the object "
    "identifies such abscissae with the node by documented design)",
    "root/minmax tables are scaled by a power of two so that max|y| is in [1, 64]; the "
    "object keeps its default tolerance 1e-10; evaluation noise is bounded by 1e-13 * Lambda with "
    "Lambda = max over a 65-point grid of sum |l_i(x)||y_i|; 'must return' is asserted only when "
    "Lambda <= 1e3 (noise <= 1e-10), accepted residual is tolerance + 1e-13 * Lambda",
    "limits equal within the tolerance raise ValueError by documentation; limits (0, 0) mean "
    "the whole table by documentation; an interval entirely outside the table is not asserted",
    "minmax: same rule applied to the exact derivative of the reference interpolant; noise bound "
    "uses the derivative's conditioning over the nodes",
    "Angle-valued ordinates are used only when every exact intermediate of the Newton/Horner "
    "scheme stays below 359 in absolute value (Angles reduce modulo 360 by design)",
    "conjunction helpers: differences stay within +-5 deg and right ascensions within 20..340 deg "
    "(no 0/360 wrap); n0 must zero the exact interpolant of the same differences to 1e-8; a "
    "table without a sign change at its ends may be refused with ValueError (documented)",
    "minimum_angular_separation: u, v recomputed from Meeus' formulas 18.2 (k, u, v); the returned "
    "n must be a stationary point of u^2 + v^2 of the quadratic interpolants: the exact "
    "Gauss-Newton step there must be below 1e-5 (the routine stops at |dn| <= 1e-6); the returned "
    "separation is the interpolated one within 2e-6 * relative speed (it is evaluated one "
    "iteration before n)",
]

TOL = 1e-10


def self_test():
    L.self_test()


# --------------------------------------------------------------------- tables

def make_y(case):
    """Exact ordinates -> floats (optionally scaled by a power of two)."""
    xs = case["x"]
    d = case["data"]
    kind = d["kind"]
    if kind == "poly":
        coef = [F(c) for c in d["coef"]]
        ex = [L.polyval(coef, x) for x in xs]
    elif kind == "roots":
        ex = []
        for x in xs:
            v = F(d["lead"])
            for r in d["roots"]:
                v *= F(x) - F(r)
            ex.append(v)
    else:
        ex = [F(y) for y in d["y"]]
    scale = F(1)
    if case.get("norm"):
        m = max(abs(v) for v in ex)
        if m > 0:
            k = math.frexp(float(m))[1]          # m in [2^(k-1), 2^k)
            if k > 6:
                scale = F(1, 2 ** (k - 6))
            elif k < 1:
                scale = F(2 ** (1 - k))
    ys = [float(v * scale) for v in ex]
    return ys, scale


def gen_poly(case, scale):
    """Exact generating polynomial (Fractions, lowest first) or None."""
    d = case["data"]
    if d["kind"] == "poly":
        return [F(c) * scale for c in d["coef"]]
    if d["kind"] == "roots":
        c = [F(d["lead"]) * scale]
        for r in d["roots"]:
            c = L.polymul_linear(c, F(r))
        return c
    return None


def lbasis(xs, x):
    out = []
    for i, xi in enumerate(xs):
        v = 1.0
        for j, xj in enumerate(xs):
            if j != i:
                v *= (x - xj) / (xi - xj)
        out.append(v)
    return out


def lam(xs, ys, x):
    return sum(abs(l) * abs(y) for l, y in zip(lbasis(xs, x), ys))


def leb(xs, x):
    """Lebesgue function sum |l_i(x)| (>= 1)."""
    return sum(abs(l) for l in lbasis(xs, x))


def dleb(xs, x):
    return sum(abs(l) for l in dbasis(xs, x))


def lam_max(xs, ys, lo, hi, m=64):
    return max(lam(xs, ys, lo + (hi - lo) * k / m) for k in range(m + 1))


def dbasis(xs, x):
    n = len(xs)
    out = []
    for i in range(n):
        den = 1.0
        for j in range(n):
            if j != i:
                den *= xs[i] - xs[j]
        s = 0.0
        for k in range(n):
            if k == i:
                continue
            p = 1.0
            for j in range(n):
                if j != i and j != k:
                    p *= x - xs[j]
            s += p
        out.append(s / den)
    return out


def dlam(xs, ys, x):
    return sum(abs(l) * abs(y) for l, y in zip(dbasis(xs, x), ys))


def is_sorted(xs):
    return all(a < b for a, b in zip(xs, xs[1:]))


def table_labels(case, xs, c):
    labels = []
    n = len(xs)
    if not is_sorted(xs):
        labels.append("unordered_input")
    if n >= 5:
        labels.append("n>=5")
    sx = sorted(xs)
    gaps = [b - a for a, b in zip(sx, sx[1:])]
    if max(gaps) - min(gaps) > 1e-9:
        labels.append("unequal_spacing")
    else:
        labels.append("equal_spacing")
    labels.append("data:" + case["data"]["kind"])
    return labels


# --------------------------------------------------------------------- value clause

def _angle_safe(xs, ys, pts):
    """True when every exact intermediate of the divided-difference table and of Horner's
    scheme at the given points stays below 359 in absolute value."""
    order = sorted(range(len(xs)), key=lambda i: xs[i])
    X = [F(xs[i]) for i in order]
    Y = [F(ys[i]) for i in order]
    n = len(X)
    # all divided differences f[i..j]
    dd = {(i, i): Y[i] for i in range(n)}
    for w in range(1, n):
        for i in range(n - w):
            j = i + w
            num = dd[(i, j - 1)] - dd[(i + 1, j)]
            dd[(i, j)] = num / (X[i] - X[j])
            if abs(num) >= 359 or abs(dd[(i, j)]) >= 359:
                return False
    tab = [dd[(0, k)] for k in range(n)]
    for x in pts:
        x = F(x)
        val = tab[-1]
        for i in range(n - 1, 0, -1):
            prod = (x - X[i - 1]) * val
            val = tab[i - 1] + prod
            if abs(prod) >= 359 or abs(val) >= 359:
                return False
        # derivative products
    return True


def build(form, xs, ys):
    if form == "lists":
        ax, ay = list(xs), list(ys)
        it = Interpolation(ax, ay)
        if ax != list(xs) or ay != list(ys):
            raise Violation("Interpolation(x, y) changed the caller's lists", site="Interpolation.set",
                            kind="argument_mutated")
        return it
    if form == "tuples":
        return Interpolation(tuple(xs), tuple(ys))
    if form == "flat":
        args = []
        for x, y in zip(xs, ys):
            args += [x, y]
        return Interpolation(*args)
    if form == "set":
        it = Interpolation()
        it.set(list(xs), list(ys))
        return it
    if form == "reset":
        it = Interpolation([0.0, 1.0, 2.0], [5.0, -1.0, 7.0])
        it.set(list(xs), list(ys))
        return it
    if form == "copy":
        src = Interpolation(list(xs), list(ys))
        it = Interpolation(src)
        if len(xs) % 2:
            # the source goes on to other work (documented set()), the copy is a table of its own
            src.set([0.0, 1.0, 2.0, 4.0], [5.0, -1.0, 7.0, 0.5])
            src(1.5)
        elif len(xs) % 4 == 0:
            # a copy re-loaded from an object it was copied from before
            it.set(src)
        return it
    if form == "yonly":
        return Interpolation(list(ys))
    if form == "angle_y":
        return Interpolation(list(xs), [Angle(y) for y in ys])
    raise AssertionError(form)


def body_value(case):
    form = case["form"]
    xs = list(case["x"])
    if form == "yonly":
        xs = list(range(len(xs)))
        case = dict(case, x=xs)
    ys, scale = make_y(case)
    pts = [p for p in case["at"] if min(xs) <= p <= max(xs)]
    pts = [p for p in pts if all(p == x or abs(p - x) > 2e-10 for x in xs)]
    if form == "angle_y" and not (len(xs) <= 5 and _angle_safe(xs, ys, pts + xs)):
        form = "lists"
    it = build(form, xs, ys)
    if len(it) != len(xs):
        raise Violation("len() = %r for %d points" % (len(it), len(xs)), site="Interpolation.set", kind="len")
    cref = L.interp_coeffs(xs, ys)
    gen = gen_poly(case, scale)
    ymax = max(abs(y) for y in ys)
    site = "Interpolation.__call__"
    what = "Interpolation<%s>(x=%r, y=%r)" % (form, xs, ys)
    for x, y in zip(xs, ys):
        got = float(it(x))
        if abs(got - y) > 1e-9 * ymax:
            raise Violation("%s: value at node %r is %r, tabulated %r" % (what, x, got, y),
                            site=site, kind="node_value", x=x, got=got, want=y)
    worst = 0.0
    for p in pts:
        ref = L.polyval(gen if gen is not None else cref, p)
        sc = ymax * leb(xs, p)
        got = float(it(p))
        err = abs(F(got) - ref)
        if err > F(1e-9) * F(sc) + F(1, 10 ** 300):
            raise Violation("%s: value at %r is %r, %s gives %r (error %.3e, scale %.3e)"
                            % (what, p, got, "generating polynomial" if gen is not None else "exact interpolant",
                               float(ref), float(err), sc), site=site, kind="value", x=p, got=got,
                            want=float(ref))
        if sc > 0:
            worst = max(worst, float(err) / sc)
        if form == "angle_y":
            continue                      # derivative of Angle tables: products exceed 360
        dref = L.polyval(L.polyder(gen if gen is not None else cref), p)
        dsc = ymax * dleb(xs, p)
        dgot = float(it.derivative(p))
        derr = abs(F(dgot) - dref)
        if derr > F(1e-9) * F(dsc) + F(1, 10 ** 300):
            raise Violation("%s: derivative at %r is %r, %s gives %r (error %.3e, scale %.3e)"
                            % (what, p, dgot, "generating polynomial" if gen is not None else "exact interpolant",
                               float(dref), float(derr), dsc), site="Interpolation.derivative",
                            kind="derivative", x=p, got=dgot, want=float(dref))
        if dsc > 0:
            worst = max(worst, float(derr) / dsc)
    labels = table_labels(case, xs, cref) + ["form:" + form]
    if len(xs) == 2:
        labels.append("n=2")
    if gen is not None and len(gen) == len(xs):
        labels.append("full_degree")
    nontrivial = (not is_sorted(xs)) or len(xs) >= 5 or form != "lists"
    return {"labels": labels, "nontrivial": nontrivial, "n": 1,
            "show": {"points": len(pts), "worst_relative_error": worst}}


# --------------------------------------------------------------------- refuse clause

def body_refuse(case):
    xs, ys = list(case["x"]), list(case["y"])
    kind = case["kind"]
    if kind == "duplicate":
        try:
            it = build(case["form"], xs, ys)
        except ValueError:
            return {"labels": ["duplicate_refused", "form:" + case["form"]], "nontrivial": True}
        raise Violation("Interpolation<%s>(%r, %r) accepted duplicated abscissae" % (case["form"], xs, ys),
                        site="Interpolation.set", kind="duplicate_accepted")
    it = build("lists", xs, ys)
    p = case["probe"]
    for name, fn, site in (("__call__", it, "Interpolation.__call__"),
                           ("derivative", it.derivative, "Interpolation.derivative")):
        try:
            v = fn(p)
        except ValueError:
            continue
        raise Violation("Interpolation(%r, %r).%s(%r) returned %r for an abscissa outside the table"
                        % (xs, ys, name, p, v), site=site, kind="outside_accepted", x=p)
    return {"labels": ["outside_refused", "below" if p < min(xs) else "above"], "nontrivial": True}


# --------------------------------------------------------------------- root / minmax

def _limits(case, xmin, xmax):
    """(args, lo, hi, kind): arguments for the call and the documented effective interval."""
    lim = case.get("lim")
    if lim is None or (lim[0] == 0 and lim[1] == 0):
        return (() if lim is None else tuple(lim)), xmin, xmax, "default"
    xl, xh = lim
    if abs(xl - xh) < TOL:
        return (xl, xh), None, None, "equal"
    lo, hi = min(xl, xh), max(xl, xh)
    kind = "reversed" if xl > xh else "sub"
    if lo < xmin or hi > xmax:
        kind = "partly_outside"
    lo, hi = max(lo, xmin), min(hi, xmax)
    if lo >= hi:
        return (xl, xh), None, None, "outside"
    if lo == xmin and hi == xmax and kind == "sub":
        kind = "whole"
    return (xl, xh), lo, hi, kind


def _find(case, which):
    xs = list(case["x"])
    ys, scale = make_y(case)
    sx = sorted(xs)
    xmin, xmax = sx[0], sx[-1]
    cref = L.interp_coeffs(xs, ys)
    if which == "root":
        target = cref
        site = "Interpolation.root"
        lam_all = lam_max(xs, ys, xmin, xmax)
    else:
        target = L.polyder(cref)
        site = "Interpolation.minmax"
        # noise of the derivative table and of the interpolant built on it
        dvals = [float(L.polyval(target, x)) for x in sx]
        lam_all = max(max(dlam(xs, ys, x) for x in sx), lam_max(sx, dvals, xmin, xmax))
    noise = 1e-13 * lam_all
    well = lam_all <= 1e3
    args, lo, hi, lkind = _limits(case, xmin, xmax)
    it = Interpolation(list(xs), list(ys))
    what = "Interpolation(%r, %r).%s(%s)" % (xs, ys, which, ", ".join(repr(a) for a in args))
    labels = table_labels(case, xs, cref) + ["limits:" + lkind]
    fl = [float(a) for a in target]              # labels only: float Horner is enough
    nchanges, prev = 0, 0
    for k in range(49):
        t = xmin + (xmax - xmin) * k / 48.0
        v = 0.0
        for a in reversed(fl):
            v = v * t + a
        sg = (v > 0) - (v < 0)
        if sg and prev and sg != prev:
            nchanges += 1
        prev = sg or prev
    if nchanges > 1:
        labels.append("several_sign_changes_in_table")
    if not well:
        labels.append("ill_conditioned_table(not demanded)")
    nontrivial = lkind != "default" or nchanges > 1 or not is_sorted(xs) or len(xs) >= 5
    err = None
    try:
        r = getattr(it, which)(*args)
    except ValueError as ex:
        err = str(ex)
    if lkind == "equal":
        if err is None:
            raise Violation("%s: limits equal within the tolerance were accepted (returned %r)" % (what, r),
                            site=site, kind="equal_limits_accepted")
        return {"labels": labels, "refused": "limits equal within tolerance", "nontrivial": True}
    if lkind == "outside":
        return {"labels": labels, "refused": "interval outside the table: not asserted"}
    s_lo, s_hi = L.polyval(target, lo), L.polyval(target, hi)
    strict = (abs(s_lo) > 2 * TOL + noise and abs(s_hi) > 2 * TOL + noise and (s_lo > 0) != (s_hi > 0))
    if err is not None:
        short = " ".join(err.split())[:40]
        if strict and well:
            labels.append("sign_change_demanded")
            raise Violation("%s raised ValueError(%r) although the interpolant%s goes from %.6g at %r to %.6g at %r"
                            % (what, short, "" if which == "root" else "'s derivative", float(s_lo), lo,
                               float(s_hi), hi), site=site,
                            kind="no_root:" + ("too_many_iterations" if "Too many" in err else
                                               "invalid_interval" if "Invalid interval" in err else "other"),
                            lo=lo, hi=hi, s_lo=float(s_lo), s_hi=float(s_hi), error=short)
        labels.append("refused:" + ("same_sign_ends" if not strict else "ill_conditioned"))
        return {"labels": labels, "refused": short, "nontrivial": nontrivial}
    rf = float(r)
    val = L.polyval(target, rf) if xmin <= rf <= xmax else None
    slack = 4e-16 * max(abs(lo), abs(hi), 1.0)
    if not (lo - slack <= rf <= hi + slack):
        raise Violation("%s returned %r, outside the requested interval [%r, %r]%s"
                        % (what, r, lo, hi, "" if val is None else " (value there %.3g)" % float(val)),
                        site=site, kind="outside_interval", lo=lo, hi=hi, got=rf)
    # the object identifies an abscissa within its tolerance of a node with the node
    near_node_root = False
    if which == "root":
        near_node_root = any(abs(rf - x) < TOL and abs(y) <= TOL for x, y in zip(xs, ys))
    else:
        near_node_root = any(abs(rf - x) < TOL and abs(L.polyval(target, x)) <= TOL + noise for x in xs)
    if abs(val) > TOL + noise and not near_node_root:
        raise Violation("%s returned %r where the %s is %.3e (tolerance 1e-10, noise allowance %.1e)"
                        % (what, r, "interpolant" if which == "root" else "derivative", float(val), noise),
                        site=site, kind="not_a_root", got=rf, value=float(val))
    if strict:
        labels.append("sign_change_demanded")
    else:
        labels.append("returned_without_demand")
    if lkind in ("sub", "reversed", "partly_outside"):
        labels.append("subinterval_root" if which == "root" else "subinterval_extremum")
    return {"labels": labels, "nontrivial": nontrivial, "show": {which: rf, "residual": float(val)}}


def body_root(case):
    return _find(case, "root")


def body_minmax(case):
    return _find(case, "minmax")


# --------------------------------------------------------------------- conjunction helpers

def _entries(vals):
    n = len(vals)
    if n % 2 == 0:
        n -= 1
    return n


def _zero_check(n0, nlist, diffs, what, site, labels):
    c = L.interp_coeffs(nlist, diffs)
    r = float(n0)
    if not (nlist[0] <= r <= nlist[-1]):
        raise Violation("%s returned n0 = %r outside the table [%r, %r]" % (what, n0, nlist[0], nlist[-1]),
                        site=site, kind="outside_table")
    v = L.polyval(c, r)
    if abs(v) > 1e-8:
        raise Violation("%s returned n0 = %r where the interpolated difference is %.3e" % (what, n0, float(v)),
                        site=site, kind="difference_not_zero", n0=r, value=float(v))
    return float(v)


def _straight(a1, d1, a2, d2, a3, d3):
    a1, d1, a2, d2, a3, d3 = [math.radians(v) for v in (a1, d1, a2, d2, a3, d3)]
    return (math.tan(d1) * math.sin(a2 - a3) + math.tan(d2) * math.sin(a3 - a1)
            + math.tan(d3) * math.sin(a1 - a2))


def body_conj(case):
    kind = case["kind"]
    A1, D1 = case["a1"], case["d1"]
    m = _entries(A1)
    half = m // 2
    nlist = [i - half for i in range(m)]
    ang = lambda lst: [Angle(v) for v in lst]
    labels = ["kind:" + kind, "entries:%d" % len(A1)]
    if len(A1) % 2 == 0:
        labels.append("even_entries_last_dropped")
    try:
        if kind == "planets":
            A2, D2 = case["a2"], case["d2"]
            site = "Coordinates.planetary_conjunction"
            diffs = [F(Angle(a)()) - F(Angle(b)()) for a, b in zip(A1[:m], A2[:m])]
            what = "planetary_conjunction(%r, %r, %r, %r)" % (A1, D1, A2, D2)
            form = case.get("form", "lists")
            if form == "tuples":
                res = C.planetary_conjunction(tuple(ang(A1)), tuple(ang(D1)), tuple(ang(A2)), tuple(ang(D2)))
            else:
                res = C.planetary_conjunction(ang(A1), ang(D1), ang(A2), ang(D2))
            n0 = res[0]
        elif kind == "star":
            As, Ds = case["as"], case["ds"]
            site = "Coordinates.planet_star_conjunction"
            diffs = [F(Angle(a)()) - F(Angle(As)()) for a in A1[:m]]
            what = "planet_star_conjunction(%r, %r, %r, %r)" % (A1, D1, As, Ds)
            res = C.planet_star_conjunction(ang(A1), ang(D1), Angle(As), Angle(Ds))
            n0 = res[0]
        else:
            s = case["stars"]
            site = "Coordinates.planet_stars_in_line"
            diffs = [_straight(a, d, s[0], s[1], s[2], s[3]) for a, d in zip(A1[:m], D1[:m])]
            what = "planet_stars_in_line(%r, %r, %r)" % (A1, D1, s)
            n0 = C.planet_stars_in_line(ang(A1), ang(D1), Angle(s[0]), Angle(s[1]), Angle(s[2]), Angle(s[3]))
    except ValueError as ex:
        msg = " ".join(str(ex).split())[:40]
        fd = [F(d) for d in diffs]
        if abs(fd[0]) > 1e-9 and abs(fd[-1]) > 1e-9 and (fd[0] > 0) != (fd[-1] > 0):
            raise Violation("%s raised ValueError(%r) although the difference changes sign over the table "
                            "(%.6g .. %.6g)" % (what, msg, float(fd[0]), float(fd[-1])), site=site,
                            kind="no_root")
        return {"labels": labels + ["refused:no_sign_change"], "refused": msg, "nontrivial": True}
    v = _zero_check(n0, nlist, diffs, what, site, labels)
    if isinstance(n0, Angle):
        labels.append("n0_is_Angle")
    return {"labels": labels, "nontrivial": True, "show": {"n0": float(n0), "difference_at_n0": v}}


def _uv(a1, d1, a2, d2):
    """Meeus (18.2): rectangular offsets in arcseconds of body 2 from body 1."""
    d1r = math.radians(d1)
    da = math.radians(a2 - a1)
    dd = math.radians(d2 - d1)
    k = 206264.8062 / (1.0 + math.sin(d1r) ** 2 * math.tan(da) * math.tan(da / 2.0))
    u = -k * (1.0 - math.tan(d1r) * math.sin(dd)) * math.cos(d1r) * math.tan(da)
    v = k * (math.sin(dd) + math.sin(d1r) * math.cos(d1r) * math.tan(da) * math.tan(da / 2.0))
    return u, v


def body_minsep(case):
    p1, p2 = case["b1"], case["b2"]          # [[a, d] * 3] each
    args = [Angle(v) for pt in p1 for v in pt] + [Angle(v) for pt in p2 for v in pt]
    n, dist = C.minimum_angular_separation(*args)
    site = "Coordinates.minimum_angular_separation"
    uv = [_uv(p1[i][0], p1[i][1], p2[i][0], p2[i][1]) for i in range(3)]
    cu = L.interp_coeffs([-1, 0, 1], [uv[i][0] for i in range(3)])
    cv = L.interp_coeffs([-1, 0, 1], [uv[i][1] for i in range(3)])
    nf = F(float(n))
    u, v = L.polyval(cu, nf), L.polyval(cv, nf)
    up, vp = L.polyval(L.polyder(cu), nf), L.polyval(L.polyder(cv), nf)
    den = up * up + vp * vp
    step = float(-(u * up + v * vp) / den) if den != 0 else float("inf")
    what = "minimum_angular_separation(%r, %r)" % (p1, p2)
    if abs(step) > 1e-5:
        raise Violation("%s returned n = %r which is not a stationary point of the interpolated separation "
                        "(Gauss-Newton step there %.3e)" % (what, n, step), site=site, kind="not_stationary",
                        n=float(n), step=step)
    dref = math.sqrt(float(u * u + v * v))
    got = float(dist) * 3600.0
    speed = math.sqrt(float(den))
    if abs(got - dref) > 2e-6 * speed + 1e-6 * dref + 1e-9:
        raise Violation("%s returned separation %r arcsec, interpolated separation at n = %r is %r"
                        % (what, got, n, dref), site=site, kind="separation", got=got, want=dref)
    labels = ["inside_table" if abs(float(n)) <= 1 else "outside_table"]
    return {"labels": labels, "nontrivial": True, "show": {"n": float(n), "arcsec": got}}


CLAUSES = {"value": body_value, "refuse": body_refuse, "root": body_root, "minmax": body_minmax,
           "conj": body_conj, "minsep": body_minsep}


# --------------------------------------------------------------------- strategies

UNITS = [(1, 2), (1, 3), (1, 6), (1, 1), (2, 1)]


@st.composite
def abscissae(draw, nmin=2, nmax=9):
    """Pairwise distinct grid abscissae in [-10, 10], in a generated order."""
    num, den = draw(st.sampled_from(UNITS))
    kmax = (10 * den) // num
    n = draw(st.integers(nmin, nmax))
    mode = draw(st.sampled_from(["run", "run", "stride", "window", "any"]))
    if mode in ("run", "stride"):
        stride = 1 if mode == "run" else draw(st.integers(2, 4))
        span = (n - 1) * stride
        if span > 2 * kmax:
            stride, span = 1, n - 1
        k0 = draw(st.integers(-kmax, kmax - span))
        ks = [k0 + i * stride for i in range(n)]
    else:
        width = 2 * kmax if mode == "any" else min(2 * kmax, draw(st.integers(n, 3 * n)))
        k0 = draw(st.integers(-kmax, kmax - width))
        ks = draw(st.lists(st.integers(k0, k0 + width), min_size=n, max_size=n, unique=True))
    as_int = den == 1 and draw(st.booleans())
    xs = [(k * num) if as_int else (k * num) / float(den) for k in ks]
    order = draw(st.sampled_from(["sorted", "reversed", "shuffled", "shuffled"]))
    if order == "sorted":
        xs.sort()
    elif order == "reversed":
        xs.sort(reverse=True)
    else:
        xs = draw(st.permutations(xs))
    return list(xs)


@st.composite
def datasets(draw, xs, for_roots=False):
    n = len(xs)
    lo, hi = min(xs), max(xs)
    kinds = ["poly", "roots", "values"] if n >= 2 else ["poly"]
    kind = draw(st.sampled_from(kinds + (["roots"] if for_roots else ["poly"])))
    if kind == "poly":
        deg = draw(st.integers(0, n - 1))
        if draw(st.booleans()):
            deg = n - 1
        coef = draw(st.lists(st.integers(-5, 5), min_size=deg + 1, max_size=deg + 1))
        if for_roots and all(c == 0 for c in coef):
            coef[0] = 1
        return {"kind": "poly", "coef": coef}
    if kind == "roots":
        m = draw(st.integers(1, max(1, min(n - 1, 4))))
        ts = draw(st.lists(st.integers(1, 47), min_size=m, max_size=m, unique=True))
        roots = sorted(lo + (hi - lo) * t / 48.0 for t in ts)
        lead = draw(st.sampled_from([1, -1, 2, -3]))
        return {"kind": "roots", "roots": roots, "lead": lead}
    A = draw(st.floats(-3, 3))
    B = draw(st.floats(-2, 2))
    w = draw(st.floats(0.1, 1.5))
    ph = draw(st.floats(0, 6.3))
    c0 = draw(st.floats(-1, 1))
    ys = [A * math.sin(w * x + ph) + B * math.exp(x / 5.0) + c0 for x in xs]
    if all(y == 0 for y in ys):
        ys[0] = 1.0
    return {"kind": "values", "y": ys}


@st.composite
def value_cases(draw):
    form = draw(st.sampled_from(["lists", "lists", "tuples", "flat", "set", "reset", "copy", "yonly", "angle_y"]))
    if form == "yonly":
        n = draw(st.integers(2, 9))
        xs = list(range(n))
    elif form == "angle_y":
        xs = draw(abscissae(2, 4))
    else:
        xs = draw(abscissae())
    data = draw(datasets(xs))
    if form == "angle_y":
        # small ordinates
        if data["kind"] == "poly":
            data = {"kind": "poly", "coef": data["coef"][:2]}
        elif data["kind"] == "roots":
            data = {"kind": "values", "y": [draw(st.floats(-1, 1)) for _ in xs]}
    lo, hi = min(xs), max(xs)
    ts = draw(st.lists(st.one_of(st.floats(0, 1), st.sampled_from([0.0, 1.0, 0.5, 1e-9, 1 - 1e-9])),
                       min_size=2, max_size=5))
    at = [min(hi, max(lo, lo + (hi - lo) * t)) for t in ts]
    at.append(draw(st.sampled_from(list(xs))))
    return {"x": list(xs), "data": data, "form": form, "at": at}


@st.composite
def refuse_cases(draw):
    xs = draw(abscissae())
    ys = [float(draw(st.integers(-9, 9))) for _ in xs]
    if draw(st.booleans()):
        i = draw(st.integers(0, len(xs) - 1))
        j = draw(st.integers(0, len(xs)))
        v = xs[i]
        if draw(st.booleans()):
            v = int(v) if v == int(v) else v
        xs2 = list(xs)
        xs2.insert(j, v)
        ys2 = ys + [1.5]
        form = draw(st.sampled_from(["lists", "tuples", "flat", "set", "copy"]))
        return {"kind": "duplicate", "x": xs2, "y": ys2, "form": form}
    lo, hi = min(xs), max(xs)
    off = draw(st.one_of(S.log_uniform(1e-6, 100.0), st.sampled_from([1e-6, 1.0, 1e6])))
    probe = hi + off if draw(st.booleans()) else lo - off
    return {"kind": "outside", "x": list(xs), "y": ys, "probe": probe}


@st.composite
def find_cases(draw, which):
    mode = draw(st.sampled_from(["default", "default", "bracket", "bracket", "bracket", "bracket", "random",
                                 "random", "outside", "outside", "zero", "equal"]))
    xs = draw(abscissae(3 if (which == "minmax" or mode == "bracket") else 2, 9))
    data = draw(datasets(xs, for_roots=True))
    lo, hi = min(xs), max(xs)
    w = hi - lo
    if mode == "bracket" and data["kind"] != "roots":
        # a sub-interval that brackets one chosen root (extremum) needs known roots
        m = draw(st.integers(2 if which == "minmax" else 1, max(2, min(len(xs) - 1, 4))))
        ts = draw(st.lists(st.integers(1, 47), min_size=m, max_size=m, unique=True))
        data = {"kind": "roots", "roots": sorted(lo + w * t / 48.0 for t in ts),
                "lead": draw(st.sampled_from([1, -1, 2, -3]))}
    lim = None
    if mode == "bracket" and which == "root":
        roots = data["roots"]
        i = draw(st.integers(0, len(roots) - 1))
        left = roots[i - 1] if i > 0 else lo
        right = roots[i + 1] if i + 1 < len(roots) else hi
        t1 = draw(st.floats(0.05, 0.95))
        t2 = draw(st.floats(0.05, 0.95))
        lim = [roots[i] - (roots[i] - left) * t1, roots[i] + (right - roots[i]) * t2]
    elif mode == "bracket" and len(data["roots"]) >= 2:
        # between two consecutive simple roots lies exactly one extremum of the product
        roots = data["roots"]
        i = draw(st.integers(0, len(roots) - 2))
        lim = [roots[i], roots[i + 1]]
    elif mode in ("bracket", "random"):
        t1 = draw(st.floats(0, 1))
        t2 = draw(st.floats(0, 1))
        lim = [lo + w * min(t1, t2), lo + w * max(t1, t2)]
        if draw(st.booleans()):
            lim[draw(st.integers(0, 1))] = draw(st.sampled_from(sorted(xs)))
            lim.sort()
    elif mode == "outside":
        t = draw(st.floats(0, 1))
        o = draw(st.sampled_from([1e-9, 0.25, 3.0, 1000.0]))
        side = draw(st.sampled_from(["low", "high", "both"]))
        lim = [lo + w * t * 0.5, hi - w * t * 0.5]
        if side in ("low", "both"):
            lim[0] = lo - o
        if side in ("high", "both"):
            lim[1] = hi + o
    elif mode == "zero":
        lim = [0, 0] if draw(st.booleans()) else [0.0, 0.0]
    elif mode == "equal":
        t = draw(st.floats(0, 1))
        v = lo + w * t
        lim = [v, v + draw(st.sampled_from([0.0, 1e-11, -5e-11]))]
        if lim[0] == 0 and lim[1] == 0:
            lim = [lo, lo]
    if lim is not None and mode not in ("zero", "equal") and draw(st.sampled_from([False, False, True])):
        lim = [lim[1], lim[0]]
    return {"x": list(xs), "data": data, "norm": True, "lim": lim}


@st.composite
def conj_cases(draw):
    kind = draw(st.sampled_from(["planets", "star", "line"]))
    m = draw(st.sampled_from([3, 3, 4, 5, 5, 6, 7]))
    used = m if m % 2 else m - 1
    half = used // 2
    ns = [i - half for i in range(m)]
    a0 = draw(st.floats(20, 340))
    d0 = draw(st.floats(-60, 60))
    ra = draw(st.floats(-1.5, 1.5))
    rd = draw(st.floats(-1, 1))
    ca = draw(st.floats(-0.05, 0.05))
    # second body / reference path
    A2 = [a0 + ra * n + ca * n * n for n in ns]
    D2 = [d0 + rd * n for n in ns]
    nstar = draw(st.floats(-half + 0.02, half - 0.02))
    if kind == "planets":
        s = draw(st.floats(0.05, 0.8)) * draw(st.sampled_from([1, -1]))
        q = draw(st.floats(-0.03, 0.03))
        c3 = draw(st.floats(-0.004, 0.004))
        dA = [(n - nstar) * (s + q * (n - nstar) + c3 * (n - nstar) ** 2) for n in ns]
        off = draw(st.floats(-3, 3))
        A1 = [a + b for a, b in zip(A2, dA)]
        D1 = [d + off + 0.1 * n for d, n in zip(D2, ns)]
        return {"kind": kind, "a1": A1, "d1": D1, "a2": A2, "d2": D2,
                "form": draw(st.sampled_from(["lists", "tuples"]))}
    if kind == "star":
        # planet path A2/D2; star sits at the planet's RA at n*
        As = a0 + ra * nstar + ca * nstar * nstar
        if abs(ra) < 0.05:
            As = a0 + 10.0        # no conjunction: refusal path
        return {"kind": kind, "a1": A2, "d1": D2, "as": As, "ds": d0 + draw(st.floats(-2, 2))}
    # line: two stars, planet crosses the great circle through them near n*
    sa1 = a0 + draw(st.floats(-8, -2))
    sd1 = d0 + draw(st.floats(2, 8))
    sa2 = a0 + draw(st.floats(-4, -1))
    sd2 = d0 + draw(st.floats(0.5, 1.5))
    # extrapolate the stars' line to the planet's neighbourhood (flat approximation) and cross it
    t = draw(st.floats(1.2, 2.0))
    pa = sa1 + (sa2 - sa1) * t
    pd = sd1 + (sd2 - sd1) * t
    va = draw(st.floats(0.2, 1.0)) * draw(st.sampled_from([1, -1]))
    vd = draw(st.floats(-0.1, 0.1))
    A1 = [pa + va * (n - nstar) for n in ns]
    D1 = [pd + vd * (n - nstar) for n in ns]
    return {"kind": kind, "a1": A1, "d1": D1, "stars": [sa1, sd1, sa2, sd2]}


@st.composite
def minsep_cases(draw):
    a0 = draw(st.floats(20, 340))
    d0 = draw(st.floats(-60, 60))
    nstar = draw(st.floats(-0.9, 0.9))
    # body 2 slow, body 1 passes it at n* with an impact offset
    r2a, r2d = draw(st.floats(-0.2, 0.2)), draw(st.floats(-0.1, 0.1))
    va = draw(st.floats(0.3, 2.0)) * draw(st.sampled_from([1, -1]))
    vd = draw(st.floats(-0.5, 0.5))
    off = draw(st.floats(-0.3, 0.3))
    b1, b2 = [], []
    for n in (-1, 0, 1):
        a2, d2 = a0 + r2a * n, d0 + r2d * n
        b2.append([a2, d2])
        # relative motion (va, vd)*(n - n*) plus a perpendicular offset
        norm = math.hypot(va, vd)
        b1.append([a2 + va * (n - nstar) - off * vd / norm, d2 + vd * (n - nstar) + off * va / norm])
    return {"b1": b1, "b2": b2}


STRATS = {"value": value_cases, "refuse": refuse_cases, "root": lambda: find_cases("root"),
          "minmax": lambda: find_cases("minmax"), "conj": conj_cases, "minsep": minsep_cases}


def tasks(tier, seed):
    mult = 1 if tier == "quick" else 25
    plan = {"value": (5, 2000), "root": (6, 3000), "minmax": (3, 2500), "refuse": (1, 3000),
            "conj": (2, 2000), "minsep": (1, 2000)}
    out = []
    k = 1 if tier == "quick" else 2
    for clause, (shards, n) in plan.items():
        for sh in range(shards * k):
            out.append(Task("t_given", clause=clause, shard=sh, n=n * mult // k))
    return out


def t_given(rec, clause, shard, n):
    rec.given(clause, STRATS[clause](), n, shard=shard)
