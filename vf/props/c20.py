"""C20 - calls are side-effect free and total on their documented domain.

Clauses
  call      one generated call of a public callable with well-typed in-domain arguments:
            no exception (documented refusals excepted); the arguments (Angle, Epoch,
            list, tuple ... deep snapshot) are unchanged (except `self` of a documented
            mutator); module-level tables/constants are unchanged; the result is not a
            silent non-value and contains only finite floats; the same call repeated
            after an unrelated interleaved call returns an equal result.
  illtyped  one argument of a call replaced by an ill-typed value (None, str, complex,
            list where no list is documented): TypeError or ValueError, never another
            exception class, never a silent None/NaN.  Asserted for callables whose
            docstring carries a :raises: clause.
  outofrange  arguments outside a range whose violation the docstring documents as
            ValueError (calendar fields, Pluto 1885-2099, finders -2000..4000, seasons
            -1000..3000, target strings, polar latitudes for rise_set, abscissae outside an
            interpolation table, eccentricity outside [0, 1)): TypeError/ValueError, never
            another class, never silently accepted.
  history   a generated history of calls on pools of Angles, Epochs, Interpolation and
            CurveFitting objects with a shadow model (plain floats): after every step
            every pooled object equals its shadow (a callee that mutates its argument or
            a copy that shares state is seen at the next step), repeated calls with equal
            arguments return equal results wherever they occur in the history.
The history is a plain list of step dicts interpreted by the body (rather than a
RuleBasedStateMachine instance) so that it is one JSON value: it shrinks as a whole and
the replay file re-executes it without Hypothesis.
"""
import math

from hypothesis import strategies as st

from pymeeus.Angle import Angle
from pymeeus.Epoch import Epoch
from pymeeus.Interpolation import Interpolation
from pymeeus.CurveFitting import CurveFitting
import pymeeus.Coordinates as Co

from ..core import Violation, Task
from . import c20_api as api
from .c20_api import API, dec, freeze, floats_in

PROPERTY = "C20"
LEVEL = "exploration"
MANIFEST = {
    "level_text": "Randomised search (Hypothesis) over the introspected public API (321 registry entries, coverage of the inventory checked at start): every callable with registry-generated well-typed in-domain arguments under five oracles - argument/self snapshots through the public API, module-level tables, repeat after an interleaved call, the same call on objects re-used through set() (reuse relation), and the same call in a pristine process forked before any library call (order independence); result finiteness and shape; one-at-a-time ill-typed substitutions; documented out-of-range and wrong-arity arguments; and generated call histories on object pools against a shadow model with fresh-object comparison of every view after every step. Finds violations; the pair-interleaving space is sampled, not enumerated.",
    "level_note": "The argument domains are read from the docstrings into vf/props/c20_api.py; Epoch.utc2local and local= are excluded (wall clock). Ill-typed rejection is asserted only where the docstring documents :raises:. Containers that are empty at import are treated as caches (judged by behaviour), not as tables.",
    "technique": "property-based testing (Hypothesis): API-wide generated calls with snapshot, reuse and pristine-process (fork) oracles + model-based call histories",
}
RULE = ("call: callable drawn from the introspected API registry (every public function/method of "
        "every module; coverage of the inventory is checked at start), arguments from per-parameter "
        "strategies; non-trivial = the call passes at least one mutable library object (Angle, Epoch, "
        "list, tuple, Interpolation, CurveFitting, Minor, Earth) as argument or self. illtyped: "
        "every (callable, position) x {None, str, complex, list}; each distinct triple counts. "
        "history: list of 5-40 steps over pools; non-trivial = the history contains a mutator or a "
        "copy followed by further calls. distinct = distinct canonical case.")
ASSUMPTIONS = [
    "Epoch.utc2local and the local= keyword are excluded (they read the machine's clock / time zone)",
    "documented refusals are not violations: near-parabolic 'No convergence' (Minor), ValueError from "
    "Interpolation.root/minmax and the conjunction helpers when the table has no root/extremum",
    "ill-typed arguments: a call that accepts the value by duck typing and returns a real value is not "
    "asserted; only other exception classes and silent None/NaN are violations, and only for callables "
    "whose docstring has a :raises: clause",
    "result equality is exact (repr of every float) - the library is deterministic",
]

MUTABLE = (Angle, Epoch, list, tuple, Interpolation, CurveFitting)


def _kf_apsis_window(planet):
    sites = ("%s.%s.perihelion_aphelion" % (planet, planet), "%s.%s.passage_nodes" % (planet, planet))

    def pred(clause, case, v):
        return (clause == "call" and v.site in sites and v.kind == "exception:ValueError"
                and "Invalid interval" in v.data.get("exc", "")
                and (v.data.get("where") or "").startswith("Interpolation.py"))
    return pred


# same root causes as KF-C13-apsis-window-jupiter / -saturn, seen here as totality failures
KNOWN_SIGNATURES = {
    "KF-C20-apsis-window-jupiter": _kf_apsis_window("Jupiter"),
    "KF-C20-apsis-window-saturn": _kf_apsis_window("Saturn"),
}


def self_test():
    # On the tree the registry was written for, every introspected public callable has an entry
    # (verified when the registry changes).  On a later tree that *adds* callables the campaign
    # still runs on everything it knows; the additions are listed in the evidence (coverage.notes)
    # rather than stopping the check with a harness error.
    pass


# ------------------------------------------------------------------- module state

_STATE = {"ref": None}


def check_module_state(site):
    if _STATE["ref"] is None:
        _STATE["ref"] = api.ModuleState()
        return
    changed = _STATE["ref"].check()
    if changed:
        _STATE["ref"] = api.ModuleState()
        raise Violation("module-level state changed during %s: %s" % (site, changed[:5]),
                        site=site, kind="module_state_changed", changed=changed[:10])


# ------------------------------------------------------------------- pristine-process oracle

class Zygote(object):
    """A child process forked before this process has made any library call.  For every
    request it forks a grandchild that evaluates one call in that pristine module state and
    sends back the frozen result.  'Calling a function ... in any order relative to other
    calls returns equal results': the result obtained here, after thousands of other calls,
    must equal the result obtained in a process that has made no other call."""

    def __init__(self):
        import os
        import pickle
        self.os, self.pickle = os, pickle
        r1, w1 = os.pipe()      # requests  parent -> zygote
        r2, w2 = os.pipe()      # answers   grandchild -> parent
        pid = os.fork()
        if pid == 0:
            os.close(w1)
            os.close(r2)
            self._serve(os.fdopen(r1, "rb"), w2)
            os._exit(0)
        os.close(r1)
        os.close(w2)
        self.pid = pid
        self.req = os.fdopen(w1, "wb")
        self.ans = os.fdopen(r2, "rb")

    def _serve(self, req, w2):
        os, pickle = self.os, self.pickle
        while True:
            try:
                case = pickle.load(req)
            except EOFError:
                return
            gpid = os.fork()
            if gpid == 0:
                try:
                    try:
                        out = ("ok", freeze(_invoke(case)[3]()))
                    except Exception as e:
                        out = ("exc", type(e).__name__)
                    data = pickle.dumps(out)
                except BaseException as e:      # unpicklable result etc.
                    data = pickle.dumps(("harness", repr(e)))
                with os.fdopen(w2, "wb", closefd=False) as f:
                    f.write(len(data).to_bytes(4, "big") + data)
                os._exit(0)
            os.waitpid(gpid, 0)

    def evaluate(self, case):
        self.pickle.dump(case, self.req)
        self.req.flush()
        n = int.from_bytes(self.ans.read(4), "big")
        return self.pickle.loads(self.ans.read(n))

    def close(self):
        try:
            self.req.close()
            self.os.waitpid(self.pid, 0)
        except Exception:
            pass


_ZYGOTE = {"z": None}


def start_zygote():
    if _ZYGOTE["z"] is None:
        _ZYGOTE["z"] = Zygote()


# ------------------------------------------------------------------- call clause

def _invoke(case, built=None):
    spec_f = API_BY_QUAL[case["f"]]
    f = spec_f.resolve()
    args = [dec(a) for a in case["args"]]
    kwargs = {k: dec(v) for k, v in case.get("kwargs", {}).items()}
    if case.get("self") is not None:
        obj = dec(case["self"])
        name = case["f"].split(".")[-1]
        fn = getattr(obj, name)
        return obj, args, kwargs, (lambda: fn(*args, **kwargs))
    return None, args, kwargs, (lambda: f(*args, **kwargs))


def _is_refusal(spec, e):
    for tname, sub in spec.refusals:
        if type(e).__name__ == tname and sub in str(e):
            return True
    return False


def _check_result(res, site, spec, case):
    fl = floats_in(res)
    for x in fl:
        if math.isnan(x) or math.isinf(x):
            raise Violation("%s returned a non-finite value: %r" % (site, res), site=site,
                            kind="non_finite")
    if res is None and not spec.mutator and not spec.allow_none:
        doc = spec.doc()
        if ":rtype: None" in doc or ":returns: None" in doc or "rtype: None" in doc:
            return
        name = case["f"].split(".")[-1]
        if name in ("set", "set_tolerance", "set_radians", "set_ra", "__init__"):
            return
        raise Violation("%s silently returned None" % site, site=site, kind="returned_none")


_SHAPES = {}


def _shape(o, depth=0):
    if isinstance(o, (tuple, list)):
        if depth < 2:
            return (type(o).__name__, len(o))
        return type(o).__name__
    return type(o).__name__


_DOC_FLOAT = {}


def _documented_float(spec):
    k = id(spec)
    if k not in _DOC_FLOAT:
        doc = spec.doc() or ""
        rt = [l.strip() for l in doc.splitlines() if l.strip().startswith(":rtype:")]
        _DOC_FLOAT[k] = len(rt) == 1 and rt[0] == ":rtype: float"
    return _DOC_FLOAT[k]


def _check_shape(res, site, args, kwargs, spec=None):
    """'Returns values of the documented type and arity': all results a callable gives for
    arguments of the same types (and the same flag / string values) have one shape."""
    if res is None:
        return
    key = (site, tuple(type(a).__name__ if not isinstance(a, (bool, str)) else repr(a) for a in args),
           tuple(sorted((k, type(v).__name__) for k, v in kwargs.items())))
    sh = _shape(res)
    old = _SHAPES.setdefault(key, sh)
    if old != sh and not (set([old, sh]) <= set(["int", "float"])):
        raise Violation("%s returned a %r for these arguments but a %r for other arguments of the same "
                        "types: the arity / type of the result depends on the values" % (site, sh, old),
                        site=site, kind="result_shape")
    # a documented scalar type: ':rtype: float' functions return a number whichever documented
    # alternative (int, float, Angle) each argument was given as
    if spec is not None and _documented_float(spec) and not isinstance(res, (int, float)):
        raise Violation("%s is documented to return a float and returned a %s (%r) for arguments of "
                        "types %r" % (site, type(res).__name__, res,
                                      tuple(type(a).__name__ for a in args)),
                        site=site, kind="result_type")
    # a fixed-arity family: the fits document (a, b) / (a, b, c)
    if site.endswith("general_fitting") and sh != ("tuple", 3):
        raise Violation("%s returned %r; the documented result is the tuple of the three coefficients"
                        % (site, res), site=site, kind="result_shape")


def body_call(case):
    key = case.get("key") or case["f"]
    spec = API[key] if key in API else API_BY_QUAL[case["f"]]
    site = case["f"]
    check_module_state("startup")
    if case.get("sib", 0) % 2 == 1:
        # siblings first: the first evaluation below is then compared with the pristine process
        _call_siblings(case)
    obj, args, kwargs, thunk = _invoke(case)
    snap_args = freeze(args)
    snap_kw = freeze(kwargs)
    snap_self = freeze(obj) if obj is not None else None
    try:
        res = thunk()
    except Exception as e:
        if _is_refusal(spec, e):
            return {"labels": ["refused:" + site], "refused": "%s: %s" % (site, type(e).__name__)}
        from ..core import lib_frame
        where, _ = lib_frame(e)
        raise Violation("%s raised %s: %s on well-typed in-domain arguments" % (site, type(e).__name__, e),
                        site=site, kind="exception:" + type(e).__name__, where=where, exc=repr(e))
    if freeze(args) != snap_args or freeze(kwargs) != snap_kw:
        raise Violation("%s changed its arguments: %r -> %r" % (site, snap_args, freeze(args)),
                        site=site, kind="argument_mutated")
    if obj is not None and not spec.mutator and freeze(obj) != snap_self:
        if not (res is obj):
            raise Violation("%s changed the object it was called on" % site, site=site,
                            kind="self_mutated")
        raise Violation("%s changed the object it was called on" % site, site=site, kind="self_mutated")
    _check_result(res, site, spec, case)
    _check_shape(res, site, args, kwargs, spec)
    r1 = freeze(res)
    # interleave an unrelated call, then repeat
    other = case.get("other")
    if other is not None:
        try:
            _invoke(other)[3]()
        except Exception:
            pass
    # sibling interleave: other callables of the same class / module are called with the very same
    # arguments (a cache shared between two functions and keyed on the arguments only shows then)
    if case.get("sib", 0) % 2 == 0:
        _call_siblings(case)
    # the caller is free to change what it was given: library objects in the result are mutated
    # in place; a later equal call must not hand back (or depend on) those objects
    if not (res is obj):
        _scribble(res)
    obj2, args2, kwargs2, thunk2 = _invoke(case)
    try:
        res2 = thunk2()
    except Exception as e:
        raise Violation("%s raised %s on the repeated call though the first call succeeded"
                        % (site, type(e).__name__), site=site, kind="repeat_differs")
    if freeze(res2) != r1 and not _self_returning(res, obj, res2, obj2):
        raise Violation("%s returned %r, then %r for equal arguments" % (site, res, res2),
                        site=site, kind="repeat_differs")
    if spec.mutator and obj is not None and freeze(obj) != freeze(obj2):
        raise Violation("%s left two equal objects in different states" % site, site=site,
                        kind="repeat_differs")
    labels = [site]
    z = _ZYGOTE["z"]
    if z is not None and not spec.mutator:
        kind, val = z.evaluate({k: case[k] for k in ("f", "self", "args", "kwargs")})
        if kind == "harness":
            raise RuntimeError("pristine-process oracle failed: %s" % val)
        if kind == "exc" or val != r1:
            raise Violation("%s returned %r in this process (which has made other calls before) but %s in a "
                            "pristine process that made no other call: the result depends on the history "
                            "of calls" % (site, res, ("raised " + val) if kind == "exc" else repr(val)),
                            site=site, kind="history_dependent")
        labels.append("pristine_process_compared")
    # the same callable for a *neighbouring* instant (every Epoch of the case moved by 1e-9 .. 1e-4
    # day), asked right after this one: a memo whose key is coarser than the argument hands the
    # neighbour this call's answer; the pristine process gives the neighbour's own
    if z is not None and not spec.mutator and case.get("sib", 0) % 3 == 0:
        near, moved = _neighbour(case)
        if moved:
            try:
                nres = freeze(_invoke(near)[3]())
            except Exception:
                nres = None
            if nres is not None:
                kind, val = z.evaluate({k: near[k] for k in ("f", "self", "args", "kwargs")})
                if kind == "harness":
                    raise RuntimeError("pristine-process oracle failed: %s" % val)
                if kind != "exc" and val != nres:
                    raise Violation("%s for a neighbouring instant (Epoch arguments moved by %g day), asked "
                                    "right after the call above, returned %r; a pristine process returns %r"
                                    % (site, moved, nres, val), site=site, kind="history_dependent")
                labels.append("neighbouring_instant_compared_with_pristine_process")
    warm = case.get("warm")
    if warm is not None:
        _check_reuse(case, warm, spec, site, r1)
        labels.append("reuse:" + site.split(".")[0])
    check_module_state(site)
    nontrivial = obj is not None or any(isinstance(a, MUTABLE) for a in args)
    return {"labels": labels, "nontrivial": nontrivial}


def _reload(dst, src_enc, src_obj):
    """Give the already used object `dst` the value of `src_obj` through the public
    mutators; returns False when the class has no such mutator."""
    if isinstance(dst, Angle) and isinstance(src_obj, Angle):
        dst.set(src_obj)
        dst.set_tolerance(src_obj.get_tolerance())
        return True
    if isinstance(dst, Epoch) and isinstance(src_obj, Epoch):
        dst.set(src_obj)
        return True
    if type(dst).__name__ == "Earth" and type(src_obj).__name__ == "Earth" \
            and isinstance(src_enc, dict) and "$o" in src_enc:
        if src_enc["a"]:
            dst.set(dec(src_enc["a"][0]))
        else:
            dst.set(dec({"$tbl": "Earth.WGS84"}))
        return True
    if isinstance(dst, (Interpolation, CurveFitting)) and type(dst) is type(src_obj) \
            and isinstance(src_enc, dict) and "$o" in src_enc:
        dst.set(*[dec(a) for a in src_enc["a"]])
        if isinstance(dst, Interpolation):
            dst.set_tolerance(src_obj.get_tolerance())
        return True
    return False


def _check_reuse(case, warm, spec, site, r_fresh):
    """Metamorphic relation: objects that were already used in another call and then
    re-loaded through set() with the values of this case behave like fresh objects."""
    try:
        wobj, wargs, wkwargs, wthunk = _invoke(warm)
    except Exception:
        return
    try:
        wthunk()
    except Exception:
        pass
    # mode B: the very same object the warm call was made on, not re-loaded, with the argument
    # objects of the warm call changed in place to the values of this case (a cache kept on
    # `self` and keyed on the identity of an argument shows here)
    if wobj is not None and case.get("self") == warm.get("self"):
        obj_b, args_b, kwargs_b, _ = _invoke(case)
        use_b = list(args_b)
        nb = 0
        for i, a in enumerate(args_b):
            if i < len(wargs) and _reload(wargs[i], case["args"][i], a):
                use_b[i] = wargs[i]
                nb += 1
        if nb:
            try:
                res_b = getattr(wobj, site.split(".")[-1])(*use_b, **kwargs_b)
            except Exception as e:
                raise Violation("%s raised %s: %s when called again on the same object with argument objects "
                                "that were changed in place" % (site, type(e).__name__, e), site=site,
                                kind="reuse_differs")
            if freeze(res_b) != r_fresh and not (res_b is wobj):
                raise Violation("%s returned %r when called again on the same object with argument objects that "
                                "were changed in place, but %r with fresh objects of the same value"
                                % (site, res_b, r_fresh), site=site, kind="reuse_differs")
        wobj, wargs, wkwargs, wthunk = _invoke(warm)
        try:
            wthunk()
        except Exception:
            pass
    obj, args, kwargs, _ = _invoke(case)
    reused = 0
    use_self = obj
    if obj is not None and wobj is not None and _reload(wobj, case["self"], obj):
        use_self = wobj
        reused += 1
    use_args = list(args)
    for i, a in enumerate(args):
        if i < len(wargs) and _reload(wargs[i], case["args"][i], a):
            use_args[i] = wargs[i]
            reused += 1
    if not reused:
        return
    try:
        if use_self is not None:
            res = getattr(use_self, site.split(".")[-1])(*use_args, **kwargs)
        else:
            res = spec.resolve()(*use_args, **kwargs)
    except Exception as e:
        raise Violation("%s raised %s: %s when called with objects that had been used before and "
                        "re-loaded through set(); the same call with fresh objects succeeds"
                        % (site, type(e).__name__, e), site=site, kind="reuse_differs")
    if freeze(res) != r_fresh and not (res is use_self):
        raise Violation("%s returned %r with objects that had been used before and re-loaded through "
                        "set(), but %r with fresh objects of the same value" % (site, res, r_fresh),
                        site=site, kind="reuse_differs")


_SIB = {}


_DELTAS = [1e-9, 1e-7, 3e-6, 8e-6, 1e-4]


def _neighbour(case):
    """A copy of the case in which every encoded Epoch ({"$E": jde}, {"$o": "Epoch", "a": [jde]}) is
    moved by one small step; returns (case, step) with step 0 when the case holds no Epoch."""
    import copy
    from ..core import case_hash
    step = _DELTAS[case_hash([case["f"], case.get("args")]) % len(_DELTAS)]
    moved = [0]

    def walk(v):
        if isinstance(v, dict):
            if "$E" in v and isinstance(v["$E"], (int, float)):
                moved[0] += 1
                return {"$E": float(v["$E"]) + step}
            if v.get("$o") == "Epoch" and len(v.get("a", [])) == 1 and isinstance(v["a"][0], (int, float)):
                moved[0] += 1
                return {"$o": "Epoch", "a": [float(v["a"][0]) + step]}
            return {k: walk(x) for k, x in v.items()}
        if isinstance(v, list):
            return [walk(x) for x in v]
        return v
    near = copy.deepcopy({k: case.get(k) for k in ("f", "self", "args", "kwargs")})
    near["args"] = walk(near["args"])
    near["self"] = walk(near["self"])
    near["kwargs"] = walk(near.get("kwargs") or {})
    return near, (step if moved[0] else 0)


def _call_siblings(case):
    for sib in _siblings(case["f"], case.get("sib", 0) // 2):
        try:
            sobj, sargs, skw, _ = _invoke(case)
            if sobj is not None:
                getattr(sobj, sib.qual.split(".")[-1])(*sargs, **skw)
            else:
                sib.resolve()(*sargs, **skw)
        except Exception:
            pass



def _siblings(qual, pick):
    """Up to two other non-mutating registry callables with the same owner and the same number of
    parameters (chosen by `pick`)."""
    if not _SIB:
        for sp in API_BY_QUAL.values():
            if sp.mutator or sp.qual.split(".")[-1].startswith("__"):
                continue
            owner = sp.qual.rsplit(".", 1)[0]
            _SIB.setdefault((owner, len(sp.params), sp.self_st is not None), []).append(sp)
    sp = API_BY_QUAL.get(qual)
    if sp is None or sp.mutator:
        return []
    group = [g for g in _SIB.get((qual.rsplit(".", 1)[0], len(sp.params), sp.self_st is not None), [])
             if g.qual != qual]
    if not group:
        return []
    group.sort(key=lambda g: g.qual)
    k = pick % len(group)
    return [group[k], group[(k + 1) % len(group)]][:min(2, len(group))]


def _scribble(o, depth=0):
    if isinstance(o, Angle):
        o.set(123.456)
    elif isinstance(o, Epoch):
        o.set(2451545.0)
    elif isinstance(o, list) and depth < 3:
        for x in o:
            _scribble(x, depth + 1)
        if o and isinstance(o[0], (int, float)) and not isinstance(o[0], bool):
            o[0] = -999.0
    elif isinstance(o, tuple) and depth < 3:
        for x in o:
            _scribble(x, depth + 1)


def _self_returning(res, obj, res2, obj2):
    return res is obj and res2 is obj2 and freeze(obj) == freeze(obj2)


# ------------------------------------------------------------------- ill-typed clause

BAD = {"none": None, "str": "x", "complex": 1j, "list": [1.0]}


def body_illtyped(case):
    base = case["base"]
    spec = API[case["key"]]
    site = base["f"]
    pos = case["pos"]
    bad = BAD[case["bad"]]
    obj, args, kwargs, _ = _invoke(base)
    if pos >= len(args):
        return {"labels": ["skipped:short"]}
    args = list(args)
    args[pos] = bad
    if obj is not None:
        fn = getattr(obj, site.split(".")[-1])
    else:
        fn = spec.resolve()
    try:
        res = fn(*args, **kwargs)
    except (TypeError, ValueError):
        return {"labels": ["rejected:" + case["bad"]], "nontrivial": True}
    except Exception as e:
        raise Violation("%s with %s at position %d raised %s: %s (TypeError or ValueError documented)"
                        % (site, case["bad"], pos, type(e).__name__, e), site=site,
                        kind="exception:" + type(e).__name__, pos=pos, bad=case["bad"])
    fl = floats_in(res)
    returns_none = spec.mutator or ":returns: None" in spec.doc() or ":rtype: None" in spec.doc()
    if (res is None and not returns_none) or any(math.isnan(x) for x in fl):
        raise Violation("%s with %s at position %d silently returned %r" % (site, case["bad"], pos, res),
                        site=site, kind="silent_non_value", pos=pos, bad=case["bad"])
    return {"labels": ["accepted_by_duck_typing:" + case["bad"]], "nontrivial": True,
            "refused": "accepted %s at %s[%d]" % (case["bad"], site, pos)}


# ------------------------------------------------------------------- history clause

def _fresh_memo():
    return {}


PURE_ANGLE_FUNCS = ["angular_separation", "relative_position_angle", "equatorial2ecliptical",
                    "ecliptical2equatorial", "equatorial2galactic", "galactic2equatorial",
                    "kepler_equation"]
PURE_EPOCH_FUNCS = ["mean_obliquity", "true_obliquity", "nutation_longitude", "Sun.apparent",
                    "Sun.geometric", "Moon.ecl", "Moon.phase", "Venus.geocentric", "Jupiter.geocentric",
                    "Earth.helio", "Mars.helio", "Sun.eot", "Sun.rect", "precession", "mst", "get_date",
                    "year", "dow", "Mercury.inferior", "Saturn.opposition", "Earth.perihelion",
                    "Moon.perigee", "sub_epochs", "Minor.geocentric"]


def _lat(a):
    """An Angle usable as a latitude built from the pooled Angle's value (new object)."""
    return Angle(max(-89.0, min(89.0, a() / 4.0)))


def _call_pure(name, A, E, i, j, k):
    """Returns (args_objects, thunk).  The args are the pooled objects themselves."""
    import pymeeus.Sun as Sun
    import pymeeus.Moon as Moon
    import pymeeus.Venus as Venus
    import pymeeus.Jupiter as Jupiter
    import pymeeus.Earth as Earth
    import pymeeus.Mars as Mars
    import pymeeus.Mercury as Mercury
    import pymeeus.Saturn as Saturn
    import pymeeus.Minor as Minor
    a = A[i % len(A)]
    b = A[j % len(A)]
    c = A[k % len(A)]
    e = E[i % len(E)]
    e2 = E[j % len(E)]
    if name == "angular_separation":
        return lambda: Co.angular_separation(a, _lat(b), c, _lat(a))
    if name == "relative_position_angle":
        return lambda: Co.relative_position_angle(a, _lat(b), c, _lat(c))
    if name == "equatorial2ecliptical":
        return lambda: Co.equatorial2ecliptical(a, _lat(b), Angle(23.44))
    if name == "ecliptical2equatorial":
        return lambda: Co.ecliptical2equatorial(a, _lat(b), Angle(23.44))
    if name == "equatorial2galactic":
        return lambda: Co.equatorial2galactic(a, _lat(b))
    if name == "galactic2equatorial":
        return lambda: Co.galactic2equatorial(a, _lat(b))
    if name == "kepler_equation":
        return lambda: Co.kepler_equation(0.3, a)
    if name == "mean_obliquity":
        return lambda: Co.mean_obliquity(e)
    if name == "true_obliquity":
        return lambda: Co.true_obliquity(e)
    if name == "nutation_longitude":
        return lambda: Co.nutation_longitude(e)
    if name == "Sun.apparent":
        return lambda: Sun.Sun.apparent_geocentric_position(e)
    if name == "Sun.geometric":
        return lambda: Sun.Sun.geometric_geocentric_position(e)
    if name == "Sun.eot":
        return lambda: Sun.Sun.equation_of_time(e)
    if name == "Sun.rect":
        return lambda: Sun.Sun.rectangular_coordinates_equinox(e, e2)
    if name == "Moon.ecl":
        return lambda: Moon.Moon.geocentric_ecliptical_pos(e)
    if name == "Moon.phase":
        return lambda: Moon.Moon.moon_phase(e, "full")
    if name == "Moon.perigee":
        return lambda: Moon.Moon.moon_perigee_apogee(e, "apogee")
    if name == "Venus.geocentric":
        return lambda: Venus.Venus.geocentric_position(e)
    if name == "Jupiter.geocentric":
        return lambda: Jupiter.Jupiter.geocentric_position(e)
    if name == "Earth.helio":
        return lambda: Earth.Earth.geometric_heliocentric_position(e)
    if name == "Mars.helio":
        return lambda: Mars.Mars.apparent_heliocentric_position(e)
    if name == "Mercury.inferior":
        return lambda: Mercury.Mercury.inferior_conjunction(e)
    if name == "Saturn.opposition":
        return lambda: Saturn.Saturn.opposition(e)
    if name == "Earth.perihelion":
        return lambda: Earth.Earth.perihelion_aphelion(e)
    if name == "precession":
        return lambda: Co.precession_equatorial(e, e2, a, _lat(b), Angle(0.0001), Angle(-0.0001))
    if name == "mst":
        return lambda: e.mean_sidereal_time()
    if name == "get_date":
        return lambda: e.get_full_date()
    if name == "year":
        return lambda: e.year()
    if name == "dow":
        return lambda: e.dow()
    if name == "sub_epochs":
        return lambda: e - e2
    if name == "Minor.geocentric":
        return lambda: Minor.Minor(2.0, 0.5, Angle(10.0), a, b, e2).geocentric_position(e)
    raise AssertionError(name)


def body_history(case):
    steps = case["steps"]
    A = [Angle(x) for x in case["angles"]]
    sA = [a() for a in A]
    E = [Epoch(j) for j in case["epochs"]]
    sE = [e.jde() for e in E]
    for e0, j0 in zip(sE, case["epochs"]):
        if abs(e0 - j0) > 1e-8:
            raise Violation("Epoch(%r).jde() = %r" % (j0, e0), site="history:init", kind="wrong_value")
    xs, ys = case["table"]
    IP = [Interpolation(list(xs), list(ys))]
    sIP = [(list(xs), list(ys))]
    CF = []
    ghosts = []          # (object, frozen) objects that were replaced in a pool: must stay as they were
    memo = {}
    check_module_state("startup")
    nmut = 0
    ncopy = 0
    labels = {}

    def lab(k):
        labels[k] = labels.get(k, 0) + 1

    def invariant(step_no, step):
        for idx, (a, s) in enumerate(zip(A, sA)):
            if a() != s:
                raise Violation("after step %d (%s) pooled Angle #%d holds %r, model says %r"
                                % (step_no, step["op"], idx, a(), s), site="history:" + step["op"],
                                kind="shared_or_mutated_state", step=step_no)
        for idx, (e, s) in enumerate(zip(E, sE)):
            if e.jde() != s:
                raise Violation("after step %d (%s) pooled Epoch #%d holds %r, model says %r"
                                % (step_no, step["op"], idx, e.jde(), s), site="history:" + step["op"],
                                kind="shared_or_mutated_state", step=step_no)
        for idx, (ip, s) in enumerate(zip(IP, sIP)):
            fresh = Interpolation(list(s[0]), list(s[1]))
            lo, hi = min(s[0]), max(s[0])
            pts = [lo + (hi - lo) * u for u in (0.0, 0.137, 0.5, 0.861, 1.0)]
            got = (repr(ip), len(ip), [ip(u) for u in pts], [ip.derivative(u) for u in pts])
            want = (repr(fresh), len(fresh), [fresh(u) for u in pts], [fresh.derivative(u) for u in pts])
            if got != want:
                raise Violation("after step %d (%s) pooled Interpolation #%d behaves like %r, a fresh object "
                                "with its table behaves like %r" % (step_no, step["op"], idx, got, want),
                                site="history:" + step["op"], kind="shared_or_mutated_state", step=step_no)
        # observational equivalence with fresh objects of the same value (every view: a view that
        # caches, or a mutator that forgets to invalidate, shows here)
        for idx, (a, sv) in enumerate(zip(A, sA)):
            f = Angle(sv)
            f.set_tolerance(a.get_tolerance())
            got = (a.rad(), a.get_ra(), a.dms_tuple(), a.ra_tuple(), float(a), int(a), str(a),
                   a.dms_str(n_dec=3), a.ra_str(False, 2))
            want = (f.rad(), f.get_ra(), f.dms_tuple(), f.ra_tuple(), float(f), int(f), str(f),
                    f.dms_str(n_dec=3), f.ra_str(False, 2))
            if got != want:
                raise Violation("after step %d (%s) pooled Angle #%d (value %r) shows views %r, a fresh "
                                "Angle of the same value shows %r" % (step_no, step["op"], idx, sv, got, want),
                                site="history:" + step["op"], kind="history_dependent", step=step_no)
        for idx, (e, sv) in enumerate(zip(E, sE)):
            f = Epoch(sv)
            # an option query first: it must leave nothing behind for the plain queries
            if (step_no + idx) % 2 == 0:
                e.get_date(utc=True), e.get_full_date(utc=True), e.get_date(leap_seconds=20.0)
            got = (e.jde(), e.get_full_date(), e.mjd(), e.dow(), e.mean_sidereal_time(), e.year(), e.doy(),
                   e.leap(), e.julian(), str(e))
            want = (f.jde(), f.get_full_date(), f.mjd(), f.dow(), f.mean_sidereal_time(), f.year(), f.doy(),
                    f.leap(), f.julian(), str(f))
            if got != want:
                raise Violation("after step %d (%s) pooled Epoch #%d (JDE %r) shows views %r, a fresh "
                                "Epoch of the same value shows %r" % (step_no, step["op"], idx, sv, got, want),
                                site="history:" + step["op"], kind="history_dependent", step=step_no)
        for g, fz in ghosts:
            if freeze(g) != fz:
                raise Violation("after step %d (%s) an object replaced earlier changed from %r to %r"
                                % (step_no, step["op"], fz, freeze(g)), site="history:" + step["op"],
                                kind="shared_or_mutated_state", step=step_no)

    def epoch_shadow(e, intended, n, op):
        # an Epoch re-derives its JDE from the calendar date (C02 allows 1e-8 day); the
        # shadow is what the object holds right after the mutator, checked against the intent
        got = e.jde()
        if abs(got - intended) > 1e-8:
            raise Violation("step %d (%s): Epoch holds %r, intended %r" % (n, op, got, intended),
                            site="history:" + op, kind="wrong_value", step=n)
        return got

    for n, step in enumerate(steps):
        op = step["op"]
        i, j, k = step.get("i", 0), step.get("j", 0), step.get("k", 0)
        x = step.get("x", 0.0)
        lab(op)
        if op == "new_angle":
            A.append(Angle(x))
            sA.append(Angle.reduce_deg(x))
        elif op == "copy_angle":
            src = A[i % len(A)]
            A.append(Angle(src))
            sA.append(sA[i % len(A) if False else (i % (len(A) - 1))])
            ncopy += 1
        elif op == "copy_epoch":
            src = E[i % len(E)]
            E.append(Epoch(src))
            sE.append(epoch_shadow(E[-1], sE[i % (len(E) - 1)], n, op))
            ncopy += 1
        elif op == "new_epoch":
            E.append(Epoch(step["jde"]))
            sE.append(epoch_shadow(E[-1], step["jde"], n, op))
        elif op == "angle_to_positive":
            ii = i % len(A)
            A[ii].to_positive()
            v = sA[ii]
            sA[ii] = (360.0 - abs(v)) % 360.0 if v < 0 else v
            nmut += 1
        elif op == "angle_set":
            ii = i % len(A)
            A[ii].set(x)
            sA[ii] = Angle.reduce_deg(x)
            nmut += 1
        elif op == "angle_set_from":
            ii, jj = i % len(A), j % len(A)
            A[ii].set(A[jj])
            sA[ii] = sA[jj]
            nmut += 1
            ncopy += 1
        elif op == "angle_set_tolerance":
            A[i % len(A)].set_tolerance(1e-7)
            nmut += 1
        elif op == "angle_iop":
            ii = i % len(A)
            old = A[ii]
            ghosts.append((old, freeze(old)))
            a = A[ii]
            kind = step.get("kind", "add")
            if kind == "add":
                a += A[j % len(A)]
                sA[ii] = (Angle(sA[ii]) + Angle(sA[j % len(A)]))()
            elif kind == "sub":
                a -= x
                sA[ii] = (Angle(sA[ii]) - x)()
            else:
                a *= 2
                sA[ii] = (Angle(sA[ii]) * 2)()
            A[ii] = a
            nmut += 1
        elif op == "epoch_iop":
            ii = i % len(E)
            old = E[ii]
            ghosts.append((old, freeze(old)))
            e = E[ii]
            d = step.get("days", 1.0)
            e += d
            E[ii] = e
            sE[ii] = epoch_shadow(e, sE[ii] + d, n, op)
            nmut += 1
        elif op == "epoch_set":
            ii = i % len(E)
            E[ii].set(step["jde"])
            sE[ii] = epoch_shadow(E[ii], step["jde"], n, op)
            nmut += 1
        elif op == "epoch_set_from":
            ii, jj = i % len(E), j % len(E)
            E[ii].set(E[jj])
            sE[ii] = epoch_shadow(E[ii], sE[jj], n, op)
            nmut += 1
            ncopy += 1
        elif op == "interp_call":
            ip = IP[0]
            lo, hi = min(sIP[0][0]), max(sIP[0][0])
            u = lo + (hi - lo) * (abs(x) % 1.0)
            key = ("interp", freeze(sIP[0]), repr(u), step.get("d", False))
            r = ip.derivative(u) if step.get("d") else ip(u)
            if key in memo and memo[key] != freeze(r):
                raise Violation("Interpolation call returned %r then %r for equal arguments" % (memo[key], r),
                                site="history:interp_call", kind="repeat_differs", step=n)
            memo[key] = freeze(r)
        elif op == "interp_solve":
            ip = IP[0]
            fresh = Interpolation(list(sIP[0][0]), list(sIP[0][1]))
            outs = []
            for o in (ip, fresh):
                try:
                    outs.append(freeze(o.minmax() if step.get("d") else o.root()))
                except ValueError as ex:
                    outs.append(("ValueError", str(ex)))
            if outs[0] != outs[1]:
                raise Violation("Interpolation.%s() returned %r on an object with a history but %r on a fresh "
                                "object with the same table" % ("minmax" if step.get("d") else "root", outs[0], outs[1]),
                                site="history:interp_solve", kind="history_dependent", step=n)
        elif op == "interp_set":
            w = step.get("i", 0) % len(IP)
            xs2 = [v + 0.5 for v in sIP[w][0]]
            ys2 = [v * v - x for v, x in zip(sIP[w][1], xs2)] if step.get("d") else [v + 1.0 for v in sIP[w][1]]
            IP[w].set(xs2, list(ys2))
            sIP[w] = (xs2, list(ys2))
            nmut += 1
        elif op == "interp_copy":
            IP.append(Interpolation(IP[0]))
            sIP.append((list(sIP[0][0]), list(sIP[0][1])))
            IP[0], IP[-1] = IP[-1], IP[0]
            sIP[0], sIP[-1] = sIP[-1], sIP[0]
            ncopy += 1
        elif op == "fit":
            # a pooled CurveFitting object is re-loaded through set() (after having been used
            # on other, possibly degenerate, data) and compared with a fresh one
            if not CF:
                CF.append(CurveFitting([1.0, 1.0, 1.0], [1.0, 2.0, 4.0]))
                try:
                    CF[0].quadratic_fitting()
                except ZeroDivisionError:
                    pass
            CF[0].set(list(sIP[0][0]), list(sIP[0][1]))
            fresh = CurveFitting(list(sIP[0][0]), list(sIP[0][1]))
            outs = []
            for cf in (CF[0], fresh):
                try:
                    outs.append(freeze((cf.linear_fitting(), cf.quadratic_fitting(), cf.correlation_coeff())))
                except ZeroDivisionError:
                    outs.append("zerodiv")
            if step.get("d"):
                CF[0].set([2.0, 2.0, 3.0], [1.0, 2.0, 4.0])
                try:
                    CF[0].quadratic_fitting()
                except ZeroDivisionError:
                    pass
            if outs[0] != outs[1]:
                raise Violation("CurveFitting fits returned %r on an object re-loaded through set() but %r on a "
                                "fresh object with the same data" % (outs[0], outs[1]),
                                site="history:fit", kind="history_dependent", step=n)
            key = ("fit", freeze(sIP[0]))
            r = outs[1]
            if key in memo and memo[key] != r:
                raise Violation("CurveFitting returned different results for equal data",
                                site="history:fit", kind="repeat_differs", step=n)
            memo[key] = r
        elif op == "pure":
            name = step["fn"]
            thunk = _call_pure(name, A, E, i, j, k)
            key = (name, repr(sA[i % len(A)]), repr(sA[j % len(A)]), repr(sA[k % len(A)]),
                   repr(sE[i % len(E)]), repr(sE[j % len(E)]))
            try:
                r = freeze(thunk())
            except ValueError as ex:
                r = ("ValueError", str(ex))
            # the same call on fresh objects holding the same values
            fA = [Angle(v) for v in sA]
            for fa, a in zip(fA, A):
                fa.set_tolerance(a.get_tolerance())
            fE = [Epoch(v) for v in sE]
            try:
                rf = freeze(_call_pure(name, fA, fE, i, j, k)())
            except ValueError as ex:
                rf = ("ValueError", str(ex))
            if rf != r:
                raise Violation("%s returned %r on objects with a history (copied / re-set / operated on) "
                                "but %r on fresh objects holding the same values" % (name, r, rf),
                                site="history:" + name, kind="history_dependent", step=n)
            if key in memo and memo[key] != r:
                raise Violation("%s returned %r earlier in the history and %r now for equal arguments"
                                % (name, memo[key], r), site="history:" + name, kind="repeat_differs", step=n)
            memo[key] = r
        else:
            raise AssertionError(op)
        invariant(n, step)
    check_module_state("history")
    return {"labels": labels, "n": len(steps), "nt": 1 if (nmut or ncopy) else 0,
            "show": {"steps": len(steps), "mutators": nmut, "copies": ncopy}}


# ------------------------------------------------------------------- out-of-range clause

def _oor_table():
    from pymeeus.Pluto import Pluto
    from pymeeus.Sun import Sun
    from pymeeus.Moon import Moon
    import pymeeus.Mercury as Me
    import pymeeus.Venus as Ve
    import pymeeus.Mars as Ma
    import pymeeus.Jupiter as Ju
    import pymeeus.Saturn as Sa
    import pymeeus.Uranus as Ur
    import pymeeus.Neptune as Ne

    def ep_year(y):
        return Epoch(2451545.0 + (y - 2000.0) * 365.25)
    t = {
        # documented: "No negative JDE will be allowed" / ValueError on wrong ranges
        "epoch_year_low": lambda u: Epoch(int(-4713 - u), 1, 1),
        "epoch_month_high": lambda u: Epoch(2000, int(13 + u), 1),
        "epoch_month_zero": lambda u: Epoch(2000, -int(u), 1),
        "epoch_day_high": lambda u: Epoch(2000, 1, 32 + u),
        "epoch_day_low": lambda u: Epoch(2000, 1, 0.999 - u),
        "epoch_feb30": lambda u: Epoch(2001 + int(u) * 4, 2, 29),
        "epoch_hours": lambda u: Epoch(2000, 1, 1, 24 + u),
        "epoch_minutes": lambda u: Epoch(2000, 1, 1, 0, 60 + u),
        "epoch_seconds": lambda u: Epoch(2000, 1, 1, 0, 0, 60 + u),
        "epoch_month_name": lambda u: Epoch(2000, "Foo" + "o" * int(u), 1),
        "epoch_too_few": lambda u: Epoch(2000, 1),
        "get_month_high": lambda u: Epoch.get_month(13 + int(u)),
        "get_doy_feb30": lambda u: Epoch.get_doy(2001, 2, 30 + int(u) % 2),
        "get_doy_month13": lambda u: Epoch.get_doy(2001, 13 + int(u), 3),
        "doy2date_high": lambda u: Epoch.doy2date(2001, 366 + u),
        "doy2date_low": lambda u: Epoch.doy2date(2001, 0.999 - u),
        "moslem_month13": lambda u: Epoch.moslem2gregorian(1400, 13 + int(u), 1),
        "pluto_high": lambda u: Pluto.geocentric_position(ep_year(2100.1 + u)),
        "pluto_low": lambda u: Pluto.geometric_heliocentric_position(ep_year(1884.9 - u)),
        "equinox_year_high": lambda u: Sun.get_equinox_solstice(3001 + int(u), "spring"),
        "equinox_year_low": lambda u: Sun.get_equinox_solstice(-1001 - int(u), "winter"),
        "equinox_target": lambda u: Sun.get_equinox_solstice(2000, "foo"),
        "moon_phase_target": lambda u: Moon.moon_phase(ep_year(2000 + u), "foo"),
        "moon_perigee_target": lambda u: Moon.moon_perigee_apogee(ep_year(2000 + u), "foo"),
        "moon_nodes_target": lambda u: Moon.moon_passage_nodes(ep_year(2000 + u), "foo"),
        "moon_decl_target": lambda u: Moon.moon_maximum_declination(ep_year(2000 + u), "foo"),
        "rise_set_lat": lambda u: Epoch(2000, 6, 1).rise_set(Angle(min(89.9, 66.6 + u)), Angle(0.0)),
        "rise_set_lat_south": lambda u: Epoch(2000, 6, 1).rise_set(Angle(max(-89.9, -66.6 - u)), Angle(0.0)),
        "interp_outside": lambda u: Interpolation([1, 2, 3], [1, 4, 9])(3.001 + u),
        "interp_outside_low": lambda u: Interpolation([1, 2, 3], [1, 4, 9]).derivative(0.999 - u),
        "interp_duplicate": lambda u: Interpolation([1, 1, 3 + u], [1, 4, 9]),
        # wrong arity (too few values for a date / an angle, missing or extra positional arguments):
        # TypeError or ValueError.  (Unequal x/y lists and an odd flat sequence for Interpolation /
        # CurveFitting are *not* here: the code deliberately trims them, see its comments.)
        "arity_obliquity_tuple2": lambda u: Co.mean_obliquity((1987, 4)),
        "arity_obliquity_tuple1": lambda u: Co.true_obliquity((2000.0 + int(u),)),
        "arity_obliquity_tuple0": lambda u: Co.true_obliquity(()),
        "arity_nutation_list2": lambda u: Co.nutation_longitude([2000, "Jan"]),
        "arity_nutation_two_args": lambda u: Co.nutation_obliquity(2000, 1),
        "arity_check_input_date_tuple2": lambda u: Epoch.check_input_date((2000, 1)),
        "arity_check_input_date_list1": lambda u: Epoch.check_input_date([2000 + int(u)]),
        "arity_epoch_tuple2": lambda u: Epoch((2000, 1)),
        "arity_epoch_list1": lambda u: Epoch([2000]),
        "arity_epoch_set_two": lambda u: Epoch(2451545.0).set(2000, 1),
        "arity_angle_empty_list": lambda u: Angle([]),
        "arity_angle_empty_tuple": lambda u: Angle(()),
        "arity_missing_positional": lambda u: Co.angular_separation(Angle(1.0), Angle(2.0), Angle(3.0 + u)),
        "arity_extra_positional": lambda u: Co.kepler_equation(0.1, Angle(5.0), u),
        "kepler_e_one": lambda u: Co.kepler_equation(1.0 + u, Angle(10.0)),
        "kepler_e_negative": lambda u: Co.kepler_equation(-0.001 - u, Angle(10.0)),
    }
    finders = []
    for mod_, cls, names in ((Me, "Mercury", ("inferior_conjunction", "superior_conjunction", "western_elongation",
                                                "eastern_elongation", "station_longitude_1", "station_longitude_2")),
                             (Ve, "Venus", ("inferior_conjunction", "superior_conjunction", "western_elongation",
                                            "eastern_elongation", "station_longitude_1", "station_longitude_2")),
                             (Ma, "Mars", ("conjunction", "opposition", "station_longitude_1", "station_longitude_2")),
                             (Ju, "Jupiter", ("conjunction", "opposition", "station_longitude_1", "station_longitude_2")),
                             (Sa, "Saturn", ("conjunction", "opposition", "station_longitude_1", "station_longitude_2")),
                             (Ur, "Uranus", ("conjunction", "opposition")),
                             (Ne, "Neptune", ("conjunction", "opposition"))):
        for n in names:
            f = getattr(getattr(mod_, cls), n)
            t["%s.%s:high" % (cls, n)] = (lambda f: lambda u: f(ep_year(4001.0 + u)))(f)
            t["%s.%s:low" % (cls, n)] = (lambda f: lambda u: f(ep_year(-2001.0 - u)))(f)
    return t


OOR = _oor_table()


def body_outofrange(case):
    kind = case["kind"]
    u = case["u"]
    try:
        res = OOR[kind](u)
    except (ValueError, TypeError):
        return {"labels": ["rejected:" + kind.split(":")[0]], "nontrivial": True}
    except Exception as e:
        raise Violation("out-of-range argument (%s, u=%r) raised %s: %s; ValueError/TypeError is documented"
                        % (kind, u, type(e).__name__, e), site=kind, kind="exception:" + type(e).__name__)
    raise Violation("out-of-range argument (%s, u=%r) was silently accepted and returned %r although the "
                    "docstring documents a ValueError" % (kind, u, res), site=kind, kind="silently_accepted")


CLAUSES = {"call": body_call, "illtyped": body_illtyped, "history": body_history,
           "outofrange": body_outofrange}

API_BY_QUAL = {}
for _k, _s in API.items():
    API_BY_QUAL.setdefault(_s.qual, _s)


# ------------------------------------------------------------------- strategies

def call_cases(keys):
    def one(key):
        return API[key].case_strategy().map(lambda c: dict(c, key=key))
    def one_warm(key):
        sp = API[key]
        cs = sp.case_strategy()
        if key.startswith("CurveFitting.CurveFitting.") and sp.self_st is not None:
            cs = st.builds(lambda c, w: dict(c, self=w), cs, api.WARM_FIT)
        return cs.map(lambda c: dict(c, key=key))
    def with_warm(c, w, same_self):
        if w is not None and same_self and c.get("self") is not None:
            w = dict(w, self=c["self"])
        return dict(c, warm=w)
    base = st.sampled_from(keys).flatmap(
        lambda key: st.builds(with_warm, one(key), st.one_of(st.none(), one_warm(key)), st.booleans()))
    other = st.one_of(st.none(), st.sampled_from(sorted(API)).flatmap(one))
    return st.builds(lambda c, o, k: dict(c, other=o, sib=k), base, other, st.integers(0, 40))


def illtyped_cases(keys):
    def one(key):
        return st.builds(lambda c, pos, bad: {"key": key, "base": c, "pos": pos, "bad": bad},
                         API[key].case_strategy(), st.integers(0, 11), st.sampled_from(sorted(BAD)))
    return st.sampled_from(keys).flatmap(one)


def illtyped_keys():
    """Callables whose docstring documents :raises: and, per position, which bad kinds are
    really ill-typed (documented types do not include them)."""
    out = []
    for key in sorted(API):
        spec = API[key]
        if spec.qual.split(".")[-1].startswith("__"):
            continue
        types, has_raises = api.param_types(spec)
        if has_raises:
            out.append(key)
    return out


def _bad_is_illtyped(spec, pos, bad):
    import inspect
    f = spec.resolve()
    if inspect.isclass(f):
        f = f.__init__
    try:
        params = [p for p in inspect.signature(f).parameters.values() if p.name != "self"]
    except (TypeError, ValueError):
        return False
    if pos >= len(params):
        if params and params[-1].kind == params[-1].VAR_POSITIONAL:
            p = params[-1]
        else:
            return False
    else:
        p = params[pos]
    types, _ = api.param_types(spec)
    t = types.get(p.name, "")
    if not t:
        return False           # undocumented type: nothing is asserted
    t = t.lower()
    if bad == "str" and "str" in t:
        return False
    if bad == "list" and ("list" in t or "tuple" in t):
        return False
    if bad == "none" and (p.default is None):
        return False
    return True


def history_cases():
    angle = st.one_of(st.floats(-359.9, 359.9), st.sampled_from([0.0, -1e-20, 180.0, -90.0, 359.99999999999994]))
    jde = st.one_of(st.floats(1000000.0, 3100000.0), st.floats(2415020.0, 2488070.0))
    idx = st.integers(0, 7)
    step = st.one_of(
        st.builds(lambda x: {"op": "new_angle", "x": x}, angle),
        st.builds(lambda i: {"op": "copy_angle", "i": i}, idx),
        st.builds(lambda i: {"op": "copy_epoch", "i": i}, idx),
        st.builds(lambda j: {"op": "new_epoch", "jde": j}, jde),
        st.builds(lambda i: {"op": "angle_to_positive", "i": i}, idx),
        st.builds(lambda i, x: {"op": "angle_set", "i": i, "x": x}, idx, angle),
        st.builds(lambda i, j: {"op": "angle_set_from", "i": i, "j": j}, idx, idx),
        st.builds(lambda i: {"op": "angle_set_tolerance", "i": i}, idx),
        st.builds(lambda i, j, x, k: {"op": "angle_iop", "i": i, "j": j, "x": x, "kind": k}, idx, idx,
                  st.floats(-500, 500), st.sampled_from(["add", "sub", "mul"])),
        st.builds(lambda i, d: {"op": "epoch_iop", "i": i, "days": d}, idx, st.floats(-1000, 1000)),
        st.builds(lambda i, j: {"op": "epoch_set", "i": i, "jde": j}, idx, jde),
        st.builds(lambda i, j: {"op": "epoch_set_from", "i": i, "j": j}, idx, idx),
        st.builds(lambda x, d: {"op": "interp_call", "x": x, "d": d}, st.floats(0, 1), st.booleans()),
        st.builds(lambda d, i: {"op": "interp_set", "d": d, "i": i}, st.booleans(), idx), st.just({"op": "interp_copy"}),
        st.builds(lambda d: {"op": "fit", "d": d}, st.booleans()),
        st.builds(lambda d: {"op": "interp_solve", "d": d}, st.booleans()),
        st.builds(lambda f, i, j, k: {"op": "pure", "fn": f, "i": i, "j": j, "k": k},
                  st.sampled_from(PURE_ANGLE_FUNCS + PURE_EPOCH_FUNCS), idx, idx, idx),
        st.builds(lambda f, i, j, k: {"op": "pure", "fn": f, "i": i, "j": j, "k": k},
                  st.sampled_from(PURE_EPOCH_FUNCS), idx, idx, idx),
    )
    table = st.builds(lambda x0, ys: [[x0 + 1.0 * t for t in range(5)], ys], st.floats(-5, 5),
                      st.lists(st.floats(-10, 10), min_size=5, max_size=5))
    return st.builds(lambda a, e, t, s: {"angles": a, "epochs": e, "table": t, "steps": s},
                     st.lists(angle, min_size=2, max_size=4), st.lists(jde, min_size=2, max_size=3),
                     table, st.lists(step, min_size=5, max_size=40))


# ------------------------------------------------------------------- tasks

def tasks(tier, seed):
    mult = 1 if tier == "quick" else 12
    keys = sorted(API)
    out = []
    nsh = 14
    for sh in range(nsh):
        out.append(Task("t_call", shard=sh, nsh=nsh, per=60 * mult))
    for sh in range(4):
        out.append(Task("t_illtyped", shard=sh, nsh=4))
    out.append(Task("t_outofrange", n=20 * mult))
    for sh in range(16):
        out.append(Task("t_history", shard=sh, n=150 * (1 if tier == "quick" else 12)))
    return out


def t_call(rec, shard, nsh, per):
    start_zygote()          # before any library call is made in this process
    keys = sorted(API)[shard::nsh]
    # one Hypothesis run per callable so that every callable gets its share of cases and
    # several failing callables are reported separately
    for key in keys:
        rec.given("call", call_cases([key]), per, shard=key)


def t_illtyped(rec, shard, nsh):
    keys = illtyped_keys()[shard::nsh]
    for key in keys:
        spec = API[key]
        base = _example(spec, key)
        if base is None:
            continue
        for pos in range(len(base["args"])):
            for bad in sorted(BAD):
                if not _bad_is_illtyped(spec, pos, bad):
                    continue
                rec.case("illtyped", {"key": key, "base": base, "pos": pos, "bad": bad})


def _example(spec, key):
    """A deterministic in-domain example of the callable's arguments (first example the
    strategy produces under a fixed seed)."""
    import hypothesis
    from hypothesis import given, settings, Phase, HealthCheck
    box = []

    @hypothesis.seed(12345)
    @settings(max_examples=5, database=None, deadline=None, phases=[Phase.generate],
              suppress_health_check=list(HealthCheck))
    @given(spec.case_strategy())
    def grab(c):
        if len(c["args"]) >= len(box[0]["args"]) if box else True:
            box[:] = [c]
    grab()
    return dict(box[0], key=key) if box else None


def t_history(rec, shard, n):
    rec.given("history", history_cases(), n, shard=shard)


def t_outofrange(rec, n):
    miss = api.uncovered()
    if miss:
        rec.notes.append("public callables without a registry entry (not exercised by the call clause): %s" % miss)
    us = st.one_of(st.floats(0.0, 1.0), st.floats(0.0, 1000.0), st.sampled_from([0.0, 1e-9, 0.5, 1.0, 100.0]))
    for kind in sorted(OOR):
        rec.given("outofrange", st.builds(lambda u: {"kind": kind, "u": u}, us), n, shard=kind)
