"""C14 - seasons, equation of time and sunrise/sunset agree with the solar position.

Clauses
  season    get_equinox_solstice(year, target): apparent longitude of the Sun (the library's
            own apparent_geocentric_position) at the returned instant = k*90 to 1e-5 degree;
            the four instants of a year in order and 88-95 d apart; same season of successive
            years 365.2-365.3 d apart.  Finite domain (-1000..3000 x 4), enumerated.
  season_range  any other (int) year raises ValueError.
  eot       sweeps of consecutive days: |E| <= 25 min (17.5 min in 1800-2200), daily change
            < 45 s.
  rise_set  Epoch.rise_set: altitude of the Sun's centre (library Sun position + library
            apparent sidereal time, oracle rotation) at the returned instants within 1 degree
            of -0.83 - 2.076'*sqrt(h); rise < local transit < set.
  trts      Coordinates.times_rise_transit_set on synthetic slowly moving bodies: altitude
            of the three-point-interpolated body at the returned rise/set times = h0 within
            0.005 degree, hour angle 0 within 0.005 degree at the returned transit time,
            unless grazing; (None, None, None) exactly when the altitude h0 is never crossed.
"""
import math

from hypothesis import strategies as st

from pymeeus.Angle import Angle
from pymeeus.Epoch import Epoch
from pymeeus.Sun import Sun
from pymeeus.Coordinates import (true_obliquity, nutation_longitude,
                                 times_rise_transit_set)

from ..core import Violation, Task
from .. import strategies as S
from ..oracles import calendar as cal
from ..oracles import horizon as hz

PROPERTY = "C14"
LEVEL = "exploration"
EXHAUSTIVE = {"quick": False, "thorough": False}
MANIFEST = {
    "level_text": "Seasons: enumeration of the finite domain (thorough: every year -1000..3000 x 4 seasons; quick: a seed-rotated quarter plus the edge years). Equation of time, rise_set and times_rise_transit_set: randomised search (Hypothesis; day-by-day sweeps for the equation of time) against an observer-geometry oracle. Finds violations; does not prove absence outside the enumerated season clause. The seconds-field carry of the equation of time is examined at consecutive doubles round whole-minute crossings.",
    "level_note": "The Sun's position, obliquity, nutation and sidereal time are the library's own (the property says so); the rotations to the equator and the horizon, the interpolation of the synthetic body, the UTC->TT table and the day-by-day walk are the harness's. Tolerances as stated in the property.",
    "technique": "enumeration (seasons) + property-based testing with sweeps and a geometric reference model",
}
RULE = ("season: one case = a block of consecutive years (all four seasons of each; the year "
        "after the block is evaluated for the 365.2-365.3 d clause); thorough enumerates "
        "-1000..3000 completely, quick a seed-rotated quarter of the blocks plus the blocks "
        "holding -1000, 0, 999/1000 (change of polynomial), 1582, 2000 and 3000; every (year, "
        "season) is distinct and counts as non-trivial.  season_range: Hypothesis integers "
        "outside -1000..3000 (next to the ends, large) x 4 targets.  eot: Hypothesis start "
        "epoch (any time of day, years -2000..4000, era ends and 1800/2200 over-weighted) "
        "then a walk of 366..400 consecutive days; non-trivial days: mean solar longitude "
        "within 5 degrees of an equinox, or |E| < 100 s (about 5 d from a zero crossing).  "
        "rise_set: Hypothesis over latitude +-66.5 (half of the cases beyond 55), longitude "
        "+-180, height 0-5000 m, civil dates 1900-2100 at 0h and at a generated time of day; "
        "non-trivial: |latitude| > 55 or height > 2000 m or year outside 1990-2030.  trts: "
        "synthetic body (RA, Dec at three consecutive 0h TT built from a position, a sky "
        "speed <= 1.5 deg/d, a direction and a second difference), observer latitude +-89, "
        "longitude +-180, h0 in {-0.5667, -0.8333, 0.125} or uniform +-2, Delta T 0..200 s, "
        "sidereal time 0..360; non-trivial: times returned for a moving body (>= 0.1 deg/d) "
        "away from grazing, or a no-times answer.  Distinct = distinct case."
        " In every season block the four results of the first year are recycled through set() and asked again. season_range also draws arbitrary-precision ints (10^5..10^1300, 2^31..2^4096, both signs). eot_carry: Hypothesis start epoch; the walk is continued to the next instant at which the equation of time passes a whole (non-zero) minute, which is bisected to adjacent doubles; the 60 (or 200) doubles on either side must render within 1 ms of that minute; every double is one evaluation and non-trivial.")
ASSUMPTIONS = [
    "rise_set results are UTC (docstring): the sidereal time is evaluated at the returned "
    "instant, the Sun at that instant + (TT-UTC) from a literal table of the 27 IERS leap "
    "seconds (TT-UT from a coarse literal table before 1972; an error of 10 s moves the Sun 0.4\")",
    "a ValueError('math domain error') from rise_set is accepted as a refusal only when the "
    "Sun's altitude (same model, sampled every 6 min over the local solar day) stays on one "
    "side of the standard altitude or crosses it by less than the 1 degree tolerance",
    "sunrise < transit < sunset is asserted when the margins exceed 2 s (transit located by one "
    "Newton step on the hour angle from the midpoint, good to < 1 s)",
    "equation of time in seconds = 60*m + sign(m)*s; when m == 0 the tuple carries no sign and "
    "both signs are admitted (a day-to-day chain of admissible values with every step < 45 s "
    "must exist)",
    "17.5 min bound applied to civil years 1800..2200 inclusive",
    "times_rise_transit_set: the altitude clause is asserted for observers at |latitude| <= 66.5 "
    "(the latitude domain the property names); beyond the polar circles every rising is shallow "
    "and only the transit and the no-times clauses are asserted",
    "times_rise_transit_set: 'moving up to 1.5 degrees per day' is the speed on the sky; "
    "|declination| <= 60 so that the RA rate stays below 3.1 deg/d (nearer the pole a 1.5 deg/d "
    "body has an unbounded RA rate, beyond what two iterations of Meeus' scheme are meant for)",
    "grazing (not asserted): the diurnal altitude range [-(90-|phi+dec|), 90-|phi-dec|], taken "
    "over the declinations the body has during the day, clears h0 by less than 2 degrees on "
    "either side",
    "no-times clause: required when every declination of the day keeps h0 outside the range "
    "by > 1e-9, forbidden when every declination keeps it inside by > 1e-9; not asserted when "
    "the body's own motion moves it across that boundary during the day",
    "the body at a returned time t (hours) is the three-point interpolation at n = t/24 + "
    "Delta T/86400, also for returned times slightly outside 0..24 h; sidereal rate "
    "360.98564736629 deg/d (IAU 1982)",
    "season: the year labelling the returned instant is not asserted; years given as int",
    "sensitivity (mutants/C14.json, applied on top of fixes_proposed/C14-*.diff, quick tier): 16 of "
    "20 caught; missed: the final 'epoch -= corr' dropped (<= 2.5e-6 deg, below the 1e-5 stated), the "
    "sign of the 0.0057183 aberration constant (2.7 s, inside every stated bound), a table constant "
    "whose change the iteration undoes (equivalent), the setting correction taking the rising "
    "declination (< 1e-4 deg after two iterations)",
]

SEASONS = ["spring", "summer", "autumn", "winter"]
SIDEREAL_RATE = 360.98564736629


def self_test():
    hz.self_test()
    cal.self_test()


# ------------------------------------------------------------------------ seasons

def _season_instants(y):
    out = []
    for k, tg in enumerate(SEASONS):
        t = Sun.get_equinox_solstice(y, tg)
        if not isinstance(t, Epoch):
            raise Violation("get_equinox_solstice(%d, %r) returned %r" % (y, tg, type(t)),
                            site="Sun.get_equinox_solstice", kind="type", year=y, target=tg)
        out.append(t)
    return out


def body_season(case):
    y0, n = case["y0"], case["n"]
    labels = {}

    def lab(k, c=1):
        labels[k] = labels.get(k, 0) + c

    count = 0
    worst = 0.0
    prev = None
    gaps = []
    for y in range(y0, y0 + n + 1):
        extra = y == y0 + n          # evaluated only for the year-to-year spacing
        if y > 3000:
            break
        ts = _season_instants(y)
        js = [t.jde() for t in ts]
        if prev is not None:
            for k in range(4):
                dy = js[k] - prev[k]
                if not (365.2 <= dy <= 365.3):
                    raise Violation("%s of %d and of %d are %.5f d apart (365.2-365.3 expected)"
                                    % (SEASONS[k], y - 1, y, dy),
                                    site="Sun.get_equinox_solstice", kind="year_spacing",
                                    year=y, target=SEASONS[k], gap=dy)
        prev = js
        if y == y0:
            # the receiver re-uses what it was given (set() is the documented mutator); asking
            # again must give the same instants
            for t in ts:
                t.set(2451545.0)
            js2 = [t.jde() for t in _season_instants(y)]
            for k in range(4):
                if abs(js2[k] - js[k]) > 1e-9:
                    raise Violation("get_equinox_solstice(%d, %r) = JDE %.6f, and JDE %.6f when "
                                    "asked again after the first result had been re-used by its "
                                    "receiver" % (y, SEASONS[k], js[k], js2[k]),
                                    site="Sun.get_equinox_solstice", kind="not_a_function_of_the_year",
                                    year=y, target=SEASONS[k])
            ts = _season_instants(y)
            lab("asked_again_after_result_recycled", 4)
        if extra:
            break
        for k in range(4):
            lon = Sun.apparent_geocentric_position(ts[k])[0]
            d = hz.wrap180(float(lon) - 90.0 * k)
            worst = max(worst, abs(d))
            if not abs(d) <= 1e-5:
                raise Violation("get_equinox_solstice(%d, %r) = JDE %.6f where the apparent "
                                "longitude is %.7f (off %.2e deg from %d)"
                                % (y, SEASONS[k], js[k], float(lon) % 360.0, d, 90 * k),
                                site="Sun.get_equinox_solstice", kind="longitude",
                                year=y, target=SEASONS[k], off=d)
            count += 1
            lab("season:" + SEASONS[k])
        for k in range(3):
            g = js[k + 1] - js[k]
            gaps.append(g)
            if not (88.0 <= g <= 95.0):
                raise Violation("%d: %s -> %s is %.4f d (in order and 88-95 d expected)"
                                % (y, SEASONS[k], SEASONS[k + 1], g),
                                site="Sun.get_equinox_solstice", kind="season_spacing",
                                year=y, gap=g)
        if y < 0:
            lab("season_era:-1000..-1")
        elif y < 1000:
            lab("season_era:0..999")
        elif y < 2000:
            lab("season_era:1000..1999")
        else:
            lab("season_era:2000..3000")
        if y in (-1000, 999, 1000, 3000, 0, 1582):
            lab("season_edge_year")
    return {"n": count, "nt": count, "labels": labels,
            "show": {"max_longitude_error_deg": worst,
                     "season_gaps_d": [min(gaps), max(gaps)] if gaps else None}}


def _short(y):
    return str(y) if abs(y) < 10 ** 12 else "%s(%d digits)" % ("-" if y < 0 else "", len(str(abs(y))))


def body_season_range(case):
    y, tg = case["year"], case["target"]
    try:
        t = Sun.get_equinox_solstice(y, tg)
    except ValueError:
        lab = "out_of_range:" + ("below" if y < -1000 else "above")
        near = "out_of_range:adjacent" if y in (-1001, 3001) else lab
        labs = [lab, near] if near != lab else [lab]
        if abs(y) >= 2 ** 63:
            labs.append("out_of_range:beyond_64_bits")
        if abs(y) > 10 ** 308:
            labs.append("out_of_range:beyond_float_range")
        return {"labels": labs, "nontrivial": True}
    raise Violation("get_equinox_solstice(%s, %r) returned %r instead of raising ValueError"
                    % (_short(y), tg, t), site="Sun.get_equinox_solstice", kind="accepted_year")


# ------------------------------------------------------------------------ equation of time

def _eot_candidates(m, s):
    if not isinstance(m, int) or isinstance(m, bool) or not isinstance(s, float):
        raise Violation("equation_of_time returned (%r, %r): not (int, float)" % (m, s),
                        site="Sun.equation_of_time", kind="type")
    if not (0.0 <= s <= 60.0):
        raise Violation("equation_of_time returned seconds %r outside [0, 60]" % (s,),
                        site="Sun.equation_of_time", kind="seconds_field", s=s)
    if m > 0:
        return [60.0 * m + s]
    if m < 0:
        return [60.0 * m - s]
    return [s, -s] if s != 0.0 else [0.0]


def body_eot(case):
    jde0, n = case["jde0"], case["n"]
    labels = {}

    def lab(k, c=1):
        labels[k] = labels.get(k, 0) + c

    feasible = None
    nt = 0
    maxabs = 0.0
    maxstep = 0.0
    prev_j = None
    # every other walk steps one Epoch object through the days with set() (a caller's loop
    # variable), the others build a new object per day
    stepper = Epoch(jde0) if int(jde0) % 2 else None
    for i in range(n):
        j = jde0 + i
        if stepper is not None:
            stepper.set(j)
            ej = stepper
        else:
            ej = Epoch(j)
        m, s = Sun.equation_of_time(ej)
        cands = _eot_candidates(m, s)
        y = cal.from_jdn(int(math.floor(j + 0.5)))[0]
        bound = 17.5 * 60.0 if 1800 <= y <= 2200 else 25.0 * 60.0
        for c in cands:
            if abs(c) > bound:
                raise Violation("equation_of_time(JDE %.4f, year %d) = (%d, %.3f) = %.1f s, beyond "
                                "%.1f min" % (j, y, m, s, c, bound / 60.0),
                                site="Sun.equation_of_time", kind="bound", jde=j, year=y,
                                m=m, s=s, value=c)
        if feasible is None:
            nxt = cands
        else:
            nxt = [c for c in cands if any(abs(c - p) < 45.0 for p in feasible)]
            if not nxt:
                step = min(abs(c - p) for c in cands for p in feasible)
                raise Violation("equation_of_time changes by %.1f s from JDE %.4f (%s s) to JDE "
                                "%.4f ((%d, %.3f)); less than 45 s per day expected"
                                % (step, prev_j, ", ".join("%.1f" % p for p in feasible), j, m, s),
                                site="Sun.equation_of_time", kind="step", jde=j, year=y,
                                m=m, s=s, step=step)
            maxstep = max(maxstep, min(abs(c - p) for c in nxt for p in feasible))
        feasible = nxt
        prev_j = j
        v = min(abs(c) for c in cands)
        maxabs = max(maxabs, v)
        # labels
        T = (j - 2451545.0) / 36525.0
        L0 = (280.46646 + 36000.76983 * T) % 360.0
        near_eq = min(abs(hz.wrap180(L0)), abs(hz.wrap180(L0 - 180.0))) < 5.0
        near_zero = v < 100.0
        if near_eq:
            lab("eot_near_equinox")
        if abs(hz.wrap180(L0)) < 5.0:
            lab("eot_near_march_equinox")
        if near_zero:
            lab("eot_near_zero_crossing")
        if m == 0:
            lab("eot_minutes_field_0(sign_ambiguous)")
        if near_eq or near_zero:
            nt += 1
        if 1800 <= y <= 2200:
            lab("eot_bound_17.5")
    y0 = cal.from_jdn(int(math.floor(jde0 + 0.5)))[0]
    if y0 < -1000:
        lab("eot_sweep_era:-2000..-1001")
    elif y0 < 1583:
        lab("eot_sweep_era:-1000..1582")
    elif y0 < 2200:
        lab("eot_sweep_era:1583..2199")
    else:
        lab("eot_sweep_era:2200..4000")
    lab("eot_sweeps")
    if stepper is not None:
        lab("eot_sweep_with_one_epoch_object_moved_by_set")
    return {"n": n, "nt": nt, "labels": labels,
            "show": {"max_abs_s": maxabs, "max_step_s": maxstep}}


# ------------------------------------------------------------------------ seconds-field carry

def _eot_near(j, target):
    m, s = Sun.equation_of_time(Epoch(j))
    return min(_eot_candidates(m, s), key=lambda c: abs(c - target)), m, s


def body_eot_carry(case):
    """The (minutes, seconds) pair is a sexagesimal rendering of one continuous quantity: around
    the instant where it passes a whole minute (seconds field 59.99.. <-> 0.0, minutes field
    changing) the value rendered at consecutive doubles must stay within 1 ms of that minute."""
    j = case["jde"]
    ulps = case.get("ulps", 60)
    # leave the stretch where the minutes field is 0 (sign not expressible)
    for _ in range(12):
        m, s = Sun.equation_of_time(Epoch(j))
        if m != 0:
            break
        j += 5.0
    else:
        return {"labels": ["eot_carry_skipped:no_crossing_in_window"]}
    e0 = _eot_candidates(m, s)[0]
    # march on until the value passes a whole minute
    a, ea = j, e0
    b = eb = None
    for i in range(1, 160):
        t = j + 0.5 * i
        if t > J_EOT_HI:
            return {"labels": ["eot_carry_skipped:no_crossing_in_window"]}
        et, _, _ = _eot_near(t, ea)
        if math.floor(et / 60.0) != math.floor(ea / 60.0):
            b, eb = t, et
            break
        a, ea = t, et
    if b is None:
        return {"labels": ["eot_carry_skipped:no_crossing_in_window"]}
    K = 60.0 * max(math.floor(ea / 60.0), math.floor(eb / 60.0))
    if K == 0.0 or abs(eb - ea) > 45.0:
        return {"labels": ["eot_carry_skipped:zero_crossing"]}   # no sign to render there
    lo, hi = (a, b)
    flo = ea - K
    for _ in range(80):
        mid = 0.5 * (lo + hi)
        if mid == lo or mid == hi:
            break
        fm = _eot_near(mid, K)[0] - K
        if abs(fm) > 45.0:
            raise Violation("equation_of_time(JDE %r) renders %.4f s between JDE %r (%.4f s) and JDE %r "
                            "(%.4f s), around the whole minute %d" % (mid, fm + K, lo, flo + K, hi,
                                                                      _eot_near(hi, K)[0], K / 60),
                            site="Sun.equation_of_time", kind="carry", jde=mid, minute=K / 60)
        if (fm < 0) == (flo < 0):
            lo, flo = mid, fm
        else:
            hi = mid
    worst = 0.0
    n = 0
    for start, up in ((lo, False), (hi, True)):
        t = start
        for _ in range(ulps):
            v, m, s = _eot_near(t, K)
            n += 1
            worst = max(worst, abs(v - K))
            if abs(v - K) > 1e-3:
                raise Violation("equation_of_time(JDE %r) = (%d, %r) = %.6f s, %d doubles from the instant "
                                "(JDE %r) where it passes %d min: %.3f s away from that value"
                                % (t, m, s, v, _, lo, K / 60, v - K), site="Sun.equation_of_time",
                                kind="carry", jde=t, minute=K / 60, m=m, s=s)
            t = math.nextafter(t, math.inf if up else -math.inf)
    labels = {"eot_whole_minute_crossing": 1, "eot_crossing_negative" if K < 0 else "eot_crossing_positive": 1,
              "eot_doubles_around_crossing": n}
    return {"n": n, "nt": n, "labels": labels,
            "show": {"minute": K / 60, "crossing_jde": lo, "worst_s": worst}}


J_EOT_HI = 2451545.0 + (3998.8 - 2000.0) * 365.25 + 400.0


# ------------------------------------------------------------------------ rise_set

def _civil_ym(jd):
    y, m, _ = cal.from_jdn(int(math.floor(jd + 0.5)))
    return y, m


def sun_alt_ha(jd_utc, lat, lon_east):
    """Altitude and local hour angle of the Sun's centre at the UTC instant jd_utc:
    library Sun (apparent, at TT), library obliquity/nutation/sidereal time (at UT),
    oracle rotations."""
    y, m = _civil_ym(jd_utc)
    tt = Epoch(jd_utc + hz.tt_minus_utc(y, m) / 86400.0)
    lon, b, _ = Sun.apparent_geocentric_position(tt)
    eps = true_obliquity(tt)
    dpsi = nutation_longitude(tt)
    ra, dec = hz.ecl2equ(float(lon), float(b), float(eps))
    gst = Epoch(jd_utc).apparent_sidereal_time(eps, dpsi) * 360.0
    H = hz.wrap180(gst + lon_east - ra)
    return hz.altitude(H, dec, lat), H


def _scan_day(jd0_utc, lat, lon_east, target):
    """min and max of (altitude - target) over the local solar day that starts at
    jd0_utc - lon/360 (local mean midnight), sampled every 6 minutes."""
    start = jd0_utc - lon_east / 360.0
    lo, hi = 1e9, -1e9
    for i in range(241):
        a, _ = sun_alt_ha(start + i / 240.0, lat, lon_east)
        lo = min(lo, a - target)
        hi = max(hi, a - target)
    return lo, hi


def body_rise_set(case):
    y, mo, d, frac = case["y"], case["m"], case["d"], case["frac"]
    lat, lon, h = case["lat"], case["lon"], case["h"]
    target = -0.83 - 2.076 * math.sqrt(h) / 60.0
    labels = []
    if abs(lat) > 55.0:
        labels.append("rs_abs_lat>55")
    if abs(lat) > 65.0:
        labels.append("rs_abs_lat>65")
    if h > 2000.0:
        labels.append("rs_height>2000")
    if not (1990 <= y <= 2030):
        labels.append("rs_year_outside_1990-2030")
    if y < 1972:
        labels.append("rs_before_1972")
    labels.append("rs_time_of_day" if frac else "rs_0h")
    nontrivial = abs(lat) > 55.0 or h > 2000.0 or not (1990 <= y <= 2030)
    e = Epoch(y, mo, d + frac)
    jd0 = cal.jdn(y, mo, d) - 0.5
    try:
        res = e.rise_set(Angle(lat), Angle(lon), h)
    except ValueError as ex:
        lo, hi = _scan_day(jd0, lat, lon, target)
        if hi < 1.0 or lo > -1.0:
            labels.append("rs_refused_no_crossing:" + ("polar_night" if hi < 1.0 else "midnight_sun"))
            return {"refused": "ValueError where the Sun does not cross the standard altitude by 1 deg",
                    "labels": labels, "nontrivial": nontrivial}
        raise Violation("rise_set(%d-%02d-%02d+%.3f, lat %.4f, lon %.4f, h %.1f) raised "
                        "ValueError(%s) although the Sun's altitude relative to the standard "
                        "altitude ranges over [%.2f, %.2f] deg that day"
                        % (y, mo, d, frac, lat, lon, h, ex, lo, hi), site="Epoch.rise_set",
                        kind="refused_but_crosses", lo=lo, hi=hi)
    if not (isinstance(res, tuple) and len(res) == 2 and all(isinstance(t, Epoch) for t in res)):
        raise Violation("rise_set returned %r" % (res,), site="Epoch.rise_set", kind="type")
    r, s = res[0].jde(), res[1].jde()
    errs = []
    for name, t in (("sunrise", r), ("sunset", s)):
        a, _ = sun_alt_ha(t, lat, lon)
        errs.append(a - target)
        if not abs(a - target) <= 1.0:
            raise Violation("rise_set(%d-%02d-%02d+%.3f, lat %.4f, lon %.4f, h %.1f): at the "
                            "returned %s (JD %.5f UTC) the Sun's centre is at %.3f deg, %.3f deg "
                            "from the standard altitude %.3f"
                            % (y, mo, d, frac, lat, lon, h, name, t, a, a - target, target),
                            site="Epoch.rise_set", kind="altitude", which=name, alt=a,
                            off=a - target, frac=frac)
    if not r < s:
        raise Violation("rise_set: sunrise JD %.5f is not before sunset JD %.5f" % (r, s),
                        site="Epoch.rise_set", kind="order", rise=r, set=s)
    mid = 0.5 * (r + s)
    _, H = sun_alt_ha(mid, lat, lon)
    tr = mid - H / SIDEREAL_RATE
    margin = 2.0 / 86400.0
    if tr - r < margin or s - tr < margin:
        if tr - r < -margin or s - tr < -margin:
            raise Violation("rise_set(%d-%02d-%02d, lat %.4f, lon %.4f): local transit (JD %.5f) "
                            "is not between sunrise %.5f and sunset %.5f"
                            % (y, mo, d, lat, lon, tr, r, s), site="Epoch.rise_set",
                            kind="transit_order", rise=r, set=s, transit=tr)
        labels.append("rs_transit_margin<2s(not_asserted)")
    if s - r < 2.0 / 24.0:
        labels.append("rs_day_shorter_than_2h")
    if s - r > 22.0 / 24.0:
        labels.append("rs_day_longer_than_22h")
    if max(abs(x) for x in errs) > 0.5:
        labels.append("rs_alt_error>0.5")
    return {"labels": labels, "nontrivial": nontrivial,
            "show": {"alt_minus_standard_deg": errs, "day_length_h": (s - r) * 24.0}}


# ------------------------------------------------------------------------ times_rise_transit_set

def _body_at(case, t_hours):
    n = t_hours / 24.0 + case["dT"] / 86400.0
    ra = hz.interp3(n, case["a1"], case["a2"], case["a3"])
    dec = hz.interp3(n, case["d1"], case["d2"], case["d3"])
    H = hz.wrap180(case["th0"] + SIDEREAL_RATE * (t_hours / 24.0) - case["lon"] - ra)
    return H, dec


def body_trts(case):
    lat, lon, h0 = case["lat"], case["lon"], case["h0"]
    args = [Angle(lon), Angle(lat)]
    for k in ("a1", "d1", "a2", "d2", "a3", "d3"):
        args.append(Angle(case[k]))
    args += [Angle(h0), case["dT"], Angle(case["th0"])]
    res = times_rise_transit_set(*args)
    labels = []
    # margins of the diurnal altitude range over the declinations of the day
    margins_up, margins_lo = [], []
    for n in (0.0, 0.125, 0.25, 0.375, 0.5, 0.625, 0.75, 0.875, 1.0, 1.01):
        dec = hz.interp3(n, case["d1"], case["d2"], case["d3"])
        lo, up = hz.diurnal_range(lat, dec)
        margins_up.append(up - h0)
        margins_lo.append(h0 - lo)
    inside_all = min(margins_up) > 1e-9 and min(margins_lo) > 1e-9
    outside_all = max(margins_up) < -1e-9 or max(margins_lo) < -1e-9
    speed = case.get("speed", 0.0)
    if abs(lat) > 66.0:
        labels.append("trts_abs_lat>66")
    if not (isinstance(res, tuple) and len(res) == 3):
        raise Violation("times_rise_transit_set returned %r" % (res,),
                        site="Coordinates.times_rise_transit_set", kind="type")
    if res[0] is None or res[1] is None or res[2] is None:
        if not (res[0] is None and res[1] is None and res[2] is None):
            raise Violation("times_rise_transit_set returned a partial answer %r" % (res,),
                            site="Coordinates.times_rise_transit_set", kind="partial_none")
        if inside_all:
            raise Violation("times_rise_transit_set reports no times although the body's "
                            "altitude range clears h0 = %.4f by %.4f deg above and %.4f deg below"
                            % (h0, min(margins_up), min(margins_lo)),
                            site="Coordinates.times_rise_transit_set", kind="none_but_crosses",
                            up=min(margins_up), lo=min(margins_lo))
        if outside_all:
            labels.append("trts_none:" + ("never_rises" if max(margins_up) < 0 else "circumpolar"))
        else:
            labels.append("trts_none:boundary_moves_during_day(not_asserted)")
        return {"labels": labels, "nontrivial": True}
    if outside_all:
        raise Violation("times_rise_transit_set returns times %r although the body never "
                        "crosses h0 = %.4f (range margins: up %.4f, low %.4f)"
                        % (res, h0, max(margins_up), max(margins_lo)),
                        site="Coordinates.times_rise_transit_set", kind="times_but_never_crosses")
    for t in res:
        if not isinstance(t, float) or math.isnan(t) or math.isinf(t):
            raise Violation("times_rise_transit_set returned %r" % (res,),
                            site="Coordinates.times_rise_transit_set", kind="type")
    grazing = min(min(margins_up), min(margins_lo)) < 2.0
    if any(t < 0.0 or t > 24.0 for t in res):
        labels.append("trts_time_outside_0-24h")
    if grazing:
        labels.append("trts_grazing(not_asserted)")
        return {"labels": labels, "nontrivial": False, "show": {"times_h": list(res)}}
    rise, transit, sett = res
    worst = 0.0
    polar = abs(lat) > 66.5
    if polar:
        labels.append("trts_beyond_polar_circle(altitude_not_asserted)")
    for name, t in (("rising", rise), ("setting", sett)):
        if polar:
            break
        H, dec = _body_at(case, t)
        a = hz.altitude(H, dec, lat)
        worst = max(worst, abs(a - h0))
        if not abs(a - h0) <= 0.005:
            raise Violation("times_rise_transit_set: at the returned %s time %.5f h the body is at "
                            "altitude %.4f deg, %.4f deg from h0 = %.4f"
                            % (name, t, a, a - h0, h0),
                            site="Coordinates.times_rise_transit_set", kind="altitude",
                            which=name, t=t, off=a - h0)
        if name == "rising" and not H < 0.0 or name == "setting" and not H > 0.0:
            raise Violation("times_rise_transit_set: the returned %s time %.5f h is on the wrong "
                            "side of the meridian (hour angle %.3f deg)" % (name, t, H),
                            site="Coordinates.times_rise_transit_set", kind="wrong_side",
                            which=name, t=t, H=H)
    H, _ = _body_at(case, transit)
    if not abs(H) <= 0.005:
        raise Violation("times_rise_transit_set: at the returned transit time %.5f h the body's "
                        "hour angle is %.4f deg (on the meridian within 0.005 expected)"
                        % (transit, H), site="Coordinates.times_rise_transit_set",
                        kind="transit_hour_angle", t=transit, H=H)
    if speed >= 1.0:
        labels.append("trts_speed>=1deg/d")
    elif speed >= 0.1:
        labels.append("trts_speed_0.1-1deg/d")
    else:
        labels.append("trts_speed<0.1deg/d")
    if min(min(margins_up), min(margins_lo)) < 5.0:
        labels.append("trts_margin_2-5deg")
    labels.append("trts_times_checked")
    return {"labels": labels, "nontrivial": speed >= 0.1 and not polar,
            "show": {"times_h": list(res), "max_alt_err_deg": worst, "transit_H_deg": H}}


def _kf_rise_set_drift(clause, case, v):
    """Epoch.rise_set: fixed longitude of perihelion (102.9372, no 1.72 deg/century motion)
    plus results late by TT-UTC: the sunset altitude error grows 0.0067 deg/yr and passes
    1 degree from about 2083.  Envelope: sunset, Sun too low, year >= 2080, and
    1 < |off| <= 1.04 + 0.0067*(year - 2080) (1.12 measured in 2100)."""
    if clause != "rise_set" or v.site != "Epoch.rise_set" or v.kind != "altitude":
        return False
    y = case["y"]
    off = v.data.get("off")
    if y < 2080 or v.data.get("which") != "sunset" or off is None:
        return False
    return -(1.04 + 0.0067 * (y - 2080)) <= off < -1.0


KNOWN_SIGNATURES = {"KF-C14-rise-set-drift": _kf_rise_set_drift}

CLAUSES = {"season": body_season, "season_range": body_season_range, "eot": body_eot,
           "eot_carry": body_eot_carry,
           "rise_set": body_rise_set, "trts": body_trts}


# ------------------------------------------------------------------------ strategies

def season_range_cases():
    years = st.one_of(
        st.integers(-1010, -1001), st.integers(3001, 3010),
        st.sampled_from([-1001, 3001, -1002, 3002, -4712, 6000, -10 ** 6, 10 ** 6, -2000, 4000,
                         -1500, 3500, 10 ** 9]),
        st.integers(-100000, -1001), st.integers(3001, 100000),
        # int is arbitrary precision: beyond 64 bits, beyond the float range
        st.tuples(st.sampled_from([1, -1]), st.integers(5, 1300)).map(lambda t: t[0] * 10 ** t[1]),
        st.tuples(st.sampled_from([1, -1]), st.sampled_from([31, 53, 63, 64, 127, 1023, 1024, 1025,
                                                             4096])).map(lambda t: t[0] * 2 ** t[1]))
    return st.builds(lambda y, t: {"year": y, "target": t}, years, st.sampled_from(SEASONS))


def eot_cases():
    def build(y, n):
        return {"jde0": round(S.jde_from_year(y), 4), "n": n}
    yrs = st.one_of(S.years(-2000.0, 3998.8), st.floats(-2000.0, 3998.8),
                    st.sampled_from([1799.3, 1799.9, 2199.9, 2200.3, 1582.2, -2000.0, 3998.8,
                                     -0.5, 999.7]))
    return st.builds(build, yrs, st.integers(366, 400))


def eot_carry_cases():
    yrs = st.one_of(S.years(-2000.0, 3998.0), st.floats(-2000.0, 3998.0))
    return st.builds(lambda y, n: {"jde": round(S.jde_from_year(y), 3), "ulps": n}, yrs,
                     st.sampled_from([60, 60, 200]))


def rise_set_cases():
    def build(y, m, dsel, frac, lat, lon, h):
        d = 1 + dsel % cal.month_len(y, m)
        return {"y": y, "m": m, "d": d, "frac": frac, "lat": lat, "lon": lon, "h": h}
    lat = st.one_of(
        st.floats(-66.5, 66.5),
        st.tuples(st.floats(55.0, 66.5), st.sampled_from([1, -1])).map(lambda t: t[0] * t[1]),
        st.sampled_from([0.0, 23.44, -23.44, 55.0, -55.0, 60.0, 65.0, -65.0, 66.0, -66.0,
                         66.5, -66.5, 66.49, 1e-9]))
    lon = S.bfloats(-180.0, 180.0, specials=[0.0, 90.0, -90.0, 179.999, -179.999, 1e-9])
    h = st.one_of(st.floats(0.0, 5000.0), st.floats(2000.0, 5000.0),
                  st.sampled_from([0.0, 0, 1.0, 100, 2000.0, 4999.99, 5000.0, 5000]))
    frac = st.one_of(st.just(0.0), st.just(0.0), st.floats(0.001, 0.999),
                     st.sampled_from([0.25, 0.5, 0.75, 0.999]))
    years = st.one_of(st.integers(1900, 2100), st.integers(1990, 2030),
                      st.sampled_from([1900, 1971, 1972, 2016, 2017, 2100]))
    return st.builds(build, years, st.integers(1, 12), st.integers(0, 30), frac, lat, lon, h)


def trts_cases():
    def build(lon, lat, a2, d2, speed, bearing, acc_a, acc_d, h0, dT, th0, hunt):
        if hunt is not None:
            # place the declination next to one of the two boundaries of the no-times region
            kind, off = hunt
            if off == "tangent":
                # the diurnal arc touches the standard altitude itself (cos H0 = +-1 up to rounding)
                off = h0 if kind == "circumpolar" else -h0
            if kind == "circumpolar":
                d2 = math.copysign(90.0 - abs(lat) + off, lat if lat != 0 else 1.0)
            else:
                d2 = -math.copysign(90.0 - abs(lat) + off, lat if lat != 0 else 1.0)
        d2 = max(-60.0, min(60.0, d2))
        b = math.radians(bearing)
        dd = speed * math.cos(b)
        da = speed * math.sin(b) / math.cos(math.radians(d2))
        case = {"lon": lon, "lat": lat,
                "a1": a2 - da + acc_a, "d1": d2 - dd + acc_d,
                "a2": a2, "d2": d2,
                "a3": a2 + da + acc_a, "d3": d2 + dd + acc_d,
                "h0": h0, "dT": dT, "th0": th0, "speed": speed}
        return case
    lat = st.one_of(st.floats(-66.5, 66.5), st.floats(-66.5, 66.5), st.floats(-66.5, 66.5),
                    st.floats(-66.5, 66.5), st.floats(-89.0, 89.0),
                    st.sampled_from([0.0, 1e-6, 11.0, -11.0, 42.3333, 66.5, -66.5, 80.0, -80.0,
                                     89.0, -89.0]))
    lon = S.bfloats(-180.0, 180.0, specials=[0.0, 71.0833, -71.0833, 179.99, -179.99])
    a2 = st.one_of(st.floats(0.0, 360.0, exclude_max=True),
                   st.sampled_from([0.0, 1e-9, 0.3, 0.7, 359.3, 359.7, 359.999999, 180.0, 41.73]))
    d2 = st.one_of(st.floats(-60.0, 60.0), st.floats(-30.0, 30.0),
                   st.sampled_from([0.0, 23.44, -23.44, 60.0, -60.0, 18.44]))
    speed = st.one_of(st.floats(0.0, 1.5), st.floats(0.9, 1.5),
                      st.sampled_from([0.0, 0.9856, 1.0, 1.5, 1e-6]))
    bearing = st.one_of(st.floats(0.0, 360.0), st.sampled_from([0.0, 90.0, 180.0, 270.0]))
    acc = st.one_of(st.just(0.0), st.floats(-0.05, 0.05))
    h0 = st.one_of(st.sampled_from([-0.5667, -0.8333, 0.125]), st.sampled_from([-0.5667, -0.8333, 0.125]),
                   st.floats(-2.0, 2.0))
    dT = st.one_of(st.floats(0.0, 80.0), st.floats(0.0, 200.0), st.sampled_from([0.0, 56.0, 69.184, 0, 70]))
    th0 = st.one_of(st.floats(0.0, 360.0, exclude_max=True),
                    st.sampled_from([0.0, 1e-9, 359.999999, 177.74208, 180.0]))
    hunt = st.one_of(st.none(), st.none(), st.none(),
                     st.tuples(st.sampled_from(["circumpolar", "never_rises"]),
                               st.one_of(st.floats(-6.0, 6.0), st.floats(-1.0, 1.0),
                                         st.sampled_from([0.0, 1e-6, -1e-6, 2.0, -2.0]),
                                         st.just("tangent"))))
    return st.builds(build, lon, lat, a2, d2, speed, bearing, acc, acc, h0, dT, th0, hunt)


STRATS = {"season_range": season_range_cases, "eot": eot_cases, "eot_carry": eot_carry_cases, "rise_set": rise_set_cases,
          "trts": trts_cases}


# ------------------------------------------------------------------------ tasks

BLOCK = 8
EDGE_YEARS = [-1000, -1, 0, 999, 1000, 1582, 1999, 2000, 2993, 3000]


def season_blocks(tier, seed):
    starts = list(range(-1000, 3001, BLOCK))
    if tier == "thorough":
        return [(y0, min(BLOCK, 3001 - y0)) for y0 in starts]
    rot = seed % 4
    chosen = set(y0 for i, y0 in enumerate(starts) if i % 4 == rot)
    for ey in EDGE_YEARS:
        chosen.add(-1000 + ((ey + 1000) // BLOCK) * BLOCK)
    return [(y0, min(BLOCK, 3001 - y0)) for y0 in sorted(chosen)]


def tasks(tier, seed):
    out = []
    blocks = season_blocks(tier, seed)
    nsh = 16 if tier == "quick" else 32
    for i in range(nsh):
        out.append(Task("t_seasons", blocks=blocks[i::nsh]))
    mult = 1 if tier == "quick" else 12
    plan = {"eot": (16, 12), "eot_carry": (16, 10), "rise_set": (16, 900), "trts": (16, 1500), "season_range": (1, 300)}
    for clause, (shards, n) in plan.items():
        nshards = shards if tier == "quick" else shards * 2
        for sh in range(nshards):
            out.append(Task("t_given", clause=clause, shard=sh, n=n * mult * shards // nshards))
    return out


def t_seasons(rec, blocks):
    for y0, n in blocks:
        rec.case("season", {"y0": y0, "n": n})


def t_given(rec, clause, shard, n):
    rec.given(clause, STRATS[clause](), n, shard=shard, shrink=(clause != "eot"))
