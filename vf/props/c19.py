"""C19 - Easter, Pesach and Moslem-calendar conversions follow their calendar rules.

Exhaustive enumeration of the four finite domains of the property against integer
reference models written from the definitions (vf/oracles/computus.py):

  easter   every year -4712..10000            one case = one year
  pesach   every year 1..3000                 one case = one year
  moslem   every date of years 1..2500 AH     one case = one Moslem year (354/355 dates)
  civil    every civil day 622-07-16..3000    one case = one civil year
"""
import math

from pymeeus.Epoch import Epoch

from ..core import Violation, Task
from ..oracles import calendar as cal
from ..oracles import computus as comp

PROPERTY = "C19"
LEVEL = "exploration"
EXHAUSTIVE = {"quick": True, "thorough": True}
MANIFEST = {
    "level_text": "Exhaustive enumeration of the finite domains named by the property: Easter for every year -4712..10000, Pesach for every year 1..3000, every Moslem date of 1..2500 AH (885 917 dates) and every civil day 622-07-16..3000-12-31 (868 713 days), each against an independent integer reference calendar. For these finite domains the property is decided completely for the tree it ran on. Easter and Pesach are also enumerated in descending and permuted order.",
    "level_note": "Trusts the integer reference models (tabular Computus, molad/dehiyyot Hebrew calendar, 30-year-cycle Islamic calendar, integer Julian Day Numbers), which are self-tested on every run against well-known dates and structural invariants.",
    "technique": "exhaustive generated-input enumeration vs integer reference calendars (differential oracle)",
}
RULE = ("Enumeration, no sampling, identical in both tiers. easter: one case per year "
        "-4712..10000; the returned (month, day) must be a Sunday (oracle weekday of the "
        "integer JDN in the calendar in force: Julian to 1582, Gregorian from 1583) in "
        "22 March..25 April and equal the date of the tabular Computus (golden number, "
        "epact with solar/lunar corrections, paschal full moon, next Sunday; 19-entry "
        "table for the Julian calendar). pesach: one case per year 1..3000; weekday in "
        "{Sun, Tue, Thu, Sat} and equal to 1 Tishri(year+3761) - 163 d of the molad/"
        "dehiyyot calendar. moslem: one case per year 1..2500 AH; every date of the year "
        "(month lengths of the reference calendar) is converted with moslem2gregorian, "
        "compared with the reference, converted back with gregorian2moslem (round trip), "
        "must fall on the day after the previous date's civil day (the chain continues "
        "from the last day of the year before), and the civil days of consecutive month "
        "and year starts must be 29/30 and 354/355 apart. civil: one case per civil "
        "year 622..3000; every civil day from 622-07-16 is converted with "
        "gregorian2moslem, compared with the reference, converted back, and must be the "
        "successor (day+1, or day 1 of the next month after day 29 or 30, month 12 -> "
        "month 1 of the next year) of the previous day's Moslem date. Every enumerated "
        "year/date is distinct by construction and counts as non-trivial; "
        "distinct_nontrivial is the number of years (easter, pesach) plus dates "
        "(moslem, civil) enumerated."
        " The Easter and Pesach years are enumerated three times, each in a process of its own: ascending, descending and in a seed-derived permutation, the last two after calls for years outside the domain (not asserted). Every seventh civil day is also given as a float and with decimals of the day (0.25 .. 0.999): the same Moslem date or a TypeError/ValueError.")
ASSUMPTIONS = [
    "arithmetic Islamic calendar = civil (Friday) epoch 16 July 622 Julian, JD 1948439.5, "
    "leap years 2, 5, 7, 10, 13, 16, 18, 21, 24, 26, 29 of every 30 (the intercalation "
    "Meeus' recipe implements)",
    "returned tuples are compared by value: (1161, 1, 5.0) equals (1161, 1, 5); the "
    "property does not state the numeric type of the day",
    "day 30 of a 29-day Moslem month is not a date of the calendar and is not enumerated",
    "Pesach in civil year y is 15 Nisan of Hebrew year y + 3760, i.e. 163 days before "
    "1 Tishri of Hebrew year y + 3761; it falls in March/April (May never for 1..3000) of "
    "the calendar in force",
]

SUN, MON, TUE, WED, THU, FRI, SAT = range(7)


def self_test():
    comp.self_test()


def _era(y):
    return "gregorian" if y >= 1583 else "julian"


def _year_labels(y, labels, pre):
    labels.append(pre + _era(y))
    if y in (1582, 1583):
        labels.append(pre + str(y))
    if y % 100 == 0:
        labels.append(pre + "century_year")
    if y <= 0:
        labels.append(pre + "year<=0")


def _as_int(v):
    """Integral value of a returned tuple element (int or float), else None."""
    if isinstance(v, bool) or not isinstance(v, (int, float)):
        return None
    if v != int(v):
        return None
    return int(v)


# ------------------------------------------------------------------------------ easter

def body_easter(case):
    y = case["year"]
    got = Epoch.easter(y)
    site = "Epoch.easter"
    if not (isinstance(got, tuple) and len(got) == 2
            and _as_int(got[0]) is not None and _as_int(got[1]) is not None):
        raise Violation("easter(%d) returned %r, not a (month, day) tuple" % (y, got),
                        site=site, kind="shape", year=y)
    m, d = _as_int(got[0]), _as_int(got[1])
    era = _era(y)
    if not ((3, 22) <= (m, d) <= (4, 25)) or d > (31 if m == 3 else 30):
        raise Violation("easter(%d) = %r is outside 22 March..25 April" % (y, got),
                        site=site, kind="range:" + era, year=y, got=[m, d])
    n = cal.jdn_gregorian(y, m, d) if y >= 1583 else cal.jdn_julian(y, m, d)
    wd = cal.weekday(n)
    if wd != SUN:
        raise Violation("easter(%d) = %r is weekday %d of the %s calendar, not a Sunday"
                        % (y, got, wd, era), site=site, kind="weekday:" + era, year=y,
                        got=[m, d], weekday=wd)
    want = comp.easter(y)
    if (m, d) != want:
        raise Violation("easter(%d) = %r, the tabular Computus (%s) gives %r"
                        % (y, got, era, want), site=site, kind="computus:" + era, year=y,
                        got=[m, d], want=list(want))
    labels = []
    _year_labels(y, labels, "easter:")
    if (m, d) == (3, 22):
        labels.append("easter_22_march")
    if (m, d) == (4, 25):
        labels.append("easter_25_april")
    if y >= 1583:
        g = comp.golden_number(y)
        c = y // 100 + 1
        raw = (11 * g + 20 + ((8 * c + 5) // 25 - 5) - (3 * c // 4 - 12)) % 30
        if raw == 24:
            labels.append("epact_24_shifted")
        if raw == 25 and g > 11:
            labels.append("epact_25_shifted")
    return {"labels": labels, "nontrivial": True, "show": {"easter": [m, d]}}


# ------------------------------------------------------------------------------ pesach

def body_pesach(case):
    y = case["year"]
    got = Epoch.jewish_pesach(y)
    site = "Epoch.jewish_pesach"
    if not (isinstance(got, tuple) and len(got) == 2
            and _as_int(got[0]) is not None and _as_int(got[1]) is not None):
        raise Violation("jewish_pesach(%d) returned %r, not a (month, day) tuple" % (y, got),
                        site=site, kind="shape", year=y)
    m, d = _as_int(got[0]), _as_int(got[1])
    era = _era(y)
    if not (1 <= m <= 12 and 1 <= d <= cal.month_len(y, m)):
        raise Violation("jewish_pesach(%d) = %r is not a date" % (y, got), site=site,
                        kind="invalid_date:" + era, year=y, got=[m, d])
    wy, wm, wdd = comp.pesach(y)
    wd = cal.weekday(cal.jdn(y, m, d))
    if wd not in (SUN, TUE, THU, SAT):
        raise Violation("jewish_pesach(%d) = %r is weekday %d (0 = Sunday) of the %s "
                        "calendar; Pesach falls only on Sun, Tue, Thu, Sat; the arithmetic "
                        "Hebrew calendar gives %r" % (y, got, wd, era, (wm, wdd)),
                        site=site, kind="weekday:" + era, year=y, got=[m, d], weekday=wd,
                        want=[wm, wdd])
    if wy != y:
        raise AssertionError("oracle: Pesach of %d falls in civil year %d" % (y, wy))
    if (m, d) != (wm, wdd):
        raise Violation("jewish_pesach(%d) = %r, 15 Nisan %d of the arithmetic Hebrew "
                        "calendar (1 Tishri %d - 163 d) is %r"
                        % (y, got, y + 3760, y + 3761, (wm, wdd)), site=site,
                        kind="hebrew_calendar:" + era, year=y, got=[m, d], want=[wm, wdd])
    labels = []
    _year_labels(y, labels, "pesach:")
    labels.append("pesach_weekday_%d" % wd)
    hy = y + 3761
    day, tod = comp.molad_tishri(hy)
    shift = comp.rosh_hashanah(hy) - day
    labels.append("rosh_hashanah_postponed_%d" % shift)
    if comp.hebrew_leap(hy - 1):
        labels.append("hebrew_leap_year")
    return {"labels": labels, "nontrivial": True, "show": {"pesach": [m, d]}}


# ------------------------------------------------------------------------------ moslem

def _civil_jdn(t, what, site, kindsfx, **data):
    """JDN of a civil (y, m, d) tuple returned by the library; Violation if it is not an
    existing civil date."""
    ok = isinstance(t, tuple) and len(t) == 3 and all(_as_int(v) is not None for v in t)
    if ok:
        y, m, d = (_as_int(v) for v in t)
        ok = 1 <= m <= 12 and 1 <= d <= cal.month_len(y, m) and \
            not (y == 1582 and m == 10 and 5 <= d <= 14)
    if not ok:
        raise Violation("%s = %r is not a civil date" % (what, t), site=site,
                        kind="invalid_civil_date:" + kindsfx, got=repr(t), **data)
    return cal.jdn(y, m, d), (y, m, d)


def _civil_class(ymd):
    era = "julian" if cal.is_julian_date(*ymd) else "gregorian"
    if ymd[0] in (1582, 1583, 1584):
        era += ":%d" % ymd[0]
    return era + (":jan_feb" if ymd[1] < 3 else "")


def _m2g(h, m, d):
    site = "Epoch.moslem2gregorian"
    want_n = comp.islamic_to_jdn(h, m, d)
    want = cal.from_jdn(want_n)
    cls = _civil_class(want)
    got = Epoch.moslem2gregorian(h, m, d)
    n, g = _civil_jdn(got, "moslem2gregorian(%d, %d, %d)" % (h, m, d), site, cls,
                      moslem=[h, m, d], want=list(want))
    if g != want:
        raise Violation("moslem2gregorian(%d, %d, %d) = %r, the arithmetic Islamic calendar "
                        "gives %r (%+d d)" % (h, m, d, got, want, n - want_n), site=site,
                        kind="arithmetic_calendar:" + cls, moslem=[h, m, d], got=list(g),
                        want=list(want), off_days=n - want_n)
    return n, g, cls


def body_moslem(case):
    h = case["h"]
    labels = {}

    def lab(k, c=1):
        labels[k] = labels.get(k, 0) + c

    prev_n = None
    if h > 1:
        lm = 12
        ld = comp.islamic_month_len(h - 1, 12)
        prev_n, _, _ = _m2g(h - 1, lm, ld)
    n_dates = 0
    month_start = []
    first = last = None
    for m in range(1, 13):
        L = comp.islamic_month_len(h, m)
        for d in range(1, L + 1):
            n, g, cls = _m2g(h, m, d)
            back = Epoch.gregorian2moslem(*g)
            if not (isinstance(back, tuple) and len(back) == 3) or \
                    tuple(_as_int(v) for v in back) != (h, m, d):
                raise Violation("round trip: moslem2gregorian(%d, %d, %d) = %r, "
                                "gregorian2moslem of that = %r" % (h, m, d, g, back),
                                site="Epoch.gregorian2moslem", kind="roundtrip:" + cls,
                                moslem=[h, m, d], civil=list(g), back=repr(back))
            if prev_n is not None and n - prev_n != 1:
                raise Violation("consecutive Moslem dates: %d-%d-%d falls %d civil days "
                                "after the date before it" % (h, m, d, n - prev_n),
                                site="Epoch.moslem2gregorian", kind="consecutive:" + cls,
                                moslem=[h, m, d], gap=n - prev_n)
            prev_n = n
            if d == 1:
                month_start.append(n)
            n_dates += 1
            lab("moslem:" + cls.split(":")[0])
            if ":jan_feb" in cls:
                lab("moslem:jan_feb")
            for yy in ("1582", "1583", "1584"):
                if (":" + yy) in cls:
                    lab("moslem:civil_" + yy)
            if first is None:
                first = g
            last = g
    # month and year lengths as the library has them (civil days between starts)
    nxt, _, _ = _m2g(h + 1, 1, 1)
    month_start.append(nxt)
    for m in range(1, 13):
        L = month_start[m] - month_start[m - 1]
        if L not in (29, 30):
            raise Violation("Moslem month %d-%d lasts %d civil days" % (h, m, L),
                            site="Epoch.moslem2gregorian", kind="month_length",
                            moslem=[h, m, 1], length=L)
    Y = month_start[12] - month_start[0]
    if Y not in (354, 355):
        raise Violation("Moslem year %d lasts %d civil days" % (h, Y),
                        site="Epoch.moslem2gregorian", kind="year_length", h=h, length=Y)
    lab("moslem:leap_year_355" if Y == 355 else "moslem:common_year_354")
    lab("moslem:years")
    if first[0] % 100 == 0 or last[0] % 100 == 0:
        lab("moslem:touches_century_year")
    return {"n": n_dates, "nt": n_dates, "labels": labels,
            "show": {"dates": n_dates, "first": list(first), "last": list(last)}}


# ------------------------------------------------------------------------------ civil

FIRST_CIVIL = (622, 7, 16)


def _g2m(y, m, d):
    site = "Epoch.gregorian2moslem"
    cls = _civil_class((y, m, d))
    n = cal.jdn(y, m, d)
    want = comp.islamic_from_jdn(n)
    got = Epoch.gregorian2moslem(y, m, d)
    ok = isinstance(got, tuple) and len(got) == 3 and \
        all(_as_int(v) is not None for v in got)
    g = tuple(_as_int(v) for v in got) if ok else None
    if not ok or not (g[0] >= 1 and 1 <= g[1] <= 12 and 1 <= g[2] <= 30):
        raise Violation("gregorian2moslem(%d, %d, %d) = %r is not a Moslem date; the "
                        "arithmetic Islamic calendar gives %r" % (y, m, d, got, want),
                        site=site, kind="invalid_moslem_date:" + cls, civil=[y, m, d],
                        got=repr(got), want=list(want))
    if g != want:
        try:
            off = comp.islamic_to_jdn(*g) - n
        except Exception:
            off = None
        raise Violation("gregorian2moslem(%d, %d, %d) = %r, the arithmetic Islamic calendar "
                        "gives %r" % (y, m, d, got, want), site=site,
                        kind="arithmetic_calendar:" + cls, civil=[y, m, d], got=list(g),
                        want=list(want), off_days=off)
    if n % 7 == 0:
        # a time of day carried as decimals of the day (the library's usual date form; the type
        # check admits floats): the same civil day, or a refusal - never another date
        fr = (0.25, 0.5, 0.75, 0.999)[(n // 7) % 4]
        for dd in (float(d), d + fr):
            try:
                got2 = Epoch.gregorian2moslem(y, m, dd)
            except (TypeError, ValueError):
                continue
            g2 = tuple(_as_int(v) for v in got2) if isinstance(got2, tuple) and len(got2) == 3 else None
            if g2 != want:
                raise Violation("gregorian2moslem(%d, %d, %r) = %r; for day %d of that month it is %r"
                                % (y, m, dd, got2, d, want), site=site,
                                kind="day_with_decimals:" + cls, civil=[y, m, dd], got=repr(got2),
                                want=list(want))
    return g, cls


def _successor_ok(p, q):
    """q is a possible successor of Moslem date p (month 29/30 days)."""
    if q == (p[0], p[1], p[2] + 1):
        return p[2] + 1 <= 30
    if p[2] not in (29, 30) or q[2] != 1:
        return False
    if p[1] < 12:
        return q[:2] == (p[0], p[1] + 1)
    return q[:2] == (p[0] + 1, 1)


def body_civil(case):
    y = case["year"]
    labels = {}

    def lab(k, c=1):
        labels[k] = labels.get(k, 0) + c

    days = [(y, m, d) for (m, d) in cal.days_of_year(y) if (y, m, d) >= FIRST_CIVIL]
    prev = None
    if (y - 1, 12, 31) >= FIRST_CIVIL:
        prev, _ = _g2m(y - 1, 12, 31)
    n_days = 0
    for (yy, m, d) in days:
        g, cls = _g2m(yy, m, d)
        back = Epoch.moslem2gregorian(*g)
        if not (isinstance(back, tuple) and len(back) == 3) or \
                tuple(_as_int(v) for v in back) != (yy, m, d):
            raise Violation("round trip: gregorian2moslem(%d, %d, %d) = %r, "
                            "moslem2gregorian of that = %r" % (yy, m, d, g, back),
                            site="Epoch.moslem2gregorian", kind="roundtrip:" + cls,
                            civil=[yy, m, d], moslem=list(g), back=repr(back))
        if prev is not None and not _successor_ok(prev, g):
            raise Violation("consecutive civil days: %d-%d-%d is Moslem %r, the day before "
                            "was %r" % (yy, m, d, g, prev), site="Epoch.gregorian2moslem",
                            kind="consecutive:" + cls, civil=[yy, m, d], got=list(g),
                            prev=list(prev))
        if prev is not None and g[2] == 1:
            lab("civil:moslem_month_of_%d_days" % prev[2])
            if g[1] == 1:
                lab("civil:moslem_new_year")
        prev = g
        n_days += 1
        lab("civil:" + cls.split(":")[0])
        if m < 3:
            lab("civil:jan_feb")
        if m == 2 and d == 29:
            lab("civil:leap_day")
    if y in (1582, 1583, 1584):
        lab("civil:%d" % y, n_days)
    if y % 100 == 0:
        lab("civil:century_year", n_days)
    lab("civil:years")
    return {"n": n_days, "nt": n_days, "labels": labels,
            "show": {"days": n_days, "first": list(days[0]), "last": list(days[-1])}}


CLAUSES = {"easter": body_easter, "pesach": body_pesach, "moslem": body_moslem,
           "civil": body_civil}


# ------------------------------------------------------------------------------ tasks

EASTER_YEARS = (-4712, 10000)
PESACH_YEARS = (1, 3000)
MOSLEM_YEARS = (1, 2500)
CIVIL_YEARS = (622, 3000)


def tasks(tier, seed):
    # Both tiers enumerate the whole domain (about 10 s on 16 cores); the seed only
    # rotates which shard gets which residue class.
    out = []
    nm = 14
    rot = seed % nm
    for i in range(nm):
        out.append(Task("t_range", clause="moslem", key="h", lo=MOSLEM_YEARS[0],
                        hi=MOSLEM_YEARS[1], mod=nm, res=(i + rot) % nm))
        out.append(Task("t_range", clause="civil", key="year", lo=CIVIL_YEARS[0],
                        hi=CIVIL_YEARS[1], mod=nm, res=(i + rot) % nm))
    for i in range(3):
        out.append(Task("t_range", clause="easter", key="year", lo=EASTER_YEARS[0],
                        hi=EASTER_YEARS[1], mod=3, res=i))
    out.append(Task("t_range", clause="pesach", key="year", lo=PESACH_YEARS[0],
                    hi=PESACH_YEARS[1], mod=1, res=0))
    # the same years in other orders, each in a process of its own (the answers are functions of
    # the year: nothing asked earlier - in or outside the domain - may change them)
    out.append(Task("t_order", clause="easter", lo=EASTER_YEARS[0], hi=EASTER_YEARS[1], how="descending", seed=seed))
    out.append(Task("t_order", clause="easter", lo=EASTER_YEARS[0], hi=EASTER_YEARS[1], how="shuffled", seed=seed))
    out.append(Task("t_order", clause="pesach", lo=PESACH_YEARS[0], hi=PESACH_YEARS[1], how="descending", seed=seed))
    out.append(Task("t_order", clause="pesach", lo=PESACH_YEARS[0], hi=PESACH_YEARS[1], how="shuffled", seed=seed))
    return out


def t_order(rec, clause, lo, hi, how, seed):
    years = list(range(lo, hi + 1))
    fn = Epoch.easter if clause == "easter" else Epoch.jewish_pesach
    if how == "descending":
        years.reverse()
        prelude = list(range(hi + 3000, hi, -1)) + list(range(lo - 1, lo - 3001, -1))
    else:
        # a fixed permutation of the seed: multiplicative walk over the residues
        n = len(years)
        step = 7919 + 2 * (seed % 1000)
        while math.gcd(step, n) != 1:
            step += 1
        years = [years[(i * step + seed) % n] for i in range(n)]
        prelude = [lo - 1 - (i * 37) % 3000 for i in range(200)] + [hi + 1 + (i * 41) % 3000 for i in range(200)]
    # years next to the domain are asked first; what they return (or raise) is not asserted
    for y in prelude:
        try:
            fn(y)
        except Exception:       # noqa: outside the domain of the property
            pass
    for y in years:
        rec.case(clause, {"year": y})


def t_range(rec, clause, key, lo, hi, mod, res):
    for v in range(lo, hi + 1):
        if (v - lo) % mod == res:
            rec.case(clause, {key: v})
