"""C02 - instants survive JDE <-> date/time; input forms agree; Epoch arithmetic.

Hypothesis with boundary-aware instants (vf/epoch_strategies.py).  Oracle: the integer
civil calendar (vf/oracles/calendar.py) plus exact rational day fractions: a float *is* a
rational, so "the instant named by these fields" is computed without rounding.
"""
import datetime
import math
from fractions import Fraction as F

from hypothesis import strategies as st

from pymeeus.Epoch import Epoch, JDE2000

from ..core import Violation, Task
from ..oracles import calendar as cal
from .. import epoch_strategies as ES

PROPERTY = "C02"
LEVEL = "exploration"
MANIFEST = {
    "level_text": "Randomised search (Hypothesis, boundary-aware instants: civil midnight, first of month and year, whole seconds, the 1582 reform instant, each +- {0, 1-3 ulp, 1e-12 .. 1 s}; ~100k cases quick, ~4M thorough) over the JDE round trip, every documented constructor signature, the arithmetic and the comparison operators, against the integer calendar with exact rational day fractions. Finds violations; does not prove absence.",
    "level_note": "Trusts the integer-calendar oracle (self-tested against datetime.date and literal anchors) and fractions.Fraction. Tolerances 1e-8 / 1e-9 day as stated; == is asserted outside the documented 1e-10 day tolerance band only.",
    "technique": "property-based testing (Hypothesis) with integer-calendar + exact-rational reference model",
}
RULE = ("Hypothesis-generated cases, five clauses. roundtrip: one JDE in [0, 5.4e6] (float or "
        "int; uniform, or n+0.5 / first of month / first of year / whole second, minute, hour / "
        "2299160.5, displaced by 0, +-1..3 ulp, +-1e-12 .. +-1 s; JD < 400; JD near 5.4e6) -> "
        "Epoch -> get_full_date/get_date -> instant by the integer calendar. monotone: 2-8 such "
        "JDEs clustered round one base, sorted in the test. forms: one civil date (month ends, "
        "leap days, 4 and 15 Oct 1582 over-weighted) and time (field ends, seconds up to "
        "59.99999999999999) given every documented way. arith: one JDE and one offset "
        "|x| <= 1e6 (int or float; 0, +-1e-9 .. +-1e6; clipped so that JDE +- x stays in the "
        "domain), also on the shared JDE2000 object. compare: pairs equal, 1-3 ulp apart, "
        "1e-11 .. 1e-9 apart (both sides of the documented tolerance), far apart. Non-trivial: "
        "JDE within 1 s of a whole minute (hence of any hour/day/month/year boundary) or within "
        "1 ms of a whole second, or an input form other than the plain numeric triple (every "
        "forms case), or a non-zero offset, or a pair less than 1 s apart; distinct = distinct "
        "canonical case."
        " On one roundtrip case in four the object is first asked for its date with an option (utc=True, leap_seconds=) before the plain queries.")
ASSUMPTIONS = [
    "oracle: integer Julian Day Number + exact Fraction of the day; 5-14 October 1582 are not "
    "civil days (a read-back that lands there is a violation of 'day within the month')",
    "tolerances as stated: 1e-8 day for the JDE round trip and the translation laws, 1e-9 day "
    "between input forms (each form against the plain numeric form, and the plain numeric form "
    "against the exact instant); civil years -4712..6000 for the forms clause (float JDE "
    "resolution 4.7e-10 day there)",
    "date/datetime forms only where datetime accepts the fields (years 1-9999, proleptic "
    "Gregorian month lengths); the fields are taken literally, as the docstring example does",
    "check_input_date keeps year, month, day only (it is the *date* helper): it is compared with "
    "the date at 0h + the fractional day; for dates from 1972 it is called with leap_seconds=0 "
    "(documented: conversion disabled), because its docstring and its code disagree about the "
    "default (UTC behaviour belongs to C10)",
    "== / != are asserted as: equal JDE -> equal; |difference| >= 1e-10 day (the documented "
    "tolerance) -> not equal; in between not asserted either way; != is always the negation",
    "in-place forms: t = e; t += x must give (t - e) = x, i.e. the operand e keeps its value "
    "(this is the translation law in its in-place form, and protects the shared JDE2000)",
    "sensitivity (development time, tree with fixes_proposed/C02-*.diff applied): 20 of 20 "
    "mutants of mutants/C02.json reported as VIOLATION by the quick tier",
    "hash is not asserted (not in the property text); Epoch.utc2local and local= are excluded "
    "(clock dependent); utc=/leap_seconds= belong to C10",
]

TOL8 = F(1, 10 ** 8)
TOL9 = F(1, 10 ** 9)
EQ_TOL = 1e-10
Y_FORMS = (-4712, 6000)


def self_test():
    cal.self_test()
    assert _instant((2000, 1, 1, 12, 0, 0.0)) == F(2451545)
    assert _instant((1582, 10, 15, 0, 0, 0.0)) == F(ES.REFORM)
    assert _instant((1582, 10, 4, 23, 59, 59.5)) == F(ES.REFORM) - F(1, 172800)


# ------------------------------------------------------------------ helpers

def _instant(fields):
    y, m, d, h, mi, s = fields
    return cal.jdn(y, m, d) - F(1, 2) + (F(h) * 3600 + F(mi) * 60 + F(s)) / 86400


def _is_int(x):
    return isinstance(x, int) and not isinstance(x, bool)


def _check_fields(fd, what, site):
    y, m, d, h, mi, s = fd
    if not (_is_int(y) and _is_int(m) and _is_int(d) and _is_int(h) and _is_int(mi)
            and isinstance(s, float)):
        raise Violation("%s = %r: fields are not (int, int, int, int, int, float)" % (what, fd),
                        site=site, kind="field_type", got=list(fd))
    if not (0 <= h <= 23 and 0 <= mi <= 59 and 0.0 <= s < 60.0):
        raise Violation("%s = %r: hour/minute/second out of canonical range" % (what, fd),
                        site=site, kind="field_range", got=list(fd))
    if not (1 <= m <= 12) or not (1 <= d <= cal.month_len(y, m)) \
            or (y == 1582 and m == 10 and 5 <= d <= 14):
        raise Violation("%s = %r: day is not a day of that month" % (what, fd), site=site,
                        kind="day_range", got=list(fd))


def _boundary_labels(j):
    """Labels describing how close the instant is to field boundaries."""
    labels = []
    fj = F(j) + F(1, 2)
    n = math.floor(fj)
    sod = (fj - n) * 86400                    # seconds of the civil day, exact
    near = lambda unit, tol: min(sod % unit, unit - sod % unit) <= tol
    nt = False
    if near(86400, 1):
        labels.append("within_1s_of_midnight")
        y, m, d = cal.from_jdn(n if sod < 43200 else n + 1)
        if d == 1:
            labels.append("within_1s_of_month_start")
            if m == 1:
                labels.append("within_1s_of_year_start")
        nt = True
    elif near(3600, 1):
        labels.append("within_1s_of_whole_hour")
        nt = True
    elif near(60, 1):
        labels.append("within_1s_of_whole_minute")
        nt = True
    if near(1, F(1, 1000)):
        labels.append("within_1ms_of_whole_second")
        nt = True
    if near(86400, F(1, 10000)):
        labels.append("within_0.1ms_of_midnight")
    if abs(F(j) - F(ES.REFORM)) <= F(2, 86400):
        labels.append("reform_instant")
    if j < 400:
        labels.append("jd<400")
    if j > 4194304:
        labels.append("jd>2^22")
    return labels, nt


# ------------------------------------------------------------------ roundtrip

def body_roundtrip(case):
    j = case["j"]
    e = Epoch(j)
    je = e.jde()
    if not abs(F(je) - F(j)) <= TOL8:
        raise Violation("Epoch(%r).jde() = %r (off by %.3e day)" % (j, je, je - j),
                        site="Epoch.set", kind="jde_roundtrip", jde=j, got=je, off=je - j)
    # on one case in four the object is first asked for its date with an option (documented
    # keywords of the same methods): the plain answers that follow are about the instant, not about
    # what was asked before
    k = int(abs(j) * 16.0) % 8
    if k == 1:
        e.get_date(utc=True)
    elif k == 5:
        e.get_full_date(utc=True)
        e.get_date(leap_seconds=35)
    fd = e.get_full_date()
    what = "Epoch(%r).get_full_date()" % (j,)
    _check_fields(fd, what, "Epoch.get_full_date")
    back = _instant(fd)
    if not abs(back - F(j)) <= TOL8:
        raise Violation("%s = %r names an instant %.3e day away from the JDE"
                        % (what, fd, float(back - F(j))), site="Epoch.get_full_date",
                        kind="fields_roundtrip", jde=j, got=list(fd), off=float(back - F(j)))
    # fields -> JDE through the library
    j2 = Epoch(*fd).jde()
    if not abs(F(j2) - F(j)) <= TOL8:
        raise Violation("Epoch(*Epoch(%r).get_full_date()).jde() = %r with fields %r (off by %.3e "
                        "day)" % (j, j2, fd, j2 - j), site="Epoch._compute_jde",
                        kind="fields_roundtrip_library", jde=j, got=j2, fields=list(fd), off=j2 - j)
    gd = e.get_date()
    y, m, dd = gd
    if not (_is_int(y) and _is_int(m) and isinstance(dd, float) and 1 <= m <= 12
            and 1 <= int(dd) <= cal.month_len(y, m)) or (y == 1582 and m == 10 and 5 <= int(dd) <= 14):
        raise Violation("Epoch(%r).get_date() = %r is not a civil date" % (j, gd),
                        site="Epoch.get_date", kind="day_range", jde=j, got=list(gd))
    back = cal.jdn(y, m, int(dd)) - F(1, 2) + (F(dd) - int(dd))
    if not abs(back - F(j)) <= TOL8:
        raise Violation("Epoch(%r).get_date() = %r names an instant %.3e day away from the JDE"
                        % (j, gd, float(back - F(j))), site="Epoch.get_date",
                        kind="date_roundtrip", jde=j, got=list(gd), off=float(back - F(j)))
    labels, nt = _boundary_labels(j)
    if _is_int(j):
        labels.append("jde_given_as_int")
    return {"labels": labels or ["mid_minute"], "nontrivial": nt,
            "show": {"fields": list(fd), "jde_back": j2}}


def body_monotone(case):
    js = sorted(case["js"])
    prev = None
    days = set()
    close = False
    for j in js:
        fd = tuple(Epoch(j).get_full_date())
        _check_fields(fd, "Epoch(%r).get_full_date()" % (j,), "Epoch.get_full_date")
        if prev is not None:
            if fd < prev[1]:
                raise Violation("date tuple decreases as JDE grows: JDE %r -> %r, then JDE %r -> %r"
                                % (prev[0], prev[1], j, fd), site="Epoch.get_full_date",
                                kind="not_monotone", jde=j, prev_jde=prev[0], got=list(fd),
                                prev=list(prev[1]))
            if j - prev[0] <= ES.SEC:
                close = True
        prev = (j, fd)
        days.add(math.floor(j + 0.5))
    labels = []
    if len(days) > 1:
        labels.append("straddles_midnight")
    if close:
        labels.append("neighbours_within_1s")
    if any(abs(j - ES.REFORM) < 12 for j in js):
        labels.append("near_reform")
    return {"labels": labels or ["spread"], "nontrivial": close or len(days) > 1,
            "show": {"last": list(prev[1])}}


# ------------------------------------------------------------------ input forms

def _month_spelling(m, k):
    kind = k % 8
    if kind == 0:
        return float(m)
    s = cal.SHORT[m - 1] if kind in (1, 2, 3) else cal.LONG[m - 1]
    if kind in (2, 5):
        return s.upper()
    if kind in (3, 6):
        return s.lower()
    return s


def body_forms(case):
    y, m, d = case["date"]
    h, mi, s = case["time"]
    k = case["k"]                      # rotation of spellings / dispatch styles
    fields = (y, m, d, h, mi, s)
    exact = _instant(fields)
    labels = []
    n = 0

    plain = Epoch(y, m, d, h, mi, s)
    jp = plain.jde()
    if not abs(F(jp) - exact) <= TOL9:
        raise Violation("Epoch%r.jde() = %r; integer calendar + exact day fraction = %r (off by "
                        "%.3e day)" % (fields, jp, float(exact), float(F(jp) - exact)),
                        site="Epoch._compute_jde", kind="plain_vs_exact", fields=list(fields),
                        got=jp, off=float(F(jp) - exact))
    n += 1

    def same(e, what, site="Epoch.set", ref=jp, refwhat="Epoch%r" % (fields,)):
        if not isinstance(e, Epoch):
            raise Violation("%s returned %r, not an Epoch" % (what, type(e)), site=site, kind="type")
        if not abs(F(e.jde()) - F(ref)) <= TOL9:
            raise Violation("%s .jde() = %r but %s .jde() = %r (%.3e day apart)"
                            % (what, e.jde(), refwhat, ref, e.jde() - ref), site=site,
                            kind="forms_disagree", fields=list(fields), form=what,
                            got=e.jde(), want=ref, off=e.jde() - ref)

    def via(args, kind):
        """dispatch style: separate arguments, tuple, list, set(), set(tuple)"""
        if kind == 0:
            return Epoch(*args), "Epoch%r" % (tuple(args),)
        if kind == 1:
            return Epoch(tuple(args)), "Epoch(%r)" % (tuple(args),)
        if kind == 2:
            lst = list(args)
            e = Epoch(lst)
            if lst != list(args) or [type(v) for v in lst] != [type(v) for v in args]:
                raise Violation("Epoch(%r) changed the caller's list to %r" % (list(args), lst),
                                site="Epoch.set", kind="argument_mutated")
            return e, "Epoch(%r)" % (list(args),)
        e = Epoch(1234567.25)
        if kind == 3:
            r = e.set(*args)
            what = "Epoch(1234567.25).set%r" % (tuple(args),)
        else:
            r = e.set(list(args))
            what = "Epoch(1234567.25).set(%r)" % (list(args),)
        if r is not None:
            raise Violation("%s returned %r" % (what, r), site="Epoch.set", kind="type")
        return e, what

    # 1. every dispatch style with the plain numeric fields
    for kind in range(5):
        e, what = via(fields, kind)
        same(e, what)
        n += 1
    # 2. month spellings and float year/month, dispatch style rotating
    for i in range(3):
        mm = _month_spelling(m, k + 3 * i)
        yy = float(y) if (k + i) % 3 == 0 else y
        e, what = via((yy, mm, d, h, mi, s), (k + i) % 5)
        same(e, what)
        n += 1
    labels.append("month_names")
    # 3. trailing zero fields left out
    if s == 0:
        cands = [(y, m, d, h, mi)]
        if mi == 0:
            cands.append((y, m, d, h))
            if h == 0:
                cands.append((y, m, d))
        args = cands[k % len(cands)]
        e, what = via(args, k % 5)
        same(e, what)
        n += 1
        labels.append("%d_arguments" % len(args))
    # 4. fractional day instead of h/m/s
    frac = (F(h) * 3600 + F(mi) * 60 + F(s)) / 86400
    dd = d + float(frac)
    if int(dd) == d:
        e, what = via((y, _month_spelling(m, k + 1), dd), (k + 2) % 5)
        same(e, what)
        n += 1
        labels.append("fractional_day")
    else:
        labels.append("fractional_day_rounds_to_next_day:skipped")
        dd = float(d)
    # 5. copy of another Epoch, JDE value
    e = Epoch(plain)
    same(e, "Epoch(Epoch%r)" % (fields,))
    e2 = Epoch(77.0)
    e2.set(plain)
    same(e2, "Epoch(77.0).set(Epoch%r)" % (fields,))
    if plain.jde() != jp:
        raise Violation("copying Epoch%r changed it to %r" % (fields, plain.jde()),
                        site="Epoch.set", kind="operand_mutated")
    same(Epoch(jp), "Epoch(%r)" % jp)
    n += 3
    labels.append("copy_and_jde")
    # 6. date / datetime (fields taken literally; only where datetime has that date)
    if 1 <= y <= 9999:
        try:
            dt0 = datetime.date(y, m, d)
        except ValueError:
            dt0 = None
            labels.append("date_not_in_datetime:skipped")
        if dt0 is not None:
            ref0 = Epoch(y, m, d).jde()
            same(Epoch(dt0), "Epoch(%r)" % (dt0,), ref=ref0, refwhat="Epoch(%d, %d, %d)" % (y, m, d))
            us = int(round((F(s) - int(s)) * 10 ** 6))
            si = int(s)
            if us == 10 ** 6:
                us = 999999
            dt = datetime.datetime(y, m, d, h, mi, si, us)
            refdt = Epoch(y, m, d, h, mi, si + us / 1e6).jde()
            e = Epoch(dt) if k % 2 else Epoch(0.0)
            if not k % 2:
                e.set(dt)
            same(e, "Epoch(%r)" % (dt,), ref=refdt,
                 refwhat="Epoch%r" % ((y, m, d, h, mi, si + us / 1e6),))
            n += 2
            labels.append("date_datetime")
            if y < 1582:
                labels.append("datetime_in_julian_era")
    # 7. check_input_date: the date helper (year, month, day[.fraction] only)
    refd = Epoch(y, m, dd).jde()
    refwhat = "Epoch(%d, %d, %r)" % (y, m, dd)
    kws = [{"leap_seconds": 0.0}] if y >= 1972 else [{}, {"leap_seconds": 0.0}]
    kw = kws[k % len(kws)]
    mm = _month_spelling(m, k + 5)
    cid = Epoch.check_input_date
    for args, what in (((y, mm, dd), "check_input_date(%r, %r, %r)" % (y, mm, dd)),
                       (((y, mm, dd),), "check_input_date(%r)" % ((y, mm, dd),)),
                       (([y, m, dd],), "check_input_date(%r)" % ([y, m, dd],)),
                       ((Epoch(y, m, dd),), "check_input_date(Epoch(%r, %r, %r))" % (y, m, dd))):
        same(cid(*args, **kw), what, site="Epoch.check_input_date", ref=refd, refwhat=refwhat)
        n += 1
    if 1 <= y <= 9999 and dt0 is not None:
        same(cid(dt0, **kw), "check_input_date(%r)" % (dt0,), site="Epoch.check_input_date",
             ref=Epoch(y, m, d).jde(), refwhat="Epoch(%d, %d, %d)" % (y, m, d))
        n += 1
    labels.append("check_input_date")
    # classes of the date/time itself
    if d == cal.month_len(y, m):
        labels.append("month_end")
    if (m, d) == (2, 29):
        labels.append("leap_day")
    if y == 1582 and m == 10:
        labels.append("october_1582")
    if y <= 0:
        labels.append("year<=0")
    if s >= 59.999:
        labels.append("second>=59.999")
    if (h, mi) == (23, 59) and s >= 59:
        labels.append("last_second_of_day")
    return {"n": n, "labels": labels, "nontrivial": True, "show": {"jde": jp, "forms": n}}


# ------------------------------------------------------------------ arithmetic

def body_arith(case):
    x = case["x"]
    shared = case.get("jde2000", False)
    e = JDE2000 if shared else Epoch(case["j"])
    je = e.jde()
    fx = F(x)

    def law(diff, what, site):
        if not isinstance(diff, float):
            raise Violation("%s is %r, not a float" % (what, diff), site="Epoch.__sub__", kind="type")
        if not abs(F(diff) - fx) <= TOL8:
            raise Violation("%s = %r for e = Epoch(%r), x = %r (off by %.3e day)"
                            % (what, diff, je, x, diff - x), site=site, kind="translation",
                            jde=je, x=x, got=diff, off=diff - x)

    def agree(r, ref, what, site):
        if not isinstance(r, Epoch):
            raise Violation("%s is %r, not an Epoch" % (what, type(r)), site=site, kind="type")
        if not abs(F(r.jde()) - F(ref.jde())) <= TOL9:
            raise Violation("%s has JDE %r, the plain form has %r (e = Epoch(%r), x = %r)"
                            % (what, r.jde(), ref.jde(), je, x), site=site, kind="forms_disagree",
                            jde=je, x=x, got=r.jde(), want=ref.jde())

    def untouched(after):
        if e.jde() != je:
            raise Violation("%s changed its Epoch operand from JDE %r to %r%s"
                            % (after, je, e.jde(), " (the shared JDE2000 constant)" if shared else ""),
                            site=after, kind="operand_mutated", jde=je, x=x, now=e.jde())

    a = e + x
    if not isinstance(a, Epoch):
        raise Violation("e + x is %r" % type(a), site="Epoch.__add__", kind="type")
    law(a - e, "(e + x) - e", "Epoch.__add__")
    untouched("Epoch.__add__")
    b = e - x
    if not isinstance(b, Epoch):
        raise Violation("e - x is %r" % type(b), site="Epoch.__sub__", kind="type")
    law(e - b, "e - (e - x)", "Epoch.__sub__")
    untouched("Epoch.__sub__")
    r = x + e
    agree(r, a, "x + e", "Epoch.__radd__")
    law(r - e, "(x + e) - e", "Epoch.__radd__")
    untouched("Epoch.__radd__")
    t = e
    t += x
    agree(t, a, "e += x", "Epoch.__iadd__")
    law(t - e, "t = e; t += x; t - e", "Epoch.__iadd__")
    untouched("Epoch.__iadd__")
    u = e
    u -= x
    agree(u, b, "e -= x", "Epoch.__isub__")
    law(e - u, "u = e; u -= x; e - u", "Epoch.__isub__")
    untouched("Epoch.__isub__")
    if shared and JDE2000.jde() != 2451545.0:
        raise Violation("JDE2000 is now %r" % JDE2000.jde(), site="Epoch.__iadd__",
                        kind="operand_mutated")
    labels = ["x_int" if _is_int(x) else "x_float"]
    if shared:
        labels.append("shared_JDE2000")
    ax = abs(x)
    labels.append("x=0" if x == 0 else "|x|<1e-6" if ax < 1e-6 else "|x|<1" if ax < 1
                  else "|x|<1e3" if ax < 1e3 else "|x|>=1e3")
    if math.floor(je + 0.5) != math.floor(a.jde() + 0.5):
        labels.append("crosses_midnight")
    if (je < ES.REFORM) != (a.jde() < ES.REFORM) or (je < ES.REFORM) != (b.jde() < ES.REFORM):
        labels.append("crosses_reform")
    return {"n": 5, "labels": labels, "nontrivial": x != 0,
            "show": {"e": je, "e+x": a.jde(), "e-x": b.jde()}}


# ------------------------------------------------------------------ comparison

def body_compare(case):
    a, b = Epoch(case["ja"]), Epoch(case["jb"])
    va, vb = a.jde(), b.jde()
    what = "a = Epoch(%r) [JDE %r], b = Epoch(%r) [JDE %r]" % (case["ja"], va, case["jb"], vb)

    def chk(got, want, op, site):
        if not isinstance(got, bool):
            raise Violation("a %s b returned %r, not a bool; %s" % (op, got, what), site=site,
                            kind="type")
        if got != want:
            raise Violation("a %s b is %r, the JDE values say %r; %s" % (op, got, want, what),
                            site=site, kind="compare", op=op, ja=va, jb=vb, got=got)

    chk(a < b, va < vb, "<", "Epoch.__lt__")
    chk(a <= b, va <= vb, "<=", "Epoch.__le__")
    chk(a > b, va > vb, ">", "Epoch.__gt__")
    chk(a >= b, va >= vb, ">=", "Epoch.__ge__")
    chk(b < a, vb < va, "(swapped) <", "Epoch.__lt__")
    chk(b <= a, vb <= va, "(swapped) <=", "Epoch.__le__")
    eq, ne = a == b, a != b
    if not isinstance(eq, bool) or not isinstance(ne, bool) or eq == ne:
        raise Violation("a == b is %r and a != b is %r; %s" % (eq, ne, what), site="Epoch.__ne__",
                        kind="eq_ne_inconsistent", ja=va, jb=vb)
    labels = []
    gap = abs(va - vb)            # exact for neighbouring floats
    if gap == 0:
        chk(eq, True, "==", "Epoch.__eq__")
        chk(a == vb, True, "== (float)", "Epoch.__eq__")
        chk(a != vb, False, "!= (float)", "Epoch.__ne__")
        labels.append("equal_jde")
    elif gap >= EQ_TOL:
        chk(eq, False, "==", "Epoch.__eq__")
        chk(a == vb, False, "== (float)", "Epoch.__eq__")
        chk(a != vb, True, "!= (float)", "Epoch.__ne__")
        labels.append("gap<1e-9" if gap < 1e-9 else "gap<1s" if gap < ES.SEC else "far_apart")
    else:
        labels.append("inside_documented_1e-10_tolerance:==_not_asserted")
    if a.jde() != va or b.jde() != vb:
        raise Violation("comparison changed an operand; %s" % what, site="Epoch.__eq__",
                        kind="operand_mutated")
    return {"n": 9, "labels": labels, "nontrivial": gap < ES.SEC, "show": {"gap": gap}}


CLAUSES = {"roundtrip": body_roundtrip, "monotone": body_monotone, "forms": body_forms,
           "arith": body_arith, "compare": body_compare}


# ------------------------------------------------------------------ strategies

def roundtrip_cases():
    ints = st.one_of(st.integers(0, 5400000), st.sampled_from([0, 1, 2299160, 2299161, 2451545]))
    return st.one_of(ES.jdes(), ES.jdes(), ES.jdes(), ES.jdes(), ints).map(lambda j: {"j": j})


def monotone_cases():
    offs = st.lists(st.one_of(st.sampled_from([0.0, 1e-9, -1e-9, 1e-8, -1e-8, 1e-6, -1e-6, ES.SEC,
                                               -ES.SEC, 60 * ES.SEC, -60 * ES.SEC, 1.0, -1.0, 0.5,
                                               -0.5, 1e-10, -1e-10, 5e-10, -5e-10, 31.0, -31.0]),
                              st.floats(-2 * ES.SEC, 2 * ES.SEC), st.floats(-1.5, 1.5),
                              st.floats(-40.0, 40.0)), min_size=2, max_size=8)
    def cluster(base, offs):
        return {"js": [min(ES.JD_MAX, max(0.0, base + o)) for o in offs]}
    return st.one_of(st.builds(cluster, ES.jdes(), offs), st.builds(cluster, ES.jdes(), offs),
                     st.builds(cluster, ES.displaced(st.just(ES.REFORM)), offs),
                     st.lists(ES.jdes(), min_size=2, max_size=8).map(lambda l: {"js": l}))


def forms_cases():
    def build(date, time, k):
        return {"date": list(date), "time": list(time), "k": k}
    midnight = st.sampled_from([(0, 0, 0), (0, 0, 0.0), (23, 59, 59.99999999999999), (12, 0, 0),
                                (23, 59, 59), (0, 0, 1e-9), (23, 59, 59.99999999), (23, 0, 0),
                                (0, 59, 59.5)])
    special = st.sampled_from([(1582, 10, 4), (1582, 10, 15), (1582, 10, 4), (-4712, 1, 1),
                               (6000, 12, 31), (0, 2, 29), (-4, 2, 29), (100, 2, 29), (1500, 2, 29),
                               (1600, 2, 29), (1900, 2, 28), (2000, 2, 29), (1, 1, 1), (0, 12, 31),
                               (1972, 1, 1), (1999, 12, 31)])
    return st.builds(build, st.one_of(ES.civil_dates(), ES.civil_dates(), special),
                     st.one_of(ES.clock_times(), midnight), st.integers(0, 119))


def offsets():
    return st.one_of(st.integers(-10 ** 6, 10 ** 6), st.integers(-400, 400),
                     st.floats(-1e6, 1e6), st.floats(-400.0, 400.0), st.floats(-1.0, 1.0),
                     st.sampled_from([0, 1, -1, 1.0, 0.5, -0.5, 1e-9, -1e-9, 1e-8, -1e-8, 2e-8,
                                      1e-6, ES.SEC, -ES.SEC, 365.25, -365.25, 36525, -36525.0, 10,
                                      10000, 10 ** 6, -10 ** 6, 1e6, -1e6, 999999.9999999999]))


def arith_cases():
    def build(j, x, shared):
        if shared:
            j = 2451545.0
        room = min(j, ES.JD_MAX - j)
        if abs(x) > room:
            x = int(math.copysign(math.floor(room), x)) if _is_int(x) else math.copysign(room, x)
        c = {"j": j, "x": x}
        if shared:
            c["jde2000"] = True
        return c
    return st.builds(build, ES.jdes(), offsets(), st.sampled_from([False] * 7 + [True]))


def compare_cases():
    def near(j, d, k):
        jb = ES._ulps(j, k) if k else j + d
        return {"ja": j, "jb": min(ES.JD_MAX, max(0.0, jb))}
    gaps = st.sampled_from([0.0, 1e-11, -1e-11, 5e-11, -5e-11, 9.9e-11, -9.9e-11, 1e-10, -1e-10,
                            1.1e-10, -1.1e-10, 2e-10, 1e-9, -1e-9, 1e-6, -1e-6, ES.SEC, 1.0, -1.0])
    ks = st.sampled_from([0, 0, 0, 1, -1, 2, -2, 3])
    small = st.one_of(st.floats(0.0, 400.0), st.floats(0.0, 2e5), ES.midnights(0, 200000))
    return st.one_of(st.builds(near, ES.jdes(), gaps, ks), st.builds(near, small, gaps, ks),
                     st.builds(lambda a, b: {"ja": a, "jb": b}, ES.jdes(), ES.jdes()),
                     st.builds(lambda a, sw: {"ja": a, "jb": a}, ES.jdes(), st.booleans()))


STRATS = {"roundtrip": roundtrip_cases, "monotone": monotone_cases, "forms": forms_cases,
          "arith": arith_cases, "compare": compare_cases}


def tasks(tier, seed):
    mult = 1 if tier == "quick" else 40
    plan = {"roundtrip": (6, 6000), "monotone": (3, 3000), "forms": (6, 3000), "arith": (4, 4500),
            "compare": (3, 4000)}
    out = []
    for clause, (shards, n) in plan.items():
        for sh in range(shards if tier == "quick" else shards * 4):
            out.append(Task("t_given", clause=clause, shard=sh,
                            n=n * mult // (1 if tier == "quick" else 4)))
    return out


def t_given(rec, clause, shard, n):
    rec.given(clause, STRATS[clause](), n, shard=shard)
