"""C18 - Earth ellipsoid quantities, surface distance and topocentric parallax.

Hypothesis-driven search.  Oracles are the identities of the property text, evaluated
with elementary float arithmetic written from the definitions (b = a(1 - f), great circle
by unit vectors, the meridian arc as a Gauss-Legendre integral of Earth.rm, the horizontal
parallax bound asin(sin 8.794"/distance) scaled by the observer's geocentric radius).
"""
import math

from hypothesis import strategies as st

from pymeeus.Angle import Angle
from pymeeus.Earth import Earth, Ellipsoid, IAU76, WGS84

from ..core import Violation, Task
from .. import strategies as S

PROPERTY = "C18"
LEVEL = "exploration"
EXHAUSTIVE = {"quick": False, "thorough": False}
MANIFEST = {
    "level_text": "Randomised search (Hypothesis, boundary-aware generators: poles, equator, user ellipsoids, coincident / near-coincident / antipodal / same-meridian / over-the-pole / equatorial point pairs, distances log-uniform 1e-3..1e3 AU with horizon and polar bodies; ~140k cases quick, ~3.5M thorough) against the identities of the property text. Finds violations; does not prove absence.",
    "level_note": "Trusts math.sin/cos/atan2/asin, a 16-point Gauss-Legendre rule (self-tested) and the unit-vector separation of vf/strategies.py. Tolerances as stated in the property; derived ones are listed in the assumptions.",
    "technique": "property-based testing (Hypothesis) against algebraic identities and geometric bounds",
}
RULE = ("Hypothesis-generated cases, five clauses. ellipsoid: (ellipsoid, latitude, height) "
        "with the ellipsoid IAU76, WGS84 or a user one (a in [6.3e6, 6.4e6] m, f in [0, 0.01] "
        "incl. 0 and 0.01), latitude in [-90, 90] as float, int or Angle (uniform, k*45 deg +- "
        "{0, ulp, 1e-12..1e-3}, range ends), height in [-500, 9000] m: meridian-ellipse "
        "identity, rp = a*rho_cosphi, linear_velocity = omega*rp, height term h/a*(cos, sin), "
        "rm within [b^2/a, a^2/b]. curvature: rm at 0 and +-90 deg and monotone in |lat| for a "
        "latitude pair. distance: point pairs constructed as general, coincident (also modulo "
        "360 deg and at a pole), near-coincident (1e-12..1e-2 deg), antipodal -+ eps, same "
        "meridian, over the pole (longitudes 180 deg apart), both on the equator: symmetry, "
        "zero, a*dlon, meridian-arc integral, great circle. parallax_eq / parallax_ecl: body "
        "direction on the sphere (poles and seam over-weighted, bodies on the observer's "
        "horizon constructed), observer latitude, height, distance log-uniform in "
        "[1e-3, 1e3] AU or at the range ends, all hour angles / sidereal times: angular "
        "displacement (unit vectors) against the horizontal-parallax bound. Non-trivial: "
        "|lat| > 89 or < 1 deg, user ellipsoid, a degenerate or constructed pair (anything but "
        "'general'), distance < 0.01 AU or > 100 AU; distinct = distinct case."
        " Every other user ellipsoid is reached by switching an Earth object that served another ellipsoid with set(); the prior ellipsoid is unrelated, or differs in the angular velocity only, or in the flattening only."
        " Half of the Angle latitudes of the ellipsoid clause are objects that first served another latitude in the same functions of the same Earth object and were then moved with set().")
ASSUMPTIONS = [
    "semidiameter correction of parallax_ecliptical: physical envelope 1.5 x/(1-x) sd plus the double-precision forward error 1e-14/cos(latitude) of the quotient of two quantities of size cos(latitude) (matters only within ~1e-6 deg of an ecliptic pole)",
    "identities of the ellipsoid clause are held to 1e-12 relative (height term 1e-14 absolute; "
    "linear_velocity = omega*rp to 4 ulp); Earth.rho, whose series is fixed to IAU76, is "
    "compared with sqrt(rho_cosphi^2 + rho_sinphi^2) to 2e-7 on the two built-in ellipsoids only",
    "rm(0) = b^2/a and rm(+-90) = a^2/b to 1e-9 relative; 'runs from ... to' is read as "
    "non-decreasing in |latitude| (1e-12 relative slack)",
    "surface distance: symmetric to 1e-9 relative; coincident points (same latitude and "
    "longitudes equal modulo 360, or both at the same pole) give |distance| <= 1e-6 m; on the "
    "equator distance = a*dlon to 1e-4 (plus 1e-6 m absolute, the rounding of a longitude near 360 deg times a; same for the meridian arc) for dlon <= 178 deg (beyond about 180(1 - f) deg the "
    "shortest path leaves the equator); along a meridian (same longitude; pairs 180 deg apart "
    "in longitude lie on two meridians and are only checked for symmetry and against the "
    "great circle) distance = integral of Earth.rm to max(1e-4, 1.5 f^2) "
    "relative: Andoyer's formula is first order in f and the library's own error output is "
    "distance*f^2, so the 1e-4 of the text cannot hold for user ellipsoids with f > 0.008",
    "great-circle comparison is against the sphere of the mean radius a(1 - f/3) with geodetic "
    "latitudes taken as spherical ones, tolerance 0.6 % for f <= 1/298 (built-in ellipsoids) "
    "and 1.8 f for flatter user ellipsoids, whose radii of curvature themselves range from "
    "a(1 - 2f) to a(1 + f)",
    "parallax bound: displacement <= asin(sin 8.794\"/distance * (1 + max(h, 0)/a)) * (1 + 1e-9) "
    "+ 1e-12 deg; the factor (1 + h/a) is the geocentric radius of an elevated observer, "
    "without which the bound of the text is exceeded by correct code. The bound tends to zero "
    "as 1/distance, so holding it out to 1e3 AU is how 'tend to zero as distance grows' is "
    "checked for the position; directions are compared as points of the sphere, so a "
    "latitude outside [-90, 90] is judged by the point it denotes",
    "the semidiameter correction of parallax_ecliptical must also tend to zero: "
    "|s' - s| <= 1.5 x/(1 - x) * s + 1e-12 deg with x = sin(pi) * (1 + max(h, 0)/a), which is the "
    "geometric range distance/(distance -+ observer radius) with 50 % slack (semidiameters up "
    "to 1 deg are generated); obliquity is generated in [21, 25] deg",
    "the property states an upper bound for the parallax only: a parallax constant that is "
    "too small, or a displacement in a mirrored direction, is not a violation of the text",
]

A_WGS84 = 6378137.0
SIN_PI0 = math.sin(math.radians(8.794 / 3600.0))
BUILTIN = {"IAU76": IAU76, "WGS84": WGS84}


# ------------------------------------------------------------------ Gauss-Legendre

def _gauss_legendre(n):
    xs, ws = [], []
    for i in range(n):
        x = math.cos(math.pi * (i + 0.75) / (n + 0.5))
        for _ in range(100):
            p0, p1 = 1.0, x
            for k in range(2, n + 1):
                p0, p1 = p1, ((2 * k - 1) * x * p1 - (k - 1) * p0) / k
            dp = n * (x * p1 - p0) / (x * x - 1.0)
            dx = p1 / dp
            x -= dx
            if abs(dx) < 1e-16:
                break
        xs.append(x)
        ws.append(2.0 / ((1.0 - x * x) * dp * dp))
    return xs, ws


GL_X, GL_W = _gauss_legendre(16)


def integrate(f, a, b, panels=6):
    s = 0.0
    h = (b - a) / panels
    for i in range(panels):
        mid = a + (i + 0.5) * h
        s += sum(w * f(mid + 0.5 * h * x) for x, w in zip(GL_X, GL_W)) * 0.5 * h
    return s


def self_test():
    if abs(sum(GL_W) - 2.0) > 1e-14:
        raise AssertionError("Gauss-Legendre weights")
    if abs(integrate(math.cos, 0.0, math.pi / 2) - 1.0) > 1e-14:
        raise AssertionError("Gauss-Legendre rule: integral of cos")
    if abs(integrate(lambda x: x ** 9, 0.0, 2.0) - 102.4) > 1e-11:
        raise AssertionError("Gauss-Legendre rule: x^9")
    # quarter meridian of a known ellipsoid (GRS80/WGS84: 10 001 965.729 m)
    a, f = 6378137.0, 1.0 / 298.257223563
    e2 = 2 * f - f * f
    q = integrate(lambda p: a * (1 - e2) / (1 - e2 * math.sin(p) ** 2) ** 1.5, 0.0, math.pi / 2)
    if abs(q - 10001965.729) > 0.01:
        raise AssertionError("quarter meridian %r" % q)
    if abs(S.sep_deg(10.0, 20.0, 190.0, -20.0) - 180.0) > 1e-12:
        raise AssertionError("sep_deg")


# ------------------------------------------------------------------ helpers

# published parameters (a in m, f, omega in rad/s): IAU 1976 and WGS84
PUBLISHED = {"IAU76": (6378140.0, 1.0 / 298.257, 7.292114992e-5),
             "WGS84": (6378137.0, 1.0 / 298.257223563, 7292115e-11)}


def _params(spec):
    """(a, f, omega) the identities are judged with: the numbers given to the constructor, or
    the published ones of the built-in ellipsoids - never what the object says about itself."""
    if isinstance(spec, str):
        return PUBLISHED[spec]
    return float(spec[0]), float(spec[1]), float(spec[2])


def _ell(spec):
    if isinstance(spec, str):
        return BUILTIN[spec], spec
    a, f, om = spec
    return Ellipsoid(a, f, om), "user"


def _arg(x, form):
    if form == "angle":
        return Angle(x)
    if form == "int":
        return int(x)
    return float(x)


def _ell_labels(spec, labels):
    if isinstance(spec, str):
        labels.append(spec)
        return False
    labels.append("user_ellipsoid")
    if spec[1] == 0.0:
        labels.append("user_f=0")
    elif spec[1] >= 0.009:
        labels.append("user_f>=0.009")
    return True


def _lat_labels(lat, labels):
    nt = False
    if abs(lat) == 90.0:
        labels.append("pole_exact")
    if abs(lat) > 89.0:
        labels.append("lat>89")
        nt = True
    if lat == 0:
        labels.append("equator_exact")
    if abs(lat) < 1.0:
        labels.append("lat<1")
        nt = True
    return nt


def _finite(x):
    return isinstance(x, float) and not (math.isnan(x) or math.isinf(x))


def _need_float(x, what, site):
    if not _finite(x):
        raise Violation("%s = %r is not a finite float" % (what, x), site=site, kind="not_finite")


def _earth(ell):
    """The Earth object for the ellipsoid: built directly, or (every other ellipsoid, by its
    flattening) an object that already served another ellipsoid and was then switched with the
    documented set() - the two ways of selecting the reference ellipsoid must agree."""
    k = int(ell._f * 1e9) % 4
    if k in (0, 2):
        return Earth(ell)
    if k == 1:
        prior = Ellipsoid(6371000.0, 0.0, 7.292115e-5)
    else:
        # the same figure with another rotation, or the same equator with another flattening:
        # only one of the three parameters differs from the ellipsoid switched to
        prior = (Ellipsoid(ell._a, ell._f, ell._omega * 1.5) if int(ell._f * 1e10) % 2
                 else Ellipsoid(ell._a, ell._f * 0.5 + 1e-4, ell._omega))
    e = Earth(prior)
    e.rho(10.0), e.rp(10.0), e.rm(10.0), e.linear_velocity(10.0), e.rho_sinphi(10.0, 100.0)
    e.set(ell)
    return e


# ------------------------------------------------------------------ clause: ellipsoid

def body_ellipsoid(case):
    ell, name = _ell(case["ell"])
    e = _earth(ell)
    lat, h, form = case["lat"], case["h"], case["form"]
    a, f, om = _params(case["ell"])
    b = a * (1.0 - f)
    arg = _arg(lat, form)
    if form == "angle" and int(abs(lat) * 1e6) % 2:
        # the caller keeps one Angle for the latitude and moves it (documented set()): the object
        # first served another latitude in the same functions of the same Earth object
        other = -lat * 0.5 + 11.0 if abs(lat) > 1.0 else 47.0
        arg = Angle(other)
        e.rho_cosphi(arg, 0.0), e.rho_sinphi(arg, 0.0), e.rp(arg), e.rm(arg), e.linear_velocity(arg)
        arg.set(lat)
    phi = math.radians(lat)
    what = "%s lat=%r(%s)" % (name if name != "user" else "Ellipsoid%r" % (tuple(case["ell"]),),
                              lat, form)

    rc0 = e.rho_cosphi(arg, 0.0)
    rs0 = e.rho_sinphi(arg, 0.0)
    _need_float(rc0, what + " rho_cosphi", "Earth.rho_cosphi")
    _need_float(rs0, what + " rho_sinphi", "Earth.rho_sinphi")
    # (1) meridian ellipse
    q = rc0 * rc0 + (rs0 * a / b) ** 2
    if not abs(q - 1.0) <= 1e-12:
        raise Violation("%s: (rho cos phi')^2 + (rho sin phi' a/b)^2 = %r, not 1 (rho_cosphi %r, "
                        "rho_sinphi %r)" % (what, q, rc0, rs0), site="Earth.rho_sinphi",
                        kind="meridian_ellipse", off=q - 1.0)
    # sign of the z coordinate follows the latitude
    if (rs0 > 0) != (lat > 0) and abs(rs0) > 1e-15:
        raise Violation("%s: rho_sinphi = %r has not the sign of the latitude" % (what, rs0),
                        site="Earth.rho_sinphi", kind="meridian_ellipse_sign")
    # (2) parallel radius two ways
    rp = e.rp(arg)
    _need_float(rp, what + " rp", "Earth.rp")
    if not abs(rp - a * rc0) <= 1e-12 * a:
        raise Violation("%s: rp = %r but a*rho_cosphi = %r" % (what, rp, a * rc0),
                        site="Earth.rp", kind="parallel_radius", off=(rp - a * rc0) / a)
    # (3) linear speed
    lv = e.linear_velocity(arg)
    _need_float(lv, what + " linear_velocity", "Earth.linear_velocity")
    if not abs(lv - om * rp) <= 4 * S.ULP * abs(om * rp):
        raise Violation("%s: linear_velocity = %r but omega*rp = %r" % (what, lv, om * rp),
                        site="Earth.linear_velocity", kind="linear_velocity")
    # (4) height adds h/a (cos phi, sin phi)
    rch = e.rho_cosphi(arg, h)
    rsh = e.rho_sinphi(arg, h)
    wc = h / a * math.cos(phi)
    ws = h / a * math.sin(phi)
    if not abs((rch - rc0) - wc) <= 1e-14:
        raise Violation("%s h=%r: rho_cosphi grows by %r, h/a cos(phi) = %r"
                        % (what, h, rch - rc0, wc), site="Earth.rho_cosphi", kind="height_term",
                        off=(rch - rc0) - wc)
    if not abs((rsh - rs0) - ws) <= 1e-14:
        raise Violation("%s h=%r: rho_sinphi grows by %r, h/a sin(phi) = %r"
                        % (what, h, rsh - rs0, ws), site="Earth.rho_sinphi", kind="height_term",
                        off=(rsh - rs0) - ws)
    # (5) meridian radius of curvature between its extremes
    rm = e.rm(arg)
    _need_float(rm, what + " rm", "Earth.rm")
    lo, hi = b * b / a, a * a / b
    if not (lo * (1 - 1e-12) <= rm <= hi * (1 + 1e-12)):
        raise Violation("%s: rm = %r outside [b^2/a, a^2/b] = [%r, %r]" % (what, rm, lo, hi),
                        site="Earth.rm", kind="rm_range")
    labels = ["form:" + form]
    nt = _ell_labels(case["ell"], labels)
    # (6) rho (IAU76 series) against the two coordinates, built-in ellipsoids only
    if name != "user":
        rho = e.rho(arg)
        _need_float(rho, what + " rho", "Earth.rho")
        if not abs(rho - math.hypot(rc0, rs0)) <= 2e-7:
            raise Violation("%s: rho = %r but sqrt(rho_cosphi^2 + rho_sinphi^2) = %r"
                            % (what, rho, math.hypot(rc0, rs0)), site="Earth.rho", kind="rho",
                            off=rho - math.hypot(rc0, rs0))
    nt = _lat_labels(lat, labels) or nt
    if h < 0:
        labels.append("h<0")
    elif h == 0:
        labels.append("h=0")
    elif h > 8000:
        labels.append("h>8000")
    return {"labels": labels, "nontrivial": nt,
            "show": {"rho_cosphi": rc0, "rho_sinphi": rs0, "rp": rp, "rm": rm}}


# ------------------------------------------------------------------ clause: curvature

def body_curvature(case):
    ell, name = _ell(case["ell"])
    e = _earth(ell)
    a, f, _om = _params(case["ell"])
    b = a * (1.0 - f)
    lo, hi = b * b / a, a * a / b
    for arg, want, nm in ((0, lo, "rm(0)"), (0.0, lo, "rm(0.0)"), (90.0, hi, "rm(90)"),
                          (-90, hi, "rm(-90)"), (Angle(90.0), hi, "rm(Angle(90))")):
        got = e.rm(arg)
        if not abs(got - want) <= 1e-9 * want:
            raise Violation("%s a=%r f=%r: %s = %r, want %r (%s)"
                            % (name, a, f, nm, got, want, "b^2/a" if want == lo else "a^2/b"),
                            site="Earth.rm", kind="rm_endpoint", off=got / want - 1.0)
    l1, l2 = case["lat1"], case["lat2"]
    if abs(l1) > abs(l2):
        l1, l2 = l2, l1
    r1, r2 = e.rm(_arg(l1, case["form"])), e.rm(float(l2))
    if not r1 <= r2 * (1 + 1e-12):
        raise Violation("%s a=%r f=%r: rm(%r) = %r > rm(%r) = %r: not increasing from the "
                        "equator to the poles" % (name, a, f, l1, r1, l2, r2), site="Earth.rm",
                        kind="rm_monotone")
    labels = []
    nt = _ell_labels(case["ell"], labels)
    nt = _lat_labels(l1, labels) or nt
    nt = _lat_labels(l2, labels) or nt
    return {"labels": labels, "nontrivial": nt, "show": {"rm1": r1, "rm2": r2}}


# ------------------------------------------------------------------ clause: distance

def _dist(e, p1, p2, forms):
    r = e.distance(_arg(p1[0], forms[0]), _arg(p1[1], forms[1]),
                   _arg(p2[0], forms[2]), _arg(p2[1], forms[3]))
    if not (isinstance(r, tuple) and len(r) == 2):
        raise Violation("distance returned %r, not (distance, error)" % (r,),
                        site="Earth.distance", kind="shape")
    return r


def body_distance(case):
    ell, name = _ell(case["ell"])
    e = _earth(ell)
    a, f, _om = _params(case["ell"])
    p1, p2, forms = case["p1"], case["p2"], case["forms"]
    lon1, lat1 = p1
    lon2, lat2 = p2
    what = "%s%s distance(%r, %r, %r, %r)" % (
        name, "" if name != "user" else "(a=%r, f=%r)" % (a, f), lon1, lat1, lon2, lat2)
    labels = ["pair:" + case.get("kind", "?")]
    nt = _ell_labels(case["ell"], labels) or case.get("kind") != "general"
    if any(fm == "angle" for fm in forms):
        labels.append("angle_argument")

    dlon = math.fmod(abs(lon1 - lon2), 360.0)
    dlon = min(dlon, 360.0 - dlon)
    same_point = (lat1 == lat2 and (dlon == 0.0 or abs(lat1) == 90.0))
    try:
        d12, err12 = _dist(e, p1, p2, forms)
    except ZeroDivisionError as ex:
        raise Violation("%s raised ZeroDivisionError%s" % (
            what, " (coincident points: the distance is 0)" if same_point else ""),
            site="Earth.distance",
            kind="exception:ZeroDivisionError" + (":coincident" if same_point else ""),
            exc=repr(ex))
    _need_float(d12, what, "Earth.distance")
    d21, err21 = _dist(e, p2, p1, [forms[2], forms[3], forms[0], forms[1]])
    _need_float(d21, what + " (swapped)", "Earth.distance")
    # symmetric
    if not abs(d12 - d21) <= 1e-9 * abs(d12) + 1e-9:
        raise Violation("%s = %r but swapped = %r" % (what, d12, d21), site="Earth.distance",
                        kind="symmetry", off=d12 - d21)
    # zero for coincident points
    if same_point:
        labels.append("coincident")
        if not abs(d12) <= 1e-6:
            raise Violation("%s = %r m for coincident points" % (what, d12),
                            site="Earth.distance", kind="coincident_not_zero", got=d12)
        if abs(lat1) == 90.0 and dlon != 0.0:
            labels.append("coincident_at_pole")
        if lon1 != lon2 and dlon == 0.0:
            labels.append("coincident_mod_360")
        return {"labels": labels, "nontrivial": True, "show": {"distance": d12}}
    # great circle on the mean sphere
    sig = math.radians(S.sep_deg(lon1, lat1, lon2, lat2))
    R = a * (1.0 - f / 3.0)
    tol_gc = 0.006 if f <= 1.0 / 298.0 else 1.8 * f
    if sig > 1e-12:
        rel = d12 / (R * sig) - 1.0
        if not abs(rel) <= tol_gc:
            raise Violation("%s = %r m, great circle on the mean sphere %r m (%+.3f %%)"
                            % (what, d12, R * sig, 100 * rel), site="Earth.distance",
                            kind="great_circle", rel=rel)
        labels.append("great_circle_checked")
    if sig < math.radians(1e-6):
        labels.append("near_coincident")
    if sig > math.radians(179.0):
        labels.append("near_antipodal")
    # along the equator
    if lat1 == 0 and lat2 == 0:
        labels.append("both_on_equator")
        if dlon <= 178.0:
            ref = a * math.radians(dlon)
            if not abs(d12 - ref) <= 1e-4 * ref + 1e-6:
                raise Violation("%s = %r m on the equator, a*dlon = %r m" % (what, d12, ref),
                                site="Earth.distance", kind="equator", rel=d12 / ref - 1.0)
            labels.append("equator_checked")
    # along a meridian (same longitude; a pair 180 deg apart in longitude lies on two
    # meridians and is not asserted: Andoyer's formula is known to degrade towards the
    # antipodal pair, where it returns a*pi*(1 - f/2 sin^2 lat) instead of half the meridian
    # perimeter)
    tol_m = max(1e-4, 1.5 * f * f)
    rm = lambda p: e.rm(math.degrees(p))
    ref = None
    if lon1 == lon2:
        ref = abs(integrate(rm, math.radians(lat1), math.radians(lat2)))
        labels.append("same_meridian")
        if abs(lat1 - lat2) > 179.0:
            labels.append("pole_to_pole")
    elif abs(dlon - 180.0) <= 1e-9:
        labels.append("over_the_pole(unasserted)")
    if ref is not None:
        if not abs(d12 - ref) <= tol_m * ref + 1e-6:
            raise Violation("%s = %r m along a meridian, integral of rm = %r m (rel %.3e)"
                            % (what, d12, ref, d12 / ref - 1.0 if ref else 0.0),
                            site="Earth.distance", kind="meridian_arc",
                            rel=(d12 / ref - 1.0) if ref else None)
        labels.append("meridian_checked")
    return {"labels": labels, "nontrivial": nt, "show": {"distance": d12, "error": err12}}


# ------------------------------------------------------------------ clauses: parallax

def _bound_deg(dist, h):
    x = SIN_PI0 / dist * (1.0 + max(h, 0.0) / A_WGS84)
    return math.degrees(math.asin(min(1.0, x))), x


def _dist_labels(dist, labels):
    nt = False
    if dist < 0.01:
        labels.append("near<0.01AU")
        nt = True
    elif dist > 100.0:
        labels.append("far>100AU")
        nt = True
    else:
        labels.append("mid_distance")
    if dist in (1e-3, 1e3):
        labels.append("distance_range_end")
    return nt


def body_parallax_eq(case):
    ra, dec, lat, dist, ha, h = (case[k] for k in ("ra", "dec", "lat", "dist", "ha", "h"))
    site = "Earth.parallax_correction"
    res = Earth.parallax_correction(Angle(ra), Angle(dec), Angle(lat), dist, Angle(ha), h)
    if not (isinstance(res, tuple) and len(res) == 2
            and all(isinstance(x, Angle) for x in res)):
        raise Violation("parallax_correction returned %r" % (res,), site=site, kind="shape")
    tra, tdec = float(res[0]), float(res[1])
    _need_float(tra, "topocentric right ascension", site)
    _need_float(tdec, "topocentric declination", site)
    disp = S.sep_deg(ra, dec, tra, tdec)
    bound, x = _bound_deg(dist, h)
    if not disp <= bound * (1 + 1e-9) + 1e-12:
        raise Violation("parallax_correction(ra=%r, dec=%r, lat=%r, dist=%r, H=%r, h=%r) = "
                        "(%r, %r): displaced by %r deg, horizontal parallax is %r deg"
                        % (ra, dec, lat, dist, ha, h, tra, tdec, disp, bound), site=site,
                        kind="displacement", disp=disp, bound=bound, ratio=disp / bound)
    labels = []
    nt = _dist_labels(dist, labels)
    nt = _lat_labels(lat, labels) or nt
    if abs(dec) > 89.0:
        labels.append("body_near_pole")
    if math.cos(math.radians(dec)) < x:
        labels.append("body_within_parallax_of_pole")
    if disp > 0.99 * bound:
        labels.append("displacement>0.99bound")
    if disp < 0.01 * bound:
        labels.append("displacement<0.01bound")
    if h > 0:
        labels.append("h>0")
    if case.get("kind"):
        labels.append("eq:" + case["kind"])
    return {"labels": labels, "nontrivial": nt,
            "show": {"topo_ra": tra, "topo_dec": tdec, "displacement": disp, "bound": bound}}


def body_parallax_ecl(case):
    lon, lat, sd, olat, eps, lst, dist, h = (
        case[k] for k in ("lon", "lat", "sd", "obs_lat", "eps", "lst", "dist", "h"))
    site = "Earth.parallax_ecliptical"
    res = Earth.parallax_ecliptical(Angle(lon), Angle(lat), Angle(sd), Angle(olat), Angle(eps),
                                    Angle(lst), dist, h)
    if not (isinstance(res, tuple) and len(res) == 3
            and all(isinstance(x, Angle) for x in res)):
        raise Violation("parallax_ecliptical returned %r" % (res,), site=site, kind="shape")
    tl, tb, ts = float(res[0]), float(res[1]), float(res[2])
    for v, nm in ((tl, "longitude"), (tb, "latitude"), (ts, "semidiameter")):
        _need_float(v, "topocentric " + nm, site)
    disp = S.sep_deg(lon, lat, tl, tb)
    bound, x = _bound_deg(dist, h)
    args = "parallax_ecliptical(lon=%r, lat=%r, sd=%r, obs_lat=%r, eps=%r, lst=%r, dist=%r, " \
           "h=%r)" % (lon, lat, sd, olat, eps, lst, dist, h)
    if not disp <= bound * (1 + 1e-9) + 1e-12:
        raise Violation("%s = (%r, %r, %r): displaced by %r deg, horizontal parallax is %r deg"
                        % (args, tl, tb, ts, disp, bound), site=site, kind="displacement",
                        disp=disp, bound=bound, ratio=disp / bound, topo_lat=tb)
    # + forward error of evaluating sin(sd) cos(b') / N in doubles next to an ecliptic pole, where
    # both cos(b') and N are as small as cos(lat): about 1e-14 / cos(lat) relative (thorough-tier
    # finding at lat = 89.999999, 1000 AU: 1.2e-7 deg on a 1 deg semidiameter is rounding, not parallax)
    tol_s = 1.5 * x / (1.0 - x) * sd + 1e-12 + sd * 1e-14 / max(math.cos(math.radians(lat)), 1e-12)
    if not abs(ts - sd) <= tol_s:
        raise Violation("%s: topocentric semidiameter %r deg, geocentric %r deg: the correction "
                        "%r exceeds %r (it must vanish with 1/distance)"
                        % (args, ts, sd, ts - sd, tol_s), site=site, kind="semidiameter",
                        got=ts, sd=sd, tol=tol_s)
    labels = []
    nt = _dist_labels(dist, labels)
    nt = _lat_labels(olat, labels) or nt
    if abs(lat) > 89.0:
        labels.append("body_near_ecliptic_pole")
    cl = math.cos(math.radians(lon))
    labels.append("ecl:%s_lat,cos_lon%s0" % ("south" if lat < 0 else "north",
                                              ">" if cl > 0 else "<="))
    if abs(cl) < 1e-6:
        labels.append("ecl:cos_lon~0")
    if disp > 0.99 * bound:
        labels.append("displacement>0.99bound")
    if h > 0:
        labels.append("h>0")
    return {"labels": labels, "nontrivial": nt,
            "show": {"topo_lon": tl, "topo_lat": tb, "topo_sd": ts, "displacement": disp,
                     "bound": bound}}


CLAUSES = {"ellipsoid": body_ellipsoid, "curvature": body_curvature, "distance": body_distance,
           "parallax_eq": body_parallax_eq, "parallax_ecl": body_parallax_ecl}


# ------------------------------------------------------------------ strategies

def ellipsoids():
    user = st.tuples(
        st.one_of(st.floats(6.3e6, 6.4e6), st.sampled_from([6.3e6, 6.4e6, 6378137.0])),
        st.one_of(st.floats(0.0, 0.01), st.sampled_from([0.0, 0.01, 1.0 / 298.257, 1e-9, 0.005])),
        st.floats(7.0e-5, 7.5e-5)).map(list)
    return st.one_of(st.sampled_from(["IAU76", "WGS84"]), user)


def latitudes():
    return st.one_of(
        S.bfloats(-90.0, 90.0, units=(45.0,),
                  specials=[0.0, -0.0, 1e-9, -1e-9, 89.999999, -89.999999, 1e-300, 42.0]),
        st.floats(-1, 1).map(lambda z: math.degrees(math.asin(z))),
        st.integers(-90, 90).map(float))


def lat_with_form():
    def build(lat, form):
        if form == "int" and lat != int(lat):
            form = "float"
        return lat, form
    return st.builds(build, latitudes(), st.sampled_from(["float", "float", "angle", "int"]))


def heights():
    return st.one_of(S.bfloats(-500.0, 9000.0, specials=[0.0, 1706.0]), st.just(0.0),
                     st.integers(-500, 9000).map(float))


def ellipsoid_cases():
    return st.builds(lambda e, lf, h: {"ell": e, "lat": lf[0], "form": lf[1], "h": h},
                     ellipsoids(), lat_with_form(), heights())


def curvature_cases():
    return st.builds(lambda e, lf, l2: {"ell": e, "lat1": lf[0], "form": lf[1], "lat2": l2},
                     ellipsoids(), lat_with_form(), latitudes())


def _lons():
    return st.one_of(st.floats(-180, 180), st.floats(0, 360),
                     st.integers(-180, 360).map(float),
                     S.near_multiples(90.0, -2, 4))


def _points():
    return st.one_of(S.sphere_points().map(lambda p: [p[0], p[1]]),
                     S.sphere_points().map(lambda p: [p[0] - 180.0, p[1]]),
                     st.tuples(_lons(), latitudes()).map(list))


EPS = [0.0, 1e-12, 1e-10, 1e-8, 1e-6, 1e-4, 1e-2, 0.1, 1.0]


def _clamp_lat(x):
    return max(-90.0, min(90.0, x))


def pair_cases():
    def general(p1, p2):
        return "general", p1, p2

    def coincident(p1, mode, lon2):
        if mode == 1:
            return "coincident", p1, [p1[0] + 360.0 if p1[0] < 0 else p1[0] - 360.0, p1[1]]
        if mode == 2:
            pole = 90.0 if p1[1] >= 0 else -90.0
            return "coincident", [p1[0], pole], [lon2, pole]
        return "coincident", p1, list(p1)

    def near(p1, d, brg):
        lon2, lat2 = S.offset_point(p1[0], p1[1], d, brg)
        return "near_coincident", p1, [lon2, lat2]

    def antipodal(p1, d, brg):
        q = [p1[0] + 180.0 if p1[0] < 180.0 else p1[0] - 180.0, -p1[1]]
        if d:
            lon2, lat2 = S.offset_point(q[0], q[1], d, brg)
            q = [lon2, lat2]
        return "antipodal", p1, q

    def meridian(p1, lat2, d):
        if d == "poles":
            return "meridian", [p1[0], 90.0], [p1[0], -90.0]
        if d is not None:
            lat2 = _clamp_lat(p1[1] + d)
        return "meridian", p1, [p1[0], lat2]

    def over_pole(k, lat1, lat2):
        lon1 = k / 64.0
        return "over_pole", [lon1, lat1], [lon1 + 180.0, lat2]

    def equator(lon1, lon2, zero):
        return "equator", [lon1, zero], [lon2, 0.0]

    brg = st.floats(0, 360)
    eps = st.sampled_from(EPS)
    kinds = st.one_of(
        st.builds(general, _points(), _points()),
        st.builds(coincident, _points(), st.sampled_from([0, 0, 1, 2]), _lons()),
        st.builds(near, _points(), st.sampled_from(EPS[1:7]), brg),
        st.builds(antipodal, _points(), eps, brg),
        st.builds(meridian, _points(), latitudes(),
                  st.one_of(st.none(), st.none(),
                            st.sampled_from([1e-9, -1e-6, 1e-3, -0.5, 1.0, "poles"]))),
        st.builds(over_pole, st.integers(-180 * 64, 180 * 64), latitudes(), latitudes()),
        st.builds(equator, _lons(), _lons(), st.sampled_from([0.0, 0.0, -0.0])),
    )
    form = st.sampled_from(["float", "float", "float", "angle", "int"])

    def build(ell, kp, f4):
        kind, p1, p2 = kp
        vals = [p1[0], p1[1], p2[0], p2[1]]
        forms = [("float" if (fm == "int" and v != int(v)) else fm) for fm, v in zip(f4, vals)]
        if kind == "coincident":
            # the same point must reach the library through the same conversion
            forms = [forms[0], forms[1], forms[0], forms[1]]
            if p1[0] != p2[0]:
                forms[0] = forms[2] = "float"
        return {"ell": ell, "kind": kind, "p1": p1, "p2": p2, "forms": forms}
    return st.builds(build, ellipsoids(), kinds, st.tuples(form, form, form, form))


def distances():
    return st.one_of(S.log_uniform(1e-3, 1e3).map(lambda d: min(1e3, max(1e-3, d))),
                     S.log_uniform(1e-3, 1e-2).map(lambda d: min(1e-2, max(1e-3, d))),
                     S.log_uniform(1e2, 1e3).map(lambda d: min(1e3, max(1e2, d))),
                     st.sampled_from([1e-3, 1e3, 0.0024650163, 0.37276, 1.0, 100.0]))


def pheights():
    return st.one_of(st.just(0.0), S.bfloats(-500.0, 9000.0, specials=[0.0, 9000.0]))


def obs_lats():
    return st.one_of(latitudes(), st.sampled_from([0.0, 90.0, -90.0, 33.356111, 50.0855]))


def angles360():
    return st.one_of(st.floats(0, 360, exclude_max=True), S.near_multiples(90.0, 0, 3),
                     st.integers(0, 359).map(float))


def parallax_eq_cases():
    def generic(p, lat, dist, ha, h):
        return {"kind": "generic", "ra": p[0], "dec": p[1], "lat": lat, "dist": dist, "ha": ha,
                "h": h}

    def horizon(ra, lat, dist, side, h, ddec):
        # declination 0 and hour angle +-90 deg: zenith distance 90 deg for every observer
        return {"kind": "horizon", "ra": ra, "dec": ddec, "lat": lat, "dist": dist,
                "ha": 90.0 if side else 270.0, "h": h}

    def polar(ra, off, sgn, lat, dist, ha, h):
        return {"kind": "polar_body", "ra": ra, "dec": sgn * (90.0 - off), "lat": lat,
                "dist": dist, "ha": ha, "h": h}
    return st.one_of(
        st.builds(generic, S.sphere_points(), obs_lats(), distances(), angles360(), pheights()),
        st.builds(generic, S.sphere_points(), obs_lats(), distances(), angles360(), pheights()),
        st.builds(horizon, angles360(), st.sampled_from([0.0, 0.0, 1e-6, 10.0, 45.0, -80.0]),
                  distances(), st.booleans(), st.sampled_from([0.0, 0.0, 9000.0]),
                  st.sampled_from([0.0, 0.0, 1e-9, -1e-6])),
        st.builds(polar, angles360(),
                  st.sampled_from([0.0, 1e-9, 1e-6, 1e-4, 1e-2, 0.1, 0.5, 1.0, 2.0]),
                  st.sampled_from([1, -1]), obs_lats(), distances(), angles360(), pheights()))


def parallax_ecl_cases():
    def build(p, sd, olat, eps, lst, dist, h):
        return {"lon": p[0], "lat": p[1], "sd": sd, "obs_lat": olat, "eps": eps, "lst": lst,
                "dist": dist, "h": h}
    pts = st.one_of(S.sphere_points(), S.sphere_points(),
                    st.tuples(angles360(), st.floats(-10, 10)),
                    st.tuples(angles360(), st.sampled_from([0.0, -5.0, 5.0, 1e-9, -1e-9])))
    return st.builds(build, pts,
                     st.one_of(st.floats(0.0, 1.0), st.sampled_from([0.0, 0.27, 16.2583 / 60, 1.0])),
                     obs_lats(),
                     st.one_of(st.floats(21.0, 25.0), st.sampled_from([23.44, 23.4392911])),
                     angles360(), distances(), pheights())


STRATS = {"ellipsoid": ellipsoid_cases, "curvature": curvature_cases, "distance": pair_cases,
          "parallax_eq": parallax_eq_cases, "parallax_ecl": parallax_ecl_cases}

# clause -> (shards, examples per shard) in the quick tier
PLAN = {"ellipsoid": (5, 5000), "curvature": (1, 5000), "distance": (10, 5000),
        "parallax_eq": (8, 4000), "parallax_ecl": (8, 4000)}


def tasks(tier, seed):
    out = []
    for clause, (shards, n) in PLAN.items():
        if tier == "quick":
            for sh in range(shards):
                out.append(Task("t_given", clause=clause, shard=sh, n=n))
        else:
            for sh in range(shards * 4):
                out.append(Task("t_given", clause=clause, shard=sh, n=n * 6))
    return out


def t_given(rec, clause, shard, n):
    rec.given(clause, STRATS[clause](), n, shard=shard)
