"""C11 - Kepler's equation is solved; two-body relations hold.

Every clause checks a *defining relation* on the values the library returns (residual of
Kepler's equation, half-turn, the tangent half-angle relation, vis-viva, perimeter bounds,
k = (1 + cos i)/2) or feeds the library's result to an independent two-body model
(vf/oracles/kepler.py: safeguarded-Newton Kepler solver, Barker's equation, AGM perimeter,
Gauss's constant) - the node-passage clauses.
"""
import math
from fractions import Fraction as F

from hypothesis import strategies as st

from pymeeus.Angle import Angle
from pymeeus.Epoch import Epoch
from pymeeus import Coordinates as C

from ..core import Violation, Task, sub_seed
from .. import strategies as S
from ..oracles import kepler as K

PROPERTY = "C11"
LEVEL = "exploration"
MANIFEST = {
    "level_text": "Randomised search (Hypothesis, boundary-aware generators, ~130k cases quick / 5M thorough) over eccentricity, mean anomaly, semi-major axis, argument of perihelion and distance triangles; each case is decided by the defining relation itself or by an independent two-body model. Kepler's equation is also evaluated on a deterministic lattice over the whole (e, M) rectangle. Finds violations; does not prove absence.",
    "level_note": "Trusts math.sin/cos/atan2 to a few ulp, the reference Kepler/Barker solvers and the AGM perimeter (self-tested on every run against their defining equations, a quadrature and literal anchors from Meeus ch. 30/33), Gauss's constant 0.01720209895.",
    "technique": "property-based testing (Hypothesis) against defining residuals and an independent two-body reference model",
}
RULE = ("Hypothesis-generated cases, seven clauses. kepler: (e, M) with e in [0, 0.999999] "
        "(uniform, 1-10^-k, 0.9-0.999999, int 0) and M in [-1e4, 1e4] deg (uniform, k*180 +- "
        "{0, 1 ulp, 1e-12..1e-3}, log-uniform 1e-12..1 around 0 and 180, ints); checks the "
        "residual of Kepler's equation, the half turn and tan(v/2). speed: (e, a) vis-viva "
        "relations. length: (e, a) circle bounds and documented accuracy; length_switch: a and "
        "a pair of eccentricities straddling 0.95 by 1 ulp..1e-6. phase: triangle from two sides "
        "and the included phase angle in [1e-6, pi-1e-6]. node / node_parabolic: (omega, e|q, a, "
        "T, ascending|descending), the returned time is fed to the reference Kepler / Barker "
        "solver. Non-trivial: e > 0.9, or |M| > 360, or M within 1e-6 deg of a multiple of 180 "
        "(kepler); e > 0.9 (speed, length, node); always for length_switch; phase angle within "
        "1 deg of 0 or 180 or side ratio > 10 (phase); |tan(v/2)| > 3 (parabolic node). "
        "Distinct = distinct case dict."
        " kepler_grid: the whole rectangle e in [0, 0.999999] x M in [-180, 180) deg on a 0.001 x 1 deg lattice (0.00025 x 0.25 deg in the thorough tier) with a seed-derived phase and whole turns (0, +-1, +2, -10) added; every lattice point is one evaluation and counts as non-trivial."
        " node_planet: (planet, epoch -2000..4000, node, positional or keyword flag) for the six planet classes' passage_nodes wrappers; the elements and the perihelion time are taken from the same public functions and the returned time is fed to the reference Kepler solver.")
ASSUMPTIONS = [
    "Kepler residual E - e sin E - M (degrees, reduced to [-180, 180]) must be <= 5e-8 as the "
    "property states; it is evaluated in double precision (error < 1e-12 deg)",
    "same half revolution: floor(M/180) and floor(E/180) have the same parity, not asserted "
    "when M or E is within 1e-7 deg of a multiple of 180 (there the residual clause decides)",
    "true anomaly: |v - 2 atan2(sqrt(1+e) sin(E/2), sqrt(1-e) cos(E/2))| <= 1e-9 deg * max(1, "
    "dv/dE) with the E the library returned",
    "vis-viva relations to relative 1e-5: the library quotes 42.1218 and 29.7847 km/s, which "
    "differ by 3e-6 relative from a common constant",
    "orbit length: 2 pi b <= L <= 2 pi a with 1e-9 relative slack; additionally L is compared "
    "with the exact perimeter (AGM) at the accuracy Meeus documents for the two formulas "
    "(1.2e-4 relative for e < 0.95, 4.2e-3 for e >= 0.95; observed 9.9e-5 and 3.8e-3); "
    "continuity at e = 0.95: |L(0.95+d) - L(0.95-d)| <= 3e-4 L (the two formulas' documented "
    "errors at 0.95 add to 1.5e-4; observed 1.44e-4)",
    "k = (1 + cos i)/2 to 1e-12 with the library's own i, and to 1e-11 with the constructed "
    "phase angle (rounding of the third side)",
    "node passage (ellipse): M = n (t_node - T), n = degrees(k_Gauss)/a^1.5, reference solver "
    "-> v, |v - target| <= 1e-7 deg * max(1, dv/dM); perihelion time T is a JDE in "
    "2451545 +- 2e5 so that the time resolution (5e-10 d) stays below the tolerance",
    "node passage (parabola): Barker's equation with W = 3k/sqrt(2) (t_node - T)/q^1.5, "
    "tolerance 1e-6 deg (the library's constant 27.403895 has 8 digits); |tan(v/2)| <= 20",
    "the radius vector returned with the node passage is not asserted (the property speaks "
    "of the true anomaly only)",
]


def self_test():
    K.self_test()


def _dist180(x):
    """Distance of x (degrees, Fraction or float) to the nearest multiple of 180."""
    r = F(x) % 180
    return float(min(r, 180 - r))


def _wrap180(d):
    d = math.fmod(d, 360.0)
    if d > 180.0:
        d -= 360.0
    elif d < -180.0:
        d += 360.0
    return d


# --------------------------------------------------------------------- kepler

def body_kepler(case):
    e, M = case["e"], case["M"]
    E_a, v_a = C.kepler_equation(e, S.angle_with_tolerance(M))   # tolerance is no part of the value
    if not (isinstance(E_a, Angle) and isinstance(v_a, Angle)):
        raise Violation("kepler_equation did not return two Angles", site="Coordinates.kepler_equation",
                        kind="type")
    E, v = E_a(), v_a()
    if not (math.isfinite(E) and math.isfinite(v)):
        raise Violation("kepler_equation(%r, %r) returned E=%r v=%r" % (e, M, E, v),
                        site="Coordinates.kepler_equation", kind="nonfinite")
    Mr = float(F(M) % 360)                       # exact reduction of the input
    res = _wrap180(E - math.degrees(e * math.sin(math.radians(E))) - Mr)
    if abs(res) > 5e-8:
        raise Violation("kepler_equation(%r, Angle(%r)): E = %r leaves residual E - e sin E - M = %.3e deg"
                        % (e, M, E, res), site="Coordinates.kepler_equation", kind="residual",
                        e=e, M=M, E=E, residual=res)
    dM, dE = _dist180(M), _dist180(E)
    if dM > 1e-7 and dE > 1e-7:
        hM = int(F(M) // 180) % 2
        hE = int(F(E) // 180) % 2
        if hM != hE:
            raise Violation("kepler_equation(%r, Angle(%r)): E = %r is not in the same half revolution as M"
                            % (e, M, E), site="Coordinates.kepler_equation", kind="half_turn",
                            e=e, M=M, E=E)
    Er = math.radians(E)
    want = math.degrees(K.true_anomaly(e, Er))
    dv = _wrap180(v - want)
    tolv = 1e-9 * max(1.0, K.dv_dE(e, Er))
    if abs(dv) > tolv:
        raise Violation("kepler_equation(%r, Angle(%r)): v = %r but tan(v/2) = sqrt((1+e)/(1-e)) tan(E/2) "
                        "with E = %r gives %r (off %.3e deg, tol %.1e)" % (e, M, v, E, want, dv, tolv),
                        site="Coordinates.kepler_equation", kind="true_anomaly", e=e, M=M, E=E, v=v,
                        want=want)
    labels = []
    if e > 0.9:
        labels.append("e>0.9")
    if e > 0.999:
        labels.append("e>0.999")
    if abs(M) > 360:
        labels.append("|M|>360")
    if dM <= 1e-6:
        labels.append("M_near_multiple_of_180")
    if dM <= 1e-9 and dM > 0:
        labels.append("M_within_1e-9_of_multiple_of_180")
    if M < 0:
        labels.append("M<0")
    if e > 0.99 and min(Mr, 360 - Mr) < 1.0:
        labels.append("high_e_near_perihelion")
    if isinstance(e, int):
        labels.append("int_e")
    return {"labels": labels or ["plain"], "nontrivial": bool(e > 0.9 or abs(M) > 360 or dM <= 1e-6),
            "show": {"E": E, "v": v, "residual_deg": res}}


# --------------------------------------------------------------------- speed

def _rel(a, b):
    return abs(a - b) / abs(b)


def body_speed(case):
    e, a = case["e"], case["a"]
    vp = C.velocity_perihelion(e, a)
    va = C.velocity_aphelion(e, a)
    v_at_p = C.velocity(a * (1.0 - e), a)
    v_at_a = C.velocity(a * (1.0 + e), a)
    vc = C.velocity(a, a)
    for name, got, want, site in (("speed at r = a(1-e) vs velocity_perihelion", v_at_p, vp, "Coordinates.velocity_perihelion"),
                                  ("speed at r = a(1+e) vs velocity_aphelion", v_at_a, va, "Coordinates.velocity_aphelion"),
                                  ("v_perihelion * v_aphelion vs circular speed squared", vp * va, vc * vc, "Coordinates.velocity")):
        if not (want > 0 and math.isfinite(got)) or _rel(got, want) > 1e-5:
            raise Violation("%s: %r vs %r (e=%r, a=%r)" % (name, got, want, e, a), site=site,
                            kind="vis_viva", e=e, a=a, got=got, want=want)
    labels = ["e>0.9"] if e > 0.9 else ["plain"]
    if e == 0.0:
        labels.append("e=0")
    return {"labels": labels, "nontrivial": e > 0.9, "show": {"vp": vp, "va": va, "vc": vc}}


# --------------------------------------------------------------------- length

def body_length(case):
    e, a = case["e"], case["a"]
    L = C.length_orbit(e, a)
    b = a * math.sqrt((1.0 - e) * (1.0 + e))
    lo, hi = 2.0 * math.pi * b, 2.0 * math.pi * a
    if not (lo * (1 - 1e-9) <= L <= hi * (1 + 1e-9)):
        raise Violation("length_orbit(%r, %r) = %r outside [2 pi b, 2 pi a] = [%r, %r]" % (e, a, L, lo, hi),
                        site="Coordinates.length_orbit", kind="circle_bounds", e=e, a=a, L=L)
    P = K.ellipse_perimeter(a, b)
    tol = 1.2e-4 if e < 0.95 else 4.2e-3
    if _rel(L, P) > tol:
        raise Violation("length_orbit(%r, %r) = %r, exact perimeter %r (relative %.2e > %.1e)"
                        % (e, a, L, P, _rel(L, P), tol), site="Coordinates.length_orbit",
                        kind="perimeter", e=e, a=a, L=L, P=P)
    labels = ["e>0.9"] if e > 0.9 else ["plain"]
    if e >= 0.95:
        labels.append("e>=0.95")
    if e > 0.9985:
        labels.append("e>0.9985")
    return {"labels": labels, "nontrivial": e > 0.9, "show": {"L": L, "perimeter": P}}


def body_length_switch(case):
    a, d = case["a"], case["d"]
    e1 = 0.95 - d
    if e1 >= 0.95:
        e1 = math.nextafter(0.95, 0.0)
    e2 = 0.95 + d
    L1, L2 = C.length_orbit(e1, a), C.length_orbit(e2, a)
    if abs(L2 - L1) > 3e-4 * L2:
        raise Violation("length_orbit jumps from %r (e=%r) to %r (e=%r): relative %.2e"
                        % (L1, e1, L2, e2, (L2 - L1) / L2), site="Coordinates.length_orbit",
                        kind="discontinuity", a=a, e1=e1, e2=e2)
    return {"labels": ["switch_0.95"], "nontrivial": True, "show": {"jump_rel": (L2 - L1) / L2}}


# --------------------------------------------------------------------- phase

def body_phase(case):
    r, delta, gamma = case["r"], case["delta"], case["gamma"]
    R = math.sqrt(r * r + delta * delta - 2.0 * r * delta * math.cos(gamma))
    i = C.phase_angle(r, delta, R)
    k = C.illuminated_fraction(r, delta, R)
    if not isinstance(i, Angle) or not isinstance(k, float):
        raise Violation("phase_angle/illuminated_fraction return types", site="Coordinates.phase_angle",
                        kind="type")
    want = (1.0 + math.cos(i.rad())) / 2.0
    if abs(k - want) > 1e-12:
        raise Violation("illuminated_fraction(%r, %r, %r) = %r but (1 + cos i)/2 = %r with i = %r deg"
                        % (r, delta, R, k, want, i()), site="Coordinates.illuminated_fraction",
                        kind="k_vs_i", r=r, delta=delta, R=R)
    want2 = (1.0 + math.cos(gamma)) / 2.0
    if abs(k - want2) > 1e-11:
        raise Violation("illuminated_fraction(%r, %r, %r) = %r, triangle built with phase angle %r rad "
                        "gives %r" % (r, delta, R, k, gamma, want2), site="Coordinates.illuminated_fraction",
                        kind="k_vs_triangle", r=r, delta=delta, R=R)
    g = math.degrees(gamma)
    labels = []
    if g < 1.0 or g > 179.0:
        labels.append("thin_triangle")
    if max(r, delta) / min(r, delta) > 10:
        labels.append("side_ratio>10")
    return {"labels": labels or ["plain"], "nontrivial": bool(labels), "show": {"i": i(), "k": k}}


# --------------------------------------------------------------------- node passages

def body_node(case):
    omega, e, a, jde, asc = case["omega"], case["e"], case["a"], case["jde"], case["asc"]
    tt, r = C.passage_nodes_elliptic(Angle(omega), e, a, Epoch(jde), ascending=asc)
    if not isinstance(tt, Epoch):
        raise Violation("passage_nodes_elliptic did not return an Epoch", site="Coordinates.passage_nodes_elliptic",
                        kind="type")
    dt = tt.jde() - jde
    n = K.MEAN_MOTION_DEG / (a * math.sqrt(a))
    M = math.radians(n * dt)
    E = K.solve_kepler(e, M)
    v = math.degrees(K.true_anomaly(e, E))
    target = (-omega) if asc else (180.0 - omega)
    off = _wrap180(v - target)
    tol = 1e-7 * max(1.0, K.dv_dM(e, E))
    if not math.isfinite(dt) or abs(off) > tol:
        raise Violation("passage_nodes_elliptic(omega=%r, e=%r, a=%r, T=%r, ascending=%r): %.9f d after T the "
                        "body is at true anomaly %r, node is at %r (off %.3e deg, tol %.1e)"
                        % (omega, e, a, jde, asc, dt, v, target % 360.0, off, tol),
                        site="Coordinates.passage_nodes_elliptic", kind="node_anomaly",
                        omega=omega, e=e, a=a, asc=asc, off=off)
    labels = ["ascending" if asc else "descending"]
    if e > 0.9:
        labels.append("e>0.9")
    if _dist180(target) < 1.0:
        labels.append("node_near_apsis")
    return {"labels": labels, "nontrivial": e > 0.9, "show": {"dt_days": dt, "v": v}}


NODE_PLANETS = ["Mercury", "Venus", "Mars", "Jupiter", "Saturn", "Uranus"]


def body_node_planet(case):
    """The planet classes' passage_nodes(epoch, ascending) hand the planet's mean elements and its
    perihelion passage to the generic routine: the same relation must hold for what they return,
    with the elements and the perihelion time taken from the same public functions."""
    import importlib
    name, jde, asc = case["planet"], case["jde"], case["asc"]
    P = getattr(importlib.import_module("pymeeus." + name), name)
    site = name + ".passage_nodes"
    try:
        tp = P.perihelion_aphelion(Epoch(jde))
    except ValueError:
        return {"labels": ["node_planet:perihelion_not_found(see C13)"], "refused": "perihelion_aphelion ValueError"}
    l, a, e, i, ome, arg = P.orbital_elements_mean_equinox(Epoch(jde))
    tt, r = P.passage_nodes(Epoch(jde), asc) if case.get("positional", True) else \
        P.passage_nodes(Epoch(jde), ascending=asc)
    if not isinstance(tt, Epoch) or not isinstance(r, float):
        raise Violation("%s did not return (Epoch, float)" % site, site=site, kind="type")
    omega = float(arg)
    dt = tt.jde() - tp.jde()
    n = K.MEAN_MOTION_DEG / (a * math.sqrt(a))
    E = K.solve_kepler(e, math.radians(n * dt))
    v = math.degrees(K.true_anomaly(e, E))
    target = (-omega) if asc else (180.0 - omega)
    off = _wrap180(v - target)
    if not math.isfinite(dt) or abs(off) > 1e-6:
        raise Violation("%s(Epoch(%r), %r): %.6f d after the perihelion passage the planet is at true anomaly "
                        "%r; the %s node is at %r (off %.3e deg)"
                        % (site, jde, asc, dt, v % 360.0, "ascending" if asc else "descending", target % 360.0, off),
                        site=site, kind="node_anomaly", planet=name, asc=asc, off=off)
    want_r = a * (1.0 - e * math.cos(E))
    if abs(r - want_r) > 1e-6 * want_r:
        raise Violation("%s(Epoch(%r), %r): radius vector %r, a(1 - e cos E) = %r" % (site, jde, asc, r, want_r),
                        site=site, kind="node_radius", planet=name, asc=asc)
    return {"labels": ["node_planet:" + name, "ascending" if asc else "descending"], "nontrivial": True,
            "show": {"dt_days": dt, "v": v % 360.0, "r": r}}


def body_node_parabolic(case):
    omega, q, jde, asc = case["omega"], case["q"], case["jde"], case["asc"]
    tt, r = C.passage_nodes_parabolic(Angle(omega), q, Epoch(jde), ascending=asc)
    dt = tt.jde() - jde
    W = K.BARKER_W * dt / (q * math.sqrt(q))
    s = K.solve_barker(W)
    v = math.degrees(2.0 * math.atan(s))
    target = (-omega) if asc else (180.0 - omega)
    off = _wrap180(v - target)
    if not math.isfinite(dt) or abs(off) > 1e-6:
        raise Violation("passage_nodes_parabolic(omega=%r, q=%r, T=%r, ascending=%r): %.9f d after T the body "
                        "is at true anomaly %r, node is at %r (off %.3e deg)"
                        % (omega, q, jde, asc, dt, v, target % 360.0, off),
                        site="Coordinates.passage_nodes_parabolic", kind="node_anomaly",
                        omega=omega, q=q, asc=asc, off=off)
    labels = ["ascending" if asc else "descending"]
    if abs(s) > 3:
        labels.append("|tan(v/2)|>3")
    return {"labels": labels, "nontrivial": abs(s) > 3, "show": {"dt_days": dt, "v": v}}


def body_kepler_grid(case):
    """One eccentricity, mean anomalies m0, m0 + step, ...: the whole (e, M) rectangle is covered at a
    resolution of 0.001 x 1 degree, so that a region of the size of a solver's switch-over band cannot
    fall between the samples."""
    e, m0, step, n, turns = case["e"], case["m0"], case["step"], case["n"], case["turns"]
    worst = 0.0
    for i in range(n):
        M = m0 + i * step + 360.0 * turns[i % len(turns)]
        info = body_kepler({"e": e, "M": M})
        worst = max(worst, abs(info["show"]["residual_deg"]))
    labels = {"grid_points": n}
    if e > 0.9:
        labels["grid_e>0.9"] = n
    return {"n": n, "nt": n, "labels": labels, "show": {"e": e, "worst_residual_deg": worst}}


CLAUSES = {"kepler": body_kepler, "kepler_grid": body_kepler_grid, "speed": body_speed, "length": body_length,
           "length_switch": body_length_switch, "phase": body_phase, "node": body_node,
           "node_parabolic": body_node_parabolic, "node_planet": body_node_planet}


# --------------------------------------------------------------------- strategies

EMAX = 0.999999


def ecc(allow_int=False):
    near_one = st.builds(lambda k, f: min(EMAX, 1.0 - f * 10.0 ** (-k)),
                         st.integers(1, 6), st.sampled_from([1.0, 1.0, 1.5, 2.0, 5.0, 9.99]))
    parts = [st.floats(0.0, EMAX), st.floats(0.0, EMAX), st.floats(0.9, EMAX), st.floats(0.99, EMAX),
             near_one,
             st.sampled_from([0.0, 1e-300, 1e-12, 1e-6, 0.5, 0.9, 0.95, 0.9499999999999998,
                              0.9500000000000001, 0.999, 0.9999, 0.99999, EMAX,
                              S.nextafter(EMAX, False)])]
    if allow_int:
        parts.append(st.just(0))
    return st.one_of(*parts)


def mean_anomalies():
    tiny = st.builds(lambda base, lg, sg: base + sg * math.exp(lg),
                     st.sampled_from([0.0, 0.0, 180.0, -180.0, 360.0, -360.0, 540.0, 3600.0, -7200.0]),
                     st.floats(math.log(1e-12), math.log(5.0)), st.sampled_from([1.0, -1.0]))
    return st.one_of(
        S.bfloats(-1e4, 1e4, units=(180.0,), specials=[0.0, -0.0, 180.0, -180.0, 360.0, -360.0]),
        st.floats(-360.0, 360.0),
        S.near_multiples(180.0, -55, 55),
        tiny, tiny,
        st.integers(-10000, 10000),
        st.integers(-55, 55).map(lambda k: 180 * k),
    )


def kepler_cases():
    return st.builds(lambda e, M: {"e": e, "M": M}, ecc(allow_int=True), mean_anomalies())


def axes():
    return st.one_of(S.log_uniform(0.3, 100.0).map(lambda a: min(100.0, max(0.3, a))),
                     st.sampled_from([0.3, 1.0, 17.9400782, 100.0]))


def ea_cases():
    return st.builds(lambda e, a: {"e": float(e), "a": a}, ecc(), axes())


def switch_cases():
    return st.builds(lambda a, d: {"a": a, "d": d}, axes(),
                     st.one_of(st.sampled_from([0.0, 1.2e-16, 1e-15, 1e-12, 1e-9, 1e-6]),
                               S.log_uniform(1e-16, 1e-6)))


def phase_cases():
    gam = st.one_of(st.floats(1e-6, math.pi - 1e-6),
                    S.log_uniform(1e-6, 0.1),
                    S.log_uniform(1e-6, 0.1).map(lambda x: math.pi - x),
                    st.sampled_from([1e-6, math.pi - 1e-6, math.pi / 2]))
    return st.builds(lambda r, d, g: {"r": r, "delta": d, "gamma": g}, axes(), axes(), gam)


def omegas():
    return st.one_of(S.bfloats(0.0, 360.0, units=(90.0,), specials=[0.0, 180.0, 360.0]),
                     st.floats(0.0, 360.0))


def jdes():
    return st.one_of(st.floats(2451545.0 - 2e5, 2451545.0 + 2e5),
                     st.sampled_from([2446470.95891, 2451545.0, 2447758.791]))


def node_cases():
    return st.builds(lambda w, e, a, t, asc: {"omega": w, "e": float(e), "a": a, "jde": t, "asc": asc},
                     omegas(), ecc(), axes(), jdes(), st.booleans())


def parabolic_cases():
    smax = 20.0
    half = math.degrees(2.0 * math.atan(smax))      # |v| <= this

    def build(v, q, t, asc):
        # v = -omega (asc) or 180 - omega (desc), v in [-half, half]
        omega = (-v) % 360.0 if asc else (180.0 - v) % 360.0
        return {"omega": omega, "q": q, "jde": t, "asc": asc}
    vs = st.one_of(st.floats(-half, half), S.near_multiples(90.0, -1, 1),
                   st.sampled_from([-half, half, 0.0, 1e-9, -1e-9]))
    qs = st.one_of(S.log_uniform(0.3, 10.0).map(lambda x: min(10.0, max(0.3, x))),
                   st.sampled_from([0.3, 1.0, 1.324502, 10.0]))
    return st.builds(build, vs, qs, jdes(), st.booleans())


def node_planet_cases():
    return st.builds(lambda p, y, asc, pos: {"planet": p, "jde": round(S.jde_from_year(y), 3), "asc": asc,
                                             "positional": pos},
                     st.sampled_from(NODE_PLANETS), S.years(-2000.0, 4000.0), st.booleans(), st.booleans())


STRATS = {"kepler": kepler_cases, "node_planet": node_planet_cases, "speed": ea_cases, "length": ea_cases,
          "length_switch": switch_cases, "phase": phase_cases, "node": node_cases,
          "node_parabolic": parabolic_cases}


def tasks(tier, seed):
    mult = 1 if tier == "quick" else 40
    plan = {"kepler": (8, 9000), "speed": (2, 6000), "length": (2, 6000), "length_switch": (1, 2000),
            "phase": (2, 6000), "node": (4, 5000), "node_parabolic": (1, 5000),
            "node_planet": (2, 300)}
    out = []
    for clause, (shards, n) in plan.items():
        k = 1 if tier == "quick" else 2
        for sh in range(shards * k):
            out.append(Task("t_given", clause=clause, shard=sh, n=n * mult // k))
    for sh in range(8):
        out.append(Task("t_grid", shard=sh, of=8, seed=seed, fine=(tier != "quick")))
    return out


def t_grid(rec, shard, of, seed, fine):
    ne = 4000 if fine else 1000
    nm = 1440 if fine else 360
    pe = (sub_seed(seed, "C11", "grid", "e") % 1009) / 1009.0
    pm = (sub_seed(seed, "C11", "grid", "M") % 1013) / 1013.0
    for k in range(shard, ne, of):
        e = min(EMAX, (k + pe) * (EMAX / ne))
        rec.case("kepler_grid", {"e": e, "m0": -180.0 + pm * 360.0 / nm, "step": 360.0 / nm, "n": nm,
                                 "turns": [0, 0, 0, 2, -10, 1, -1]})


def t_given(rec, clause, shard, n):
    rec.given(clause, STRATS[clause](), n, shard=shard)
