"""C13 - planetary event finders return real events, in order, none skipped.

Clauses
  event   one query -> the returned instant is an event of the demanded kind according to
          the library's own VSOP87 positions (vf/oracles/events_planet.py), within 1 d
          (Mercury-Mars) / 2 d (beyond); reported elongation = true maximum
  sweep   N consecutive queries spaced period/20 from a generated start (plus the
          bisected selection boundaries between them): results never move backwards,
          consecutive distinct results are one period apart (window per planet), every
          result within one period of its query
  range   conjunction/opposition/elongation/station finders raise ValueError for queries
          before -2000 or after 4000
"""
import math
import traceback

from hypothesis import strategies as st

from pymeeus.Angle import Angle
from pymeeus.Epoch import Epoch

from ..core import Violation, Task, PKG_DIR, sub_seed
from ..oracles import calendar as cal
from ..oracles import events_planet as EV
from .. import strategies as S

PROPERTY = "C13"
LEVEL = "exploration"

MANIFEST = {
    "level_text": "Randomised and dense search: Hypothesis-drawn query epochs for every (planet, finder, variant) found by introspection, each returned instant located on the library's own VSOP87 positions by an independent event search; generated 60-step sweeps and a dense tiling of the era (every 4th 400-step segment in the quick tier, all of them in the thorough tier) for the ordering clauses. Finds violations; does not prove absence. Every apsis and node of the era and one-day steps across the calendar seams are enumerated.",
    "level_note": "Trusts the event search of vf/oracles/events_planet.py (bisection / golden section on geometric_heliocentric_position of the planet and the Earth with light time; self-tested on analytic functions and three almanac dates) and the integer calendar for the era limits. The position theory itself is the reference, as the property says. Gap windows are calibrated on the unchanged tree (DESIGN section 5).",
    "technique": "property-based testing (Hypothesis) + dense sweeps, oracle = event search on the library's own VSOP87 positions",
}
RULE = ("Sites (planet, finder, variant) are enumerated by introspection (56: 28 closed-formula finders, "
        "14 perihelion/aphelion, 14 node passages). event: Hypothesis draws the query JDE per site - years "
        "uniform in -2000..4000, era ends over-weighted, the exact era limits, 29 February of Julian century "
        "years - optionally snapped to the finder's next selection boundary +- {1e-9 .. 0.04} period; the "
        "returned instant is verified by a sign change of the event function within the tolerance. sweep: a "
        "generated start and 60 consecutive queries spaced period/20 (400 for the tiling segments), plus a "
        "bisection of every selection boundary met; every step and probe is one evaluation. range: generated "
        "JDE before -2000 Jan 1.0 or after 4000 Jan 1.0 (1e-3 d .. 2700 / 6000 years outside). Non-trivial: "
        "query within 5 % of a period of a selection boundary, or |year - 2000| > 1500, or a sweep step / "
        "boundary probe, or an out-of-range query within 400 d of a limit; distinct = distinct case "
        "(site, JDE, snap)."
        " all_events: for the 28 orbital variants (perihelion/aphelion, nodes) every event of the era is asked for, two queries per period with a seed-derived phase, no probes (quick: every 4th 250-event segment for Mercury, all segments for the other planets). seams: for the 28 closed-formula finders one-day steps over 400 days either side of the reform, of 1 January 1583, 1 BC/AD 1, 1600, 1700, 2000, -1000, AD 4 and of the era ends. In the event clause the returned Epoch is recycled through set() and the query repeated with an equal epoch.")
ASSUMPTIONS = [
    "event tolerance 1 d (Mercury, Venus, Earth, Mars) / 2 d (Jupiter..Neptune) as the property states; the "
    "event is a sign change, in the demanded sense, of: wrapped lambda - lambda_sun (- 180 deg), d(elongation)/dt, "
    "d(lambda)/dt, dR/dt, B, all from geometric_heliocentric_position of planet and Earth, planet at t - light time",
    "reported greatest elongation vs golden-section maximum of the true elongation: 0.05 deg (DESIGN; observed <= 0.015)",
    "inferior/superior told apart by distance to the planet vs to the Sun; east/west by the sign of lambda - lambda_sun; "
    "station 1 = d(lambda)/dt goes + to -; perihelion = dR/dt goes - to +; ascending = B goes - to +",
    "Earth.passage_nodes: totality and ordering only (the Earth's latitude of date has no node to cross)",
    "'one period' = mean synodic period (conjunction-type finders) or sidereal period (perihelion/node finders); "
    "'within one period of the query' is asserted as |result - query| <= period + event tolerance",
    "'never moves backwards': a drop below the running maximum of less than a tenth of the event tolerance "
    "(0.1 d / 0.2 d) is not distinguished from 'same event' (node passages computed from elements of the query "
    "date wander by up to 0.04 d for Mars, less for Mercury, Venus, Earth)",
    "gap windows (gap / mean period) observed over the whole era on the unchanged tree, widened by 0.02: see "
    "SYN_WINDOW / ORB_WINDOW; a skipped event shows 2.0, a repeated one 0",
    "era limits: -2000 January 1.0 (Julian) = JDE 990557.5 and 4000 January 1.0 = JDE 3182029.5; refusals asserted "
    "from 1e-3 d outside, and only for JDE >= 0 (year -4712 on), the domain of Epoch",
    "queries raising inside a sweep suspend the gap check across them and are reported as a component of the violation",
    "known-finding signatures are per site with an envelope (NODE_ENV, APSIS_ENV, WINDOW_PLANETS); a change that only "
    "makes the Jupiter/Saturn 'Invalid interval' refusal more frequent is indistinguishable from the listed finding",
    "sensitivity (mutants/C13.json, run on the tree with fixes_proposed/C13-perihelion-julian-year.diff applied): 20 of 20 "
    "above-tolerance mutants caught in the quick tier (round->int, transposed period / coefficient / mean-anomaly "
    "constants, m0 swap, aphelion +-0.5, 1721060->1721600, range limit, k^2 sign, two mutants at known-finding sites); "
    "1 below-tolerance mutant (0.54 d < 1 d) missed as expected; defects below the stated accuracy are invisible "
    "(e.g. Mercury.station_longitude_2 lacks its -0.1733 cos 3M term, 0.17 d, pinned by a test)",
]

# ----------------------------------------------------------------------------- sites

FORMULA_FINDERS = ["inferior_conjunction", "superior_conjunction", "conjunction", "opposition",
                   "western_elongation", "eastern_elongation",
                   "station_longitude_1", "station_longitude_2"]
VARIANT_FINDERS = {"perihelion_aphelion": ["perihelion", "aphelion"],
                   "passage_nodes": ["ascending", "descending"]}
KIND = {"inferior_conjunction": "conj", "superior_conjunction": "conj", "conjunction": "conj",
        "opposition": "opp", "western_elongation": "elong", "eastern_elongation": "elong",
        "station_longitude_1": "station", "station_longitude_2": "station",
        "perihelion_aphelion": "apsis", "passage_nodes": "node"}


def enumerate_sites():
    """(planet, finder, variant) by introspection of the planet classes."""
    out = []
    for p in EV.PLANETS:
        cls = EV.planet_class(p)
        for f in FORMULA_FINDERS:
            if callable(getattr(cls, f, None)):
                out.append((p, f, ""))
        for f, variants in VARIANT_FINDERS.items():
            if callable(getattr(cls, f, None)):
                for v in variants:
                    out.append((p, f, v))
    return out


SITES = enumerate_sites()
INNER = ("Mercury", "Venus", "Earth", "Mars")


def site_name(planet, finder, variant=""):
    return "%s.%s" % (planet, finder) + (":" + variant if variant else "")


def tol_days(planet):
    return 1.0 if planet in INNER else 2.0


def period_of(planet, finder):
    return EV.SIDEREAL[planet] if finder in VARIANT_FINDERS else EV.SYNODIC[planet]


J_LO = cal.jdn(-2000, 1, 1) - 0.5       # -2000 January 1.0 (Julian calendar)
J_HI = cal.jdn(4000, 1, 1) - 0.5        # 4000 January 1.0 (Gregorian calendar)
RANGE_MARGIN = 1e-3                     # days


class LibError(Exception):
    def __init__(self, exc, frames):
        Exception.__init__(self, repr(exc))
        self.exc = exc
        self.frames = frames


def _lib_frames(e):
    out = []
    for fs in traceback.extract_tb(e.__traceback__):
        fn = fs.filename
        if PKG_DIR in fn or "/pymeeus/" in fn:
            out.append("%s:%s" % (fn.rsplit("/", 1)[-1], fs.name))
    return out


def call(planet, finder, variant, jde):
    """Call the finder; returns (t_jde, extra) where extra is the elongation in degrees,
    the node radius, or None.  Type errors of the result are Violations; exceptions of
    the library come back as LibError."""
    cls = EV.planet_class(planet)
    fn = getattr(cls, finder)
    q = Epoch(jde)
    try:
        if finder == "perihelion_aphelion":
            res = fn(q, variant == "perihelion")
        elif finder == "passage_nodes":
            res = fn(q, variant == "ascending")
        else:
            res = fn(q)
    except Exception as e:      # noqa
        raise LibError(e, _lib_frames(e))
    site = "%s.%s" % (planet, finder)
    extra = None
    if KIND[finder] == "elong":
        if not (isinstance(res, tuple) and len(res) == 2 and isinstance(res[0], Epoch)
                and isinstance(res[1], Angle)):
            raise Violation("%s returned %r, not (Epoch, Angle)" % (site, res), site=site, kind="type")
        res, extra = res[0], float(res[1])
    elif finder == "passage_nodes":
        if not (isinstance(res, tuple) and len(res) == 2 and isinstance(res[0], Epoch)
                and isinstance(res[1], float)):
            raise Violation("%s returned %r, not (Epoch, float)" % (site, res), site=site, kind="type")
        res, extra = res[0], res[1]
    elif not isinstance(res, Epoch):
        raise Violation("%s returned %r, not an Epoch" % (site, res), site=site, kind="type")
    t = res.jde()
    # the caller owns what it was given: recycle the returned object through its documented
    # mutator, so that a result shared with a later caller (a cache handing out one mutable
    # object) shows there
    if isinstance(t, float):
        res.set(2451545.0 if t != 2451545.0 else 2451546.0)
    if not (isinstance(t, float) and math.isfinite(t)) or (extra is not None and not math.isfinite(extra)):
        raise Violation("%s returned a non-finite result (%r, %r)" % (site, t, extra), site=site,
                        kind="non_finite")
    return t, extra


# ----------------------------------------------------------------------------- event clause

ANGLE_TOL = 0.05            # degrees, reported greatest elongation vs true maximum
# half-width of the second, wide bracket (fraction of the period) used to measure how far
# off a result is once the tolerance bracket holds no event of the demanded sense
WIDE = {"conj": 0.1, "opp": 0.1, "elong": 0.05, "station": 0.05, "apsis": 0.2, "node": 0.2}


def direction_of(finder, variant):
    if finder == "station_longitude_1":
        return -1           # d(lam)/dt goes + -> - : begins retrograde motion
    if finder == "station_longitude_2":
        return +1
    if KIND[finder] == "elong":
        return -1           # a maximum of the elongation
    if finder == "perihelion_aphelion":
        return +1 if variant == "perihelion" else -1
    if finder == "passage_nodes":
        return +1 if variant == "ascending" else -1
    return 0


def era_label(jde):
    y = 2000.0 + (jde - 2451545.0) / 365.25
    if y < -1500:
        return "era:-2000..-1500"
    if y < 500:
        return "era:-1500..500"
    if y <= 3500:
        return "era:500..3500"
    return "era:3500..4000"


def julian_century_feb29(jde):
    """True when the civil date of jde is 29 February of a Julian-calendar century
    year that the Gregorian rule does not make leap (the dates on which Epoch.year()
    used to raise)."""
    y, m, d = cal.from_jdn(int(math.floor(jde + 0.5)))
    return m == 2 and d == 29 and y < 1582 and y % 100 == 0 and y % 400 != 0


def find_flip(planet, finder, variant, jde, period, iters=30):
    """Next selection boundary at or after jde: the query at which the finder's result
    switches to the next event, located by bisection on the library's own answers.
    Returns (q_before, q_after) bracketing the switch, or None (no switch within 1.5
    periods or an exception on the way)."""
    same = 0.25 * period
    r0 = call(planet, finder, variant, jde)[0]
    lo = jde
    hi = None
    for i in range(1, 31):
        q = jde + i * period / 20.0
        if q > J_HI:
            return None
        if abs(call(planet, finder, variant, q)[0] - r0) > same:
            hi = q
            break
        lo = q
    if hi is None:
        return None
    for _ in range(iters):
        m = 0.5 * (lo + hi)
        if m == lo or m == hi:
            break
        if abs(call(planet, finder, variant, m)[0] - r0) > same:
            hi = m
        else:
            lo = m
    return lo, hi


def resolve_query(case, period):
    """The query epoch of a case.  With "snap" = s the query is placed at the next
    selection boundary after case["jde"], offset by s periods (s < 0: just before the
    switch, s > 0: just after)."""
    jde = case["jde"]
    s = case.get("snap")
    if s is None:
        return jde, False
    fl = find_flip(case["planet"], case["finder"], case.get("variant", ""), jde, period)
    if fl is None:
        return jde, False
    q = (fl[0] if s < 0 else fl[1]) + s * period
    return min(max(q, J_LO), J_HI), True


def lib_violation(planet, finder, e, what):
    return Violation("%s raised %r" % (what, e.exc), site="%s.%s" % (planet, finder),
                     kind="exception:" + type(e.exc).__name__, exc=repr(e.exc), frames=e.frames)


def body_event(case):
    planet, finder, variant = case["planet"], case["finder"], case.get("variant", "")
    kind = KIND[finder]
    period = period_of(planet, finder)
    tol = tol_days(planet)
    site = "%s.%s" % (planet, finder)
    name = site_name(planet, finder, variant)
    try:
        q, snapped = resolve_query(case, period)
        t, extra = call(planet, finder, variant, q)
        t_again, extra_again = call(planet, finder, variant, q)
        if abs(t_again - t) > 1e-6 or (extra is not None and abs(extra_again - extra) > 1e-9):
            raise Violation("%s(Epoch(%r)) = JDE %.6f, and JDE %.6f when asked again with an equal "
                            "epoch after the first result had been re-used by its receiver"
                            % (name, q, t, t_again), site=site, kind="not_a_function_of_the_query",
                            first=t, second=t_again)
        near_boundary = snapped
        if not snapped and finder in FORMULA_FINDERS:
            near_boundary = any(
                abs(call(planet, finder, variant, min(max(q + s * 0.05 * period, J_LO), J_HI))[0] - t)
                > 0.25 * period for s in (-1, 1))
    except LibError as e:
        raise lib_violation(planet, finder, e, "%s(Epoch(%r))" % (name, case["jde"]))
    labels = [name, era_label(q)]
    if near_boundary:
        labels.append("near_selection_boundary")
    if julian_century_feb29(q):
        labels.append("julian_century_feb29")
    if q in (J_LO, J_HI):
        labels.append("era_end_exact")
    nontrivial = near_boundary or abs(q - 2451545.0) > 1500 * 365.25
    show = {"query_jde": q, "returned_jde": t}
    if planet == "Earth" and finder == "passage_nodes":
        # the Earth's latitude of date has no node to cross: totality only
        labels.append("totality_only")
        return {"labels": labels, "nontrivial": nontrivial, "show": show}

    direction = direction_of(finder, variant)
    bound = 120.0 if kind in ("conj", "opp") else None     # stay clear of the +-180 seam
    r = EV.locate(planet, kind, direction, t, tol, WIDE[kind] * period, period, bound=bound)
    what = "%s(Epoch(%r)) = JDE %.5f" % (name, q, t)
    if r["status"] == "far":
        raise Violation("%s, but the event on the library's VSOP87 positions is at %.4f (%+.3f d; "
                        "tolerance %.0f d)" % (what, r["t_event"], r["err"], tol), site=site,
                        kind="timing", err_days=r["err"], tol=tol, query=q, returned=t)
    if r["status"] == "wrong":
        raise Violation("%s: the event near it (%+.3f d) has the opposite sense to the one asked for"
                        % (what, r["err"]), site=site, kind="wrong_kind", err_days=r["err"],
                        query=q, returned=t)
    if r["status"] == "none":
        raise Violation("%s: no such event within %.1f d on the library's VSOP87 positions"
                        % (what, WIDE[kind] * period), site=site, kind="no_event", query=q, returned=t)
    show["event_jde"] = r["t_event"]
    show["error_days"] = r["err"]
    if abs(r["err"]) > 0.5 * tol:
        labels.append("error>tol/2")
    if kind in ("conj", "elong"):
        g = EV.geocentric(planet, t)
        if finder == "inferior_conjunction" and not g["delta"] < g["r_earth"]:
            raise Violation("%s is a superior conjunction (planet at %.3f AU, Sun at %.3f AU)"
                            % (what, g["delta"], g["r_earth"]), site=site, kind="wrong_kind")
        if finder in ("superior_conjunction", "conjunction") and not g["delta"] > g["r_earth"]:
            raise Violation("%s is an inferior conjunction (planet at %.3f AU, Sun at %.3f AU)"
                            % (what, g["delta"], g["r_earth"]), site=site, kind="wrong_kind")
        if kind == "elong":
            east = g["dlam"] > 0
            if east != (finder == "eastern_elongation"):
                raise Violation("%s: the planet is %s of the Sun (lambda - lambda_sun = %.2f deg)"
                                % (what, "east" if east else "west", g["dlam"]), site=site,
                                kind="wrong_kind")
            tm, emax = EV.elongation_max(planet, t, tol)
            show["elongation_reported"] = extra
            show["elongation_max"] = emax
            if abs(emax - extra) > ANGLE_TOL:
                raise Violation("%s reports a greatest elongation of %.4f deg; the maximum on the "
                                "library's positions is %.4f deg (at %+.3f d)" % (what, extra, emax, tm - t),
                                site=site, kind="angle", reported=extra, true_max=emax)
    return {"labels": labels, "nontrivial": nontrivial, "show": show}


# ----------------------------------------------------------------------------- sweep clause

# observed (gap between consecutive distinct results) / (mean period) over the whole era
# -2000..4000 on the unchanged tree (notes/probes/p27.py and the builder's calibration),
# asserted widened by 2 % of a period on each side
SYN_WINDOW = {"Mercury": (0.9019, 1.1377), "Venus": (0.9840, 1.0147), "Mars": (0.9794, 1.0400),
              "Jupiter": (0.9901, 1.0116), "Saturn": (0.9945, 1.0066),
              "Uranus": (0.9987, 1.0014), "Neptune": (0.9997, 1.0003)}
ORB_WINDOW = {"Mercury": (1.0000, 1.0000), "Venus": (0.9983, 1.0016), "Earth": (0.9930, 1.0084),
              "Mars": (0.9996, 1.0004), "Jupiter": (0.9965, 1.0041), "Saturn": (0.9913, 1.0103),
              "Uranus": (0.9953, 1.0055)}
WIDEN = 0.02
STEP = 1.0 / 20.0


def gap_window(planet, finder):
    lo, hi = (ORB_WINDOW if finder in VARIANT_FINDERS else SYN_WINDOW)[planet]
    return lo - WIDEN, hi + WIDEN


def body_sweep(case):
    planet, finder, variant = case["planet"], case["finder"], case.get("variant", "")
    jde0, n = case["jde0"], case["n"]
    step = case.get("step", STEP)          # in periods; 0.5 = two queries per event, no probes
    period = period_of(planet, finder)
    tol = tol_days(planet)
    site = "%s.%s" % (planet, finder)
    name = site_name(planet, finder, variant)
    same = 0.25 * period
    eps_back = 0.1 * tol
    wlo, whi = gap_window(planet, finder)
    nbis = 20 if finder in FORMULA_FINDERS else 10
    excs = []

    def ask(q):
        try:
            return call(planet, finder, variant, q)[0]
        except LibError as e:
            excs.append((q, e))
            return None

    pts = []
    for i in range(n):
        q = jde0 + i * step * period
        if q > J_HI:
            break
        pts.append((q, ask(q)))
    nsteps = len(pts)
    probes = []
    for (q0, r0), (q1, r1) in zip(pts, pts[1:]):
        if step > 0.25:
            break
        if r0 is None or r1 is None or abs(r1 - r0) <= same:
            continue
        lo, hi, rlo, rhi = q0, q1, r0, r1
        for _ in range(nbis):
            m = 0.5 * (lo + hi)
            rm = ask(m)
            probes.append((m, rm))
            if rm is None:
                break
            if abs(rm - rlo) <= same:
                lo, rlo = m, rm
            elif abs(rm - rhi) <= same:
                hi, rhi = m, rm
            else:
                break       # a third event between two neighbours: flagged below as a gap
    seq = sorted(pts + probes)
    comp = {}
    runmax = None
    prev = None
    ngaps = 0
    maxdq = 0.0
    for q, r in seq:
        if r is None:
            prev = None
            continue
        maxdq = max(maxdq, abs(r - q) / period)
        ex = abs(r - q) - (period + tol)
        if ex > 0 and ex > comp.get("beyond", (0,))[0]:
            comp["beyond"] = (ex, q, r)
        if runmax is not None and runmax - r > eps_back and runmax - r > comp.get("backwards", (0,))[0]:
            comp["backwards"] = (runmax - r, q, r)
        if prev is not None and abs(r - prev) > same:
            g = (r - prev) / period
            ngaps += 1
            if not (wlo <= g <= whi):
                dev = max(wlo - g, g - whi)
                if dev > comp.get("gap", (0,))[0]:
                    comp["gap"] = (dev, q, r, g)
        prev = r
        runmax = r if runmax is None else max(runmax, r)
    if excs:
        comp["exception"] = (len(excs), excs[0][0], None)
    if comp:
        parts = []
        data = {"components": sorted(comp)}
        if "gap" in comp:
            dev, q, r, g = comp["gap"]
            parts.append("consecutive distinct results %.4f periods apart at query %.4f (window %.4f..%.4f): "
                         "an event %s" % (g, q, wlo, whi, "skipped" if g > 1.5 else
                                          ("repeated or out of order" if g < 0.5 else "misplaced")))
            data["gap"] = g
        if "beyond" in comp:
            ex, q, r = comp["beyond"][:3]
            parts.append("result %.4f is %.4f periods from the query %.4f (more than one period + %.0f d by %.3f d)"
                         % (r, abs(r - q) / period, q, tol, ex))
            data["excess_days"] = ex
        if "backwards" in comp:
            dr, q, r = comp["backwards"][:3]
            parts.append("result moved backwards by %.4f d at query %.4f" % (dr, q))
            data["drop_days"] = dr
        if "exception" in comp:
            parts.append("%d of the queries raised, first at %.4f: %r" % (len(excs), excs[0][0], excs[0][1].exc))
            data["exc"] = sorted(set(repr(e.exc) for _, e in excs))
            data["exc_types"] = sorted(set(type(e.exc).__name__ for _, e in excs))
            data["frames"] = sorted(set(f for _, e in excs for f in e.frames))
        raise Violation("%s swept from %.4f in %d steps of %g period: %s" % (name, jde0, nsteps, step, "; ".join(parts)),
                        site=site, kind="+".join(sorted(comp)), **data)
    labels = {name + (" sweep" if step <= 0.25 else " every event of the era"): nsteps,
              "sweep_step": nsteps, "selection_boundary_probe": len(probes),
              "distinct_event_pairs": ngaps, era_label(jde0) + " sweep": nsteps}
    return {"n": nsteps + len(probes), "nt": nsteps + len(probes), "labels": labels,
            "show": {"steps": nsteps, "boundary_probes": len(probes), "event_pairs": ngaps,
                     "max_abs(result-query)/period": maxdq}}


# ----------------------------------------------------------------------------- range clause

def body_range(case):
    planet, finder, jde = case["planet"], case["finder"], case["jde"]
    site = "%s.%s" % (planet, finder)
    assert jde < J_LO - RANGE_MARGIN or jde > J_HI + RANGE_MARGIN
    side = "before_-2000" if jde < J_LO else "after_4000"
    try:
        t, _ = call(planet, finder, "", jde)
    except LibError as e:
        if isinstance(e.exc, ValueError):
            near = min(abs(jde - J_LO), abs(jde - J_HI)) < 400.0
            return {"labels": [site + " range", side] + (["within_400d_of_limit"] if near else []),
                    "nontrivial": near}
        raise Violation("%s(Epoch(%r)) outside -2000..4000 raised %r instead of ValueError"
                        % (site, jde, e.exc), site=site, kind="wrong_exception", exc=repr(e.exc))
    raise Violation("%s(Epoch(%r)) (%s) was accepted and returned JDE %.4f; ValueError expected"
                    % (site, jde, side.replace("_", " "), t), site=site, kind="accepted_out_of_range")


CLAUSES = {"event": body_event, "sweep": body_sweep, "range": body_range}


# ----------------------------------------------------------------------------- known findings
#
# Each signature recognises one defect's effect at its site and within an envelope;
# anything else at the same site (larger error, other exception, wrong sense of the
# crossing, a gap outside the window) does not match and stays a VIOLATION.
# A sweep may show several effects at once; it matches only when *every* component of
# its violation is explained by one of the signatures below.

NODE_ENV = {                # two-body motion from mean elements of the query date
    "Jupiter": {"timing": 25.0, "drop": 2.0, "excess": 0.0},
    "Saturn": {"timing": 120.0, "drop": 15.0, "excess": 120.0},
    "Uranus": {"timing": 550.0, "drop": 100.0, "excess": 0.0},
}
APSIS_ENV = {"Uranus": 10.0}        # 3-point parabola over +-360 d
WINDOW_PLANETS = ("Jupiter", "Saturn")   # fixed +-30 d / +-90 d search window


def _is_window_exc(planet, exc_reprs, frames):
    return (planet in WINDOW_PLANETS
            and all(x.startswith("ValueError('Invalid interval") for x in exc_reprs)
            and ("%s.py:perihelion_aphelion" % planet) in frames
            and "Interpolation.py:root" in frames)


def _explained(clause, case, v):
    """Set of signature names that together explain every component of v, or None."""
    planet, finder = case.get("planet"), case.get("finder")
    if v.site != "%s.%s" % (planet, finder):
        return None
    d = v.data
    used = set()
    if clause == "event":
        if v.kind == "timing":
            e = abs(d["err_days"])
            if finder == "passage_nodes" and planet in NODE_ENV and e <= NODE_ENV[planet]["timing"]:
                return {"nodes:" + planet}
            if finder == "perihelion_aphelion" and planet in APSIS_ENV and e <= APSIS_ENV[planet]:
                return {"apsis:" + planet}
            return None
        if v.kind == "exception:ValueError" and finder in VARIANT_FINDERS \
                and _is_window_exc(planet, [d["exc"]], d["frames"]):
            return {"window:" + planet}
        return None
    if clause == "sweep":
        for c in d.get("components", []):
            if c == "exception":
                if finder in VARIANT_FINDERS and d.get("exc_types") == ["ValueError"] \
                        and _is_window_exc(planet, d["exc"], d["frames"]):
                    used.add("window:" + planet)
                    continue
                return None
            env = NODE_ENV.get(planet) if finder == "passage_nodes" else None
            if env is None:
                return None
            if c == "backwards" and d["drop_days"] <= env["drop"]:
                used.add("nodes:" + planet)
            elif c == "beyond" and d["excess_days"] <= env["excess"]:
                used.add("nodes:" + planet)
            else:
                return None
        return used or None
    return None


def _sig(name):
    def pred(clause, case, v):
        u = _explained(clause, case, v)
        return bool(u) and name in u
    return pred


KNOWN_SIGNATURES = {
    "KF-C13-nodes-jupiter": _sig("nodes:Jupiter"),
    "KF-C13-nodes-saturn": _sig("nodes:Saturn"),
    "KF-C13-nodes-uranus": _sig("nodes:Uranus"),
    "KF-C13-apsis-uranus": _sig("apsis:Uranus"),
    "KF-C13-apsis-window-jupiter": _sig("window:Jupiter"),
    "KF-C13-apsis-window-saturn": _sig("window:Saturn"),
}


# ----------------------------------------------------------------------------- strategies

def _clip(j):
    return min(max(j, J_LO), J_HI)


JULIAN_CENTURIES = [y for y in range(-1900, 1501, 100) if y % 400 != 0]


def query_epochs():
    """In-range query epochs (JDE): uniform and era-end-weighted years, the exact era
    ends, and 29 February of Julian-calendar century years."""
    from_years = S.years(-2000.0, 4000.0).map(lambda y: _clip(S.jde_from_year(y)))
    ends = st.builds(lambda lo, d: J_LO + d if lo else J_HI - d, st.booleans(),
                     st.sampled_from([0.0, 1e-6, 0.5, 30.0, 366.0, 3000.0, 20000.0]))
    feb29 = st.builds(lambda y, f: cal.jdn(y, 2, 29) - 0.5 + f, st.sampled_from(JULIAN_CENTURIES),
                      st.one_of(st.just(0.0), st.floats(0.0, 0.999)))
    return st.one_of(from_years, from_years, from_years, ends, feb29)


SNAPS = [-1e-9, 1e-9, -1e-5, 1e-5, -0.003, 0.003, -0.04, 0.04]


def event_cases(planet, finder, variant):
    base = {"planet": planet, "finder": finder}
    if variant:
        base["variant"] = variant

    def build(j, snap):
        c = dict(base)
        c["jde"] = j
        if snap is not None:
            c["snap"] = snap
        return c
    snap = st.one_of(st.none(), st.none(), st.sampled_from(SNAPS))
    return st.builds(build, query_epochs(), snap)


def sweep_cases(planet, finder, variant, n):
    base = {"planet": planet, "finder": finder, "n": n}
    if variant:
        base["variant"] = variant
    span = n * STEP * period_of(planet, finder)

    def build(j, at_end, ref, u):
        c = dict(base)
        if at_end == 1:
            j = J_LO
        elif at_end == 2:
            j = J_HI - span
        elif at_end == 3:
            # a sweep that straddles the reference epoch of the finder's series (event count
            # k = 0, somewhere in 2000-2012, 2051 for Uranus' apsides), where a sign, truncation
            # or cache-key slip in k shows
            j = S.jde_from_year(ref) - u * span
        c["jde0"] = _clip(min(j, J_HI - 0.5 * span))
        return c
    refs = st.one_of(st.floats(1999.5, 2004.0), st.sampled_from([2000.0, 2000.5, 2001.78, 2003.52, 2011.2, 2051.1]))
    return st.builds(build, query_epochs(), st.sampled_from([0, 0, 0, 0, 0, 3, 3, 1, 2]), refs,
                     st.floats(0.15, 0.85))


def range_cases(planet, finder):
    y2j = S.jde_from_year
    below = st.one_of(st.floats(-4700.0, -2001.0).map(y2j),
                      st.sampled_from([RANGE_MARGIN * 1.01, 0.01, 0.5, 1.0, 30.0, 365.0, 366.0, 400.0, 1000.0])
                      .map(lambda d: J_LO - d))
    above = st.one_of(st.floats(4001.0, 10000.0).map(y2j),
                      st.sampled_from([RANGE_MARGIN * 1.01, 0.01, 0.5, 1.0, 30.0, 365.0, 366.0, 400.0, 1000.0])
                      .map(lambda d: J_HI + d))
    return st.one_of(below, above).map(lambda j: {"planet": planet, "finder": finder, "jde": j})


# ----------------------------------------------------------------------------- tasks

VSOP_MS = {"Mercury": 1.5, "Venus": 0.35, "Earth": 0.5, "Mars": 1.15, "Jupiter": 0.85,
           "Saturn": 1.3, "Uranus": 0.7, "Neptune": 0.4}


def tasks(tier, seed):
    mult = 1 if tier == "quick" else 12
    out = []
    # event verification: one task per (planet, finder, variant); dearest first
    ev = []
    for (p, f, v) in SITES:
        n = 100 * mult
        if p == "Earth" and f == "passage_nodes":
            n = 40 * mult
        cost = n * (VSOP_MS[p] + VSOP_MS["Earth"]) * (2 if KIND[f] in ("station", "elong") else 1)
        shards = 1 if tier == "quick" else 4
        for sh in range(shards):
            ev.append((cost, Task("t_event", planet=p, finder=f, variant=v, shard=sh, n=n // shards)))
    ev.sort(key=lambda x: -x[0])
    out.extend(t for _, t in ev)
    # generated sweeps of 60 steps
    for (p, f, v) in SITES:
        n = (150 if f in FORMULA_FINDERS else 12) * mult
        shards = 1 if (tier == "quick" or f in FORMULA_FINDERS) else 4
        for sh in range(shards):
            out.append(Task("t_sweep", planet=p, finder=f, variant=v, shard=sh, n=n // shards))
    # dense tiling of the era for the closed-formula finders (about 30 us per query):
    # segments of 400 steps with a seed-derived phase; quick runs every 4th segment
    # (rotating with the seed) plus both era ends, thorough runs all of them
    for (p, f, v) in SITES:
        if f in FORMULA_FINDERS:
            out.append(Task("t_tiles", planet=p, finder=f, seed=seed, every=4 if tier == "quick" else 1))
    # calendar seams at one-day steps for the closed-formula finders (they pick the event from
    # epoch.year()): 400 days either side of the reform, of New Year 1583, 1 BC/AD 1, 1600, 1700,
    # 2000 and of the era ends
    for i in range(4):
        out.append(Task("t_seams", sites=[(p, f) for (p, f, v) in SITES if f in FORMULA_FINDERS][i::4]))
    # the orbital finders (1-3 ms per query): every event of the era, two queries per period with a
    # seed-derived phase and no boundary probes, in segments of 250 events (quick: every 4th
    # segment for Mercury, rotating with the seed)
    for (p, f, v) in SITES:
        if f in VARIANT_FINDERS:
            nshard = 4 if p == "Mercury" else (2 if p in ("Venus", "Earth", "Mars") else 1)
            for sh in range(nshard):
                out.append(Task("t_all_events", planet=p, finder=f, variant=v, seed=seed, shard=sh,
                                of=nshard, every=4 if (tier == "quick" and p == "Mercury") else 1))
    # out-of-range refusals
    formula_sites = [(p, f) for (p, f, v) in SITES if f in FORMULA_FINDERS]
    for i in range(4):
        out.append(Task("t_range", sites=formula_sites[i::4], n=40 * mult))
    return out


def t_event(rec, planet, finder, variant, shard, n):
    rec.given("event", event_cases(planet, finder, variant), n,
              shard="%s/%d" % (site_name(planet, finder, variant), shard))


def t_sweep(rec, planet, finder, variant, shard, n):
    rec.given("sweep", sweep_cases(planet, finder, variant, 60), n,
              shard="%s/%d" % (site_name(planet, finder, variant), shard))


def t_tiles(rec, planet, finder, seed, every):
    period = period_of(planet, finder)
    nseg = 400
    span = nseg * STEP * period
    # phase: a seed-derived fraction of one step
    phase = (sub_seed(seed, "C13", "tiles", planet, finder) % 10007) / 10007.0 * STEP * period
    k = 0
    j = J_LO + phase
    while j < J_HI:
        is_end = (k == 0) or (j + span >= J_HI)
        if is_end or (k % every) == (seed % every):
            # overlap by one period so that no boundary falls between two segments
            rec.case("sweep", {"planet": planet, "finder": finder, "jde0": max(J_LO, j - period),
                               "n": nseg + 20})
        k += 1
        j += span


SEAM_DATES = [(1582, 10, 15), (1583, 1, 1), (0, 1, 1), (1, 1, 1), (-1999, 12, 31), (1600, 3, 1),
              (1700, 3, 1), (2000, 1, 1), (3998, 12, 31), (-1000, 1, 1), (4, 3, 1)]


def t_seams(rec, sites):
    for (p, f) in sites:
        period = period_of(p, f)
        for ymd in SEAM_DATES:
            j0 = _clip(cal.jdn(*ymd) - 0.5 - 400.0)
            rec.case("sweep", {"planet": p, "finder": f, "jde0": j0, "n": 801,
                               "step": 1.0 / period})


def t_all_events(rec, planet, finder, variant, seed, shard, of, every):
    period = period_of(planet, finder)
    nseg = 500
    span = nseg * 0.5 * period
    phase = (sub_seed(seed, "C13", "all", planet, finder, variant) % 10007) / 10007.0 * period
    k = 0
    j = J_LO + phase
    while j < J_HI:
        if k % of == shard and ((k // of) % every) == (seed % every):
            c = {"planet": planet, "finder": finder, "jde0": max(J_LO, j - period), "n": nseg + 4,
                 "step": 0.5}
            if variant:
                c["variant"] = variant
            rec.case("sweep", c)
        k += 1
        j += span


def t_range(rec, sites, n):
    for (p, f) in sites:
        rec.given("range", range_cases(p, f), n, shard="%s.%s" % (p, f))


def self_test():
    EV.self_test()
    cal.self_test()
    assert J_LO == 2451557.5 - 4000 * 365.25 and J_HI == 2451544.5 + 2000 * 365.2425, (J_LO, J_HI)
    assert len(SITES) == 56, len(SITES)
    assert julian_century_feb29(cal.jdn(100, 2, 29) - 0.5 + 0.3)
    assert not julian_century_feb29(cal.jdn(400, 2, 29) - 0.5)
