"""C09 - geocentric positions match the library's own heliocentric vectors.

For the seven planets, Pluto and minor bodies: the returned (RA, Dec) must point along
  body_heliocentric(t - tau) - Earth_heliocentric(t),   tau = light time (fixed point),
both vectors taken from the library's own heliocentric functions; the reported
elongation must be the angle between that direction and the Sun's apparent direction at
the caller's epoch; the caller's Epoch must not move.

The geometry (vector difference, light-time fixed point, rotations, separations) is the
harness's own; minor bodies are propagated by vf/oracles/twobody.py, not by
pymeeus.Coordinates.kepler_equation / Minor._near_parabolic.
"""
import importlib
import math

from hypothesis import strategies as st

from pymeeus.Angle import Angle
from pymeeus.Epoch import Epoch
from pymeeus.Earth import Earth
from pymeeus.Sun import Sun
from pymeeus.Pluto import Pluto
from pymeeus.Minor import Minor
from pymeeus.Coordinates import mean_obliquity, true_obliquity

from ..core import Violation, Task
from .. import strategies as S
from ..oracles import twobody as tb

PROPERTY = "C09"
LEVEL = "exploration"
MANIFEST = {
    "level_text": "Randomised search (Hypothesis): 7 planets x epochs -2000..4000, Pluto 1885-2099, minor bodies over (q, e, i, node, peri, T, t) with the 0.98 and 1.0 regime switches, multi-revolution times and constructed close approaches to the Earth over-weighted; the direction is rebuilt from the library's own heliocentric vectors with an independent light-time fixed point and an independent two-body propagator. Finds violations; does not prove absence.",
    "level_note": "Trusts vf/oracles/twobody.py (self-tested on every run: Kepler residuals, 50-digit decimal solutions, elliptic vs universal-variable vs Barker, literature anchors) and plain vector geometry. Heliocentric vectors, the Sun vector and the obliquity are taken from the library, as the property says. Tolerances as stated (0.02 deg planets; 1e-4 deg Pluto/minor, scaled by 0.1 AU/distance for bodies closer than 0.1 AU).",
    "technique": "property-based testing (Hypothesis) with differential oracle: vector geometry + independent two-body propagator",
}
RULE = ("Hypothesis-generated cases, four clauses. planet_dir / planet_elong: (planet in "
        "Mercury..Neptune without Earth, fractional year in [-2000, 4000], era ends and "
        "1900-2100 over-weighted). pluto: year in [1885.01, 2098.99] plus the range ends. "
        "minor: q log-uniform in [0.1, 30] AU, e in [0, 1] with {0, 0.5, 0.9799999, 0.98, "
        "0.99, 0.999, 0.999999, 1-1e-9, 1-1e-10, 1.0} over-weighted, i in [0, 180], node and "
        "argument of perihelion in [0, 360), perihelion 1900-2100, t - T within +-50 years "
        "(log-weighted toward perihelion, exactly 0 included); one quarter of the minor cases "
        "are constructed so that the body passes within 0.0005-0.3 AU of the Earth at the "
        "epoch. Every clause also requires the Epoch objects handed in to have the same jde() "
        "afterwards. "
        "Non-trivial (as the property's quantifier suggests: where light time, regime or era "
        "matter): geocentric distance > 2 AU, or e >= 0.98, or year outside 1900-2100, or a "
        "body closer than 0.1 AU; distinct = distinct canonical case."
        " The Sun's vector of the oracle is asked for after a call for another date and cross-checked with minus the library's heliocentric J2000 vector of the Earth (6e-5 deg); one minor-body case in five uses a Minor object that described another orbit with the same perihelion passage, was asked for positions at the same epoch and was then given the orbit with set().")
ASSUMPTIONS = [
    "direction tolerance 0.02 deg (planets: covers annual aberration 20.5 arcsec, nutation "
    "17 arcsec and the FK5 offset, which the oracle does not apply), 1e-4 deg for Pluto and "
    "minor bodies, multiplied by 0.1 AU / distance when the body is closer than 0.1 AU (the "
    "library solves Kepler's equation to its documented 1e-10 rad; that error is amplified by "
    "1/distance)",
    "planets: the oracle vector is rotated to the equator with the library's mean obliquity "
    "of date; the Sun's apparent direction is Sun.apparent_geocentric_position(epoch, "
    "nutation=False) so that both directions are in the mean ecliptic frame of date; the "
    "planet's own aberration (up to 0.0075 deg in elongation) is inside the 0.02 deg",
    "minor bodies are astrometric J2000 positions: the Sun's direction is the library's own "
    "J2000 Sun vector at the caller's epoch (its 20.5 arcsec aberration is inside the 0.02 "
    "deg); the known C08 defect of that vector (mistyped L0 term) moves the Earth and the "
    "Sun consistently and is not asserted here",
    "ValueError('No convergence') from the documented near-parabolic iteration (0.98 <= e, "
    "|e - 1| >= 1e-10) is a refusal; ValueError('Epoch outside the 1885-2099 range') is a "
    "refusal only within 0.02 year of the ends of Pluto's range",
    "light time: 499.004782 s per AU (IAU 1976); the oracle iterates the fixed point three "
    "times, the library once (difference < 2e-5 deg for the fastest generated body)",
    "elongation limits 28.5 deg (Mercury) and 48 deg (Venus) as stated",
]

PLANETS = ["Mercury", "Venus", "Mars", "Jupiter", "Saturn", "Uranus", "Neptune"]
LT = 499.004782 / 86400.0           # days per AU
EPS0 = math.radians(23.4392911)     # obliquity of J2000.0 (IAU 1976)
TOL_PLANET = 0.02
TOL_J2000 = 1e-4
TOL_ELONG = 0.02

_CLS = {}


def planet_class(name):
    if name not in _CLS:
        _CLS[name] = getattr(importlib.import_module("pymeeus." + name), name)
    return _CLS[name]


def self_test():
    tb.self_test()
    # geometry helpers: a direction built by hand
    v = S.unit_vector(123.0, -45.0)
    lon, lat, r = S.from_vector(v)
    if abs(lon - 123.0) > 1e-12 or abs(lat + 45.0) > 1e-12 or abs(r - 1) > 1e-15:
        raise AssertionError("sphere helpers")
    if abs(S.sep_vectors((1, 0, 0), (0, 1, 0)) - 90.0) > 1e-13:
        raise AssertionError("sep_vectors")
    if abs(LT - 0.0057755183) > 5e-11:
        raise AssertionError("light-time constant")


# --------------------------------------------------------------------- helpers

def sph2vec(lon_deg, lat_deg, r):
    lo, la = math.radians(lon_deg), math.radians(lat_deg)
    return (r * math.cos(la) * math.cos(lo), r * math.cos(la) * math.sin(lo), r * math.sin(la))


def vsub(a, b):
    return (a[0] - b[0], a[1] - b[1], a[2] - b[2])


def vadd(a, b):
    return (a[0] + b[0], a[1] + b[1], a[2] + b[2])


def vnorm(a):
    return math.sqrt(a[0] * a[0] + a[1] * a[1] + a[2] * a[2])


def unit(a):
    n = vnorm(a)
    return (a[0] / n, a[1] / n, a[2] / n)


def hel(P, j):
    lon, lat, r = P.geometric_heliocentric_position(Epoch(j))
    return sph2vec(lon(), lat(), r)


def era_label(year):
    if year < -1000:
        return "era:-2000..-1000"
    if year < 1000:
        return "era:-1000..1000"
    if year < 1900:
        return "era:1000..1900"
    if year <= 2100:
        return "era:1900..2100"
    if year <= 3000:
        return "era:2100..3000"
    return "era:3000..4000"


def dist_label(d):
    if d < 0.1:
        return "dist:<0.1AU"
    if d <= 2.0:
        return "dist:0.1-2AU"
    if d <= 10.0:
        return "dist:2-10AU"
    return "dist:>10AU"


def check_angles(site, ra, dec, elon=None):
    for nm, x in (("ra", ra), ("dec", dec), ("elongation", elon)):
        if x is None:
            continue
        if not isinstance(x, Angle):
            raise Violation("%s returned %s = %r, not an Angle" % (site, nm, x), site=site,
                            kind="type")
        if not math.isfinite(x()):
            raise Violation("%s returned %s = %r" % (site, nm, x()), site=site, kind="nonfinite")
    if not (-90.0 <= dec() <= 90.0):
        raise Violation("%s: declination %r outside [-90, 90]" % (site, dec()), site=site,
                        kind="dec_range", dec=dec())


def planet_oracle(P, j):
    """Geocentric vector body(t - tau) - Earth(t) in the mean ecliptic frame of date,
    from the library's heliocentric positions; tau by fixed-point iteration."""
    earth = hel(Earth, j)
    g = vsub(hel(P, j), earth)
    tau0 = LT * vnorm(g)
    tau = tau0
    for _ in range(2):
        g = vsub(hel(P, j - tau), earth)
        tau = LT * vnorm(g)
    return g, tau0, tau


# --------------------------------------------------------------------- planets

def laskar_obliquity(j):
    """Mean obliquity of the ecliptic of date, radians: Laskar's polynomial as printed in Meeus
    (22.3), written out here so that the ecliptic -> equator rotation of the oracle does not
    lean on the library's own obliquity routine."""
    u = (j - 2451545.0) / 3652500.0
    sec = (-4680.93 + (-1.55 + (1999.25 + (-51.38 + (-249.67 + (-39.05 + (7.12 + (27.87 + (5.79 + 2.45 * u)
           * u) * u) * u) * u) * u) * u) * u) * u) * u
    return math.radians(23.0 + 26.0 / 60.0 + (21.448 + sec) / 3600.0)


def sun_vector(j):
    """The library's geocentric J2000 equatorial vector of the Sun at JDE j, asked for in a way that
    does not lean on what the routine was asked before (another date first, then fresh objects)
    and cross-checked against minus the library's heliocentric J2000 vector of the Earth (the two
    differ by the FK5 frame rotation, under 3e-5 degree)."""
    Sun.rectangular_coordinates_j2000(Epoch(j + 777.25))
    s = Sun.rectangular_coordinates_j2000(Epoch(j))
    L, B, R = Earth.geometric_heliocentric_position_j2000(Epoch(j))
    v = tb.rot_x(tuple(-x for x in sph2vec(L(), B(), R)), EPS0)
    off = S.sep_vectors(unit(s), unit(v))
    if off > 6e-5 or abs(vnorm(s) - vnorm(v)) > 1e-7:
        raise Violation("Sun.rectangular_coordinates_j2000(JDE %r) = %r is %.3e deg away from minus the "
                        "Earth's heliocentric J2000 vector of the same instant" % (j, tuple(s), off),
                        site="Sun.rectangular_coordinates_j2000", kind="sun_vector", off=off)
    return s


def recycled_epoch(j, warm):
    """An Epoch object that already served another date in the same routine and was then moved
    with set() (a caller stepping through an ephemeris re-uses one Epoch)."""
    e = Epoch(j - 31.4 if j > 1.0e6 else j + 31.4)
    try:
        warm(e)
    except Exception:
        pass
    e.set(j)
    return e


def _planet_call(case):
    name = case["planet"]
    P = planet_class(name)
    j = S.jde_from_year(case["year"])
    if int(abs(case["year"]) * 1013.0) % 4 == 0:
        e = recycled_epoch(j, P.geocentric_position)
    else:
        e = Epoch(j)
    j0 = e.jde()
    ra, dec, elon = P.geocentric_position(e)
    site = name + ".geocentric_position"
    if e.jde() != j0:
        raise Violation("%s moved the caller's Epoch from JDE %r to %r" % (site, j0, e.jde()),
                        site=site, kind="epoch_shifted", before=j0, after=e.jde())
    check_angles(site, ra, dec, elon)
    return name, P, j0, site, ra, dec, elon


def _planet_labels(name, year, dist):
    labels = ["planet:" + name, era_label(year), dist_label(dist)]
    nontrivial = dist > 2.0 or not (1900.0 <= year <= 2100.0)
    return labels, nontrivial


def body_planet_dir(case):
    name, P, j, site, ra, dec, elon = _planet_call(case)
    g, tau0, tau = planet_oracle(P, j)
    eps = laskar_obliquity(j)
    want = unit(tb.rot_x(g, eps))
    got = S.unit_vector(ra(), dec())
    off = S.sep_vectors(got, want)
    if off > TOL_PLANET:
        wra, wdec, _ = S.from_vector(want)
        raise Violation("%s(JDE %r) = (ra %.6f, dec %.6f) is %.5f deg away from the direction "
                        "body(t - tau) - Earth(t) = (ra %.6f, dec %.6f) built from the library's "
                        "heliocentric positions (tolerance %.2f)"
                        % (site, j, ra(), dec(), off, wra, wdec, TOL_PLANET),
                        site=site, kind="direction", off=off, dist=vnorm(g))
    labels, nt = _planet_labels(name, case["year"], vnorm(g))
    return {"labels": labels, "nontrivial": nt,
            "show": {"ra": ra(), "dec": dec(), "off_deg": off, "dist_au": vnorm(g), "tau_d": tau}}


def body_planet_elong(case):
    name, P, j, site, ra, dec, elon = _planet_call(case)
    el = elon()
    if not (0.0 <= el <= 180.0):
        raise Violation("%s(JDE %r): elongation %r outside [0, 180]" % (site, j, el), site=site,
                        kind="elongation_range", elon=el)
    lim = {"Mercury": 28.5, "Venus": 48.0}.get(name)
    if lim is not None and el > lim:
        raise Violation("%s(JDE %r): elongation %r exceeds %r deg" % (site, j, el, lim),
                        site=site, kind="elongation_limit", elon=el)
    g, tau0, tau = planet_oracle(P, j)
    ls, bs, rs = Sun.apparent_geocentric_position(Epoch(j), nutation=False)
    sun = S.unit_vector(ls(), bs())
    ref = S.sep_vectors(unit(g), sun)
    dev = abs(el - ref)
    labels, nt = _planet_labels(name, case["year"], vnorm(g))
    if dev > TOL_ELONG:
        # signature of the known finding: the elongation is the angle to the Sun's apparent
        # place at the light-time-shifted epoch t - tau (tau from the first-pass distance)
        js = j - tau0
        l2, b2, r2 = Sun.apparent_geocentric_position(Epoch(js))
        eps_t = true_obliquity(Epoch(js)).rad()
        sun_shift = tb.rot_x(S.unit_vector(l2(), b2()), eps_t)
        sig = S.sep_vectors(S.unit_vector(ra(), dec()), sun_shift)
        raise Violation("%s(JDE %r): elongation %.5f deg, but the angle between the direction "
                        "body(t - tau) - Earth(t) and the Sun's apparent direction at the same "
                        "epoch is %.5f deg (off by %.4f, tolerance %.2f; the angle to the Sun "
                        "at t - tau = %.4f d would be %.5f)"
                        % (site, j, el, ref, dev, TOL_ELONG, tau0, sig),
                        site=site, kind="elongation", elon=el, ref=ref, dev=dev,
                        sig_dev=abs(el - sig), tau=tau0, planet=name)
    labels.append("elong:%s" % ("<30" if el < 30 else "30-150" if el < 150 else ">150"))
    if case.get("seam_conjunction"):
        labels.append("conjunction_at_the_0/360_seam")
        if el < 2.0:
            labels.append("elong<2deg_at_the_seam")
        nt = True
    if lim is not None and el > lim - 2.0:
        labels.append("elong:%s_within_2deg_of_limit" % name)
    return {"labels": labels, "nontrivial": nt,
            "show": {"elongation": el, "reference": ref, "dev": dev}}


# --------------------------------------------------------------------- Pluto

def pluto_vec(j):
    lon, lat, r = Pluto.geometric_heliocentric_position(Epoch(j))
    return tb.rot_x(sph2vec(lon(), lat(), r), EPS0)


def body_pluto(case):
    year = case["year"]
    j = S.jde_from_year(year)
    if int(abs(year) * 1013.0) % 3 == 0:
        e = recycled_epoch(j, Pluto.geocentric_position)
    else:
        e = Epoch(j)
    j0 = e.jde()
    site = "Pluto.geocentric_position"
    try:
        ra, dec = Pluto.geocentric_position(e)
    except ValueError as ex:
        if "outside the 1885-2099 range" in str(ex) and (year < 1885.02 or year > 2098.98):
            return {"refused": "Epoch outside the 1885-2099 range (at the range end)",
                    "labels": ["pluto:range_end_refused"]}
        raise
    if e.jde() != j0:
        raise Violation("%s moved the caller's Epoch from JDE %r to %r" % (site, j0, e.jde()),
                        site=site, kind="epoch_shifted")
    check_angles(site, ra, dec)
    sun = sun_vector(j)
    g = vadd(pluto_vec(j), sun)
    tau = LT * vnorm(g)
    for _ in range(2):
        g = vadd(pluto_vec(j - tau), sun)
        tau = LT * vnorm(g)
    off = S.sep_vectors(S.unit_vector(ra(), dec()), unit(g))
    if off > TOL_J2000:
        raise Violation("%s(JDE %r) = (ra %.7f, dec %.7f) is %.3e deg away from Pluto(t - tau) "
                        "+ Sun(t) built from the library's own vectors (tolerance %.0e)"
                        % (site, j, ra(), dec(), off, TOL_J2000), site=site, kind="direction",
                        off=off)
    return {"labels": ["pluto", era_label(year), dist_label(vnorm(g))], "nontrivial": True,
            "show": {"ra": ra(), "dec": dec(), "off_deg": off, "tau_d": tau}}


# --------------------------------------------------------------------- minor bodies

def e_class(e):
    if e < 0.98:
        return "elliptic"
    if abs(e - 1.0) < 1e-10:
        return "parabolic"
    return "near-parabolic"


def minor_vec(case, j):
    """Heliocentric J2000 equatorial position at JDE j from the two-body reference."""
    r, v = tb.propagate(case["q"], case["e"], j - case["tp"])
    ecl = tb.perifocal_to_ecliptic(r, v, math.radians(case["i"]), math.radians(case["node"]),
                                   math.radians(case["peri"]))
    return tb.rot_x(ecl, EPS0)


def body_minor(case):
    q, ecc = case["q"], case["e"]
    tp, j = case["tp"], case["jde"]
    cls = e_class(ecc)
    site = "Minor.geocentric_position"
    t_ep = Epoch(tp)
    if int(abs(j) * 11.0) % 5 == 0:
        # an object that described another orbit with the same perihelion passage, was asked for
        # that body's position at this very epoch, and was then given this orbit with set()
        ai, an, aw = Angle(case["i"] * 0.5 + 3.0), Angle(case["node"] + 20.0), Angle(case["peri"] + 40.0)
        m = Minor(1.3 * q + 0.1, min(ecc, 0.5), ai, an, aw, t_ep)
        for fn in (m.heliocentric_ecliptical_position, m.geocentric_position):
            try:
                fn(Epoch(j))
            except ValueError:
                pass
        if int(abs(j) * 11.0) % 2 == 0:
            # ... and the caller keeps its three Angle objects too, moving them with set()
            ai.set(case["i"]), an.set(case["node"]), aw.set(case["peri"])
            m.set(q, ecc, ai, an, aw, t_ep)
        else:
            m.set(q, ecc, Angle(case["i"]), Angle(case["node"]), Angle(case["peri"]), t_ep)
    else:
        m = Minor(q, ecc, Angle(case["i"]), Angle(case["node"]), Angle(case["peri"]), t_ep)
    if int(abs(j) * 7.0) % 4 == 0:
        e = recycled_epoch(j, m.geocentric_position)
    else:
        e = Epoch(j)
    tp0, j0 = t_ep.jde(), e.jde()
    labels = ["minor:" + cls]
    try:
        ra, dec, elon = m.geocentric_position(e)
    except ValueError as ex:
        if str(ex) == "No convergence" and cls == "near-parabolic":
            return {"refused": "No convergence (near-parabolic iteration)",
                    "labels": ["minor:near-parabolic:refused"]}
        raise
    if e.jde() != j0 or t_ep.jde() != tp0:
        raise Violation("%s moved an Epoch of the caller (epoch %r -> %r, perihelion %r -> %r)"
                        % (site, j0, e.jde(), tp0, t_ep.jde()), site=site, kind="epoch_shifted")
    check_angles(site, ra, dec, elon)
    sun = sun_vector(j0)
    g = vadd(minor_vec(case, j0), sun)
    tau = LT * vnorm(g)
    for _ in range(3):
        g = vadd(minor_vec(case, j0 - tau), sun)
        tau = LT * vnorm(g)
    dist = vnorm(g)
    tol = TOL_J2000 * max(1.0, 0.1 / dist)
    off = S.sep_vectors(S.unit_vector(ra(), dec()), unit(g))
    labels.append(dist_label(dist))
    dt = j0 - tp0
    if ecc < 1.0 and abs(dt) > 0.5 * tb.period(q, ecc):
        labels.append("minor:multi-revolution")
    if abs(dt) < 1.0:
        labels.append("minor:within_1d_of_perihelion")
    if off > tol:
        raise Violation("%s: %s orbit q=%r e=%r, %.4f d from perihelion: (ra %.7f, dec %.7f) is "
                        "%.3e deg away from body(t - tau) + Sun(t) (two-body reference + the "
                        "library's Sun vector; tolerance %.1e, distance %.4f AU)"
                        % (site, cls, q, ecc, dt, ra(), dec(), off, tol, dist), site=site,
                        kind="direction:" + cls, off=off, dist=dist, tau=tau)
    el = elon()
    if not (0.0 <= el <= 180.0):
        raise Violation("%s: elongation %r outside [0, 180]" % (site, el), site=site,
                        kind="elongation_range")
    ref = S.sep_vectors(unit(g), unit(sun))
    dev = abs(el - ref)
    if dev > TOL_ELONG:
        raise Violation("%s: %s orbit q=%r e=%r: elongation %.5f deg, the angle between the "
                        "geocentric direction and the Sun is %.5f deg (off by %.4f, tolerance "
                        "%.2f; distance %.4f AU)" % (site, cls, q, ecc, el, ref, dev, TOL_ELONG,
                                                      dist), site=site, kind="elongation",
                        elon=el, ref=ref, dev=dev, dist=dist)
    nontrivial = dist > 2.0 or ecc >= 0.98 or dist < 0.1
    return {"labels": labels, "nontrivial": nontrivial,
            "show": {"ra": ra(), "dec": dec(), "elongation": el, "off_deg": off,
                     "elong_dev": dev, "dist_au": dist}}


CLAUSES = {"planet_dir": body_planet_dir, "planet_elong": body_planet_elong,
           "pluto": body_pluto, "minor": body_minor}


# --------------------------------------------------------------------- known findings

def _kf_planet_elong(clause, case, v):
    """All seven planet modules take the Sun at the light-time-shifted epoch: the reported
    elongation equals (to 1e-3 deg: the library neglects the Sun's latitude) the angle
    between the returned place and the Sun's apparent place at t - tau."""
    return (clause == "planet_elong" and v.kind == "elongation"
            and v.site.endswith(".geocentric_position")
            and v.data.get("sig_dev") is not None and v.data["sig_dev"] <= 1e-3
            # and no larger than the Sun's motion during tau plus the oracle's own slack
            and v.data["dev"] <= 1.03 * v.data["tau"] + 0.01)


KNOWN_SIGNATURES = {"KF-C09-planet-elongation-sun-at-shifted-epoch": _kf_planet_elong}


# --------------------------------------------------------------------- strategies

def planet_cases():
    return st.builds(lambda p, y: {"planet": p, "year": y}, st.sampled_from(PLANETS),
                     S.years(-2000.0, 4000.0))


def pluto_cases():
    ys = st.one_of(st.floats(1885.01, 2098.99), st.floats(1885.01, 2098.99),
                   st.sampled_from([1885.01, 2098.99, 1885.0005, 2098.9995, 2000.0, 1992.78]))
    return ys.map(lambda y: {"year": y})


E_SPECIAL = [0.0, 0.5, 0.9799999, 0.98, 0.99, 0.999, 0.999999, 1.0 - 1e-9, 1.0 - 1e-10,
             1.0 - 5e-11, 1.0, 1.0, 0.97999999999, 0.9800000001, 0.1, 0.967]


def ecc_values():
    return st.one_of(st.floats(0.0, 1.0), st.floats(0.0, 0.98, exclude_max=True),
                     st.floats(0.98, 1.0), st.sampled_from(E_SPECIAL), st.just(1.0))


def dt_days():
    small = st.tuples(st.floats(-4.0, math.log10(50.0 * 365.25)), st.sampled_from([1.0, -1.0])
                      ).map(lambda t: t[1] * 10.0 ** t[0])
    return st.one_of(st.floats(-50 * 365.25, 50 * 365.25), small, small,
                     st.sampled_from([0.0, 1e-11, -1e-11, 1e-9, 1.0, -1.0, 18262.5, -18262.5]))


def angle360():
    return st.one_of(st.floats(0.0, 360.0, exclude_max=True),
                     st.sampled_from([0.0, 90.0, 180.0, 270.0, 359.999999]))


def incl():
    return st.one_of(st.floats(0.0, 180.0), st.sampled_from([0.0, 1e-9, 90.0, 180.0, 179.999999]))


def _mk_minor(q, e, i, node, peri, tpy, dt):
    tp = S.jde_from_year(tpy)
    return {"q": q, "e": e, "i": i, "node": node, "peri": peri, "tp": tp, "jde": tp + dt}


def minor_plain():
    qs = st.one_of(S.log_uniform(0.1, 30.0), S.log_uniform(0.1, 30.0),
                   st.sampled_from([0.1, 30.0, 1.0, 0.13]))
    return st.builds(_mk_minor, qs, ecc_values(), incl(), angle360(), angle360(),
                     st.floats(1900.0, 2100.0), dt_days())


def _time_from_anomaly(q, e, v):
    """Days from perihelion to true anomaly v (|v| < pi)."""
    if abs(e - 1.0) < 1e-10:
        s = math.tan(v / 2.0)
        return (s + s ** 3 / 3.0) * math.sqrt(2.0) * q * math.sqrt(q) / tb.K
    a = q / (1.0 - e)
    E = 2.0 * math.atan2(math.sqrt(1.0 - e) * math.sin(v / 2.0),
                         math.sqrt(1.0 + e) * math.cos(v / 2.0))
    return (E - e * math.sin(E)) * a * math.sqrt(a) / tb.K


def _mk_close(year, e, v, psi, offlog, odir_lon, odir_z, delta_t, fallback):
    """Elements of an orbit that puts the body `off` AU from the Earth at the epoch: the
    target point is Earth(t) + off * direction (Earth from the library's Sun vector), the
    orbit is chosen through that point with true anomaly v and a plane rotated by psi
    about the radius.  The case is only an input; nothing here is an oracle."""
    j = S.jde_from_year(year)
    sx, sy, sz = Sun.rectangular_coordinates_j2000(Epoch(j))
    # Earth, heliocentric, ecliptic J2000
    ex, ey, ez = tb.rot_x((-sx, -sy, -sz), -EPS0)
    off = 10.0 ** offlog
    lat = math.degrees(math.asin(odir_z))
    d = S.unit_vector(odir_lon, lat)
    tx, ty, tz = ex + off * d[0], ey + off * d[1], ez + off * d[2]
    rt = math.sqrt(tx * tx + ty * ty + tz * tz)
    u = (tx / rt, ty / rt, tz / rt)
    if abs(e - 1.0) < 1e-10:
        v = max(-2.5, min(2.5, v))
    q = rt * (1.0 + e * math.cos(v)) / (1.0 + e)
    if q < 0.1 or q > 30.0:
        return fallback
    dt = _time_from_anomaly(q, e, v)
    if not (abs(dt) <= 49.9 * 365.25):
        return fallback
    # plane containing u: normal h = cos psi n1 + sin psi n2, n1, n2 orthogonal to u
    ref = (0.0, 0.0, 1.0) if abs(u[2]) < 0.9 else (1.0, 0.0, 0.0)
    n1 = unit((u[1] * ref[2] - u[2] * ref[1], u[2] * ref[0] - u[0] * ref[2],
               u[0] * ref[1] - u[1] * ref[0]))
    n2 = (u[1] * n1[2] - u[2] * n1[1], u[2] * n1[0] - u[0] * n1[2], u[0] * n1[1] - u[1] * n1[0])
    h = tuple(math.cos(psi) * a + math.sin(psi) * b for a, b in zip(n1, n2))
    inc = math.degrees(math.acos(max(-1.0, min(1.0, h[2]))))
    node = math.atan2(h[0], -h[1])
    nvec = (math.cos(node), math.sin(node), 0.0)
    hxn = (h[1] * nvec[2] - h[2] * nvec[1], h[2] * nvec[0] - h[0] * nvec[2],
           h[0] * nvec[1] - h[1] * nvec[0])
    ulat = math.atan2(sum(a * b for a, b in zip(u, hxn)), sum(a * b for a, b in zip(u, nvec)))
    peri = math.degrees(ulat - v) % 360.0
    if peri >= 360.0:
        peri = 0.0
    node = math.degrees(node) % 360.0
    if node >= 360.0:
        node = 0.0
    tp = j - dt
    return {"q": q, "e": e, "i": inc, "node": node, "peri": peri, "tp": tp, "jde": j + delta_t}


def minor_close():
    es = st.one_of(st.floats(0.0, 0.98, exclude_max=True), st.floats(0.98, 1.0),
                   st.sampled_from([0.0, 0.5, 0.9799999, 0.98, 0.99, 0.999, 0.999999, 1.0, 1.0]))
    return st.builds(_mk_close, st.floats(1950.0, 2050.0), es, st.floats(-3.1, 3.1),
                     st.floats(0.0, 2 * math.pi), st.floats(math.log10(0.0005), math.log10(0.3)),
                     st.floats(0.0, 360.0, exclude_max=True), st.floats(-1.0, 1.0),
                     st.sampled_from([0.0, 0.0, 0.01, -0.01, 0.2, -0.2, 1.0, -1.0]),
                     minor_plain())


def minor_cases():
    return st.one_of(minor_plain(), minor_plain(), minor_plain(), minor_close())


STRATS = {"planet_dir": planet_cases, "planet_elong": planet_cases, "pluto": pluto_cases,
          "minor": minor_cases}


def seam_conjunctions():
    """(planet, JDE) of every conjunction with the Sun that falls within 2.5 days of a March
    equinox in -2000..4000: elongation near 0 *and* the Sun at the 0/360 seam of ecliptic
    longitude - the two boundary classes of the elongation formula at once (about 970 windows
    of a few days in 6000 years; random epochs never land in one).  The library's own
    closed-form finders are only used to aim the generator; the oracle does not use them."""
    import importlib
    out = []
    finders = {}
    for name in PLANETS:
        cls = getattr(importlib.import_module("pymeeus." + name), name)
        finders[name] = [getattr(cls, f) for f in ("inferior_conjunction", "superior_conjunction", "conjunction")
                         if hasattr(cls, f)]
    for y in range(-1999, 4000):
        teq = 2451623.8 + 365.2422 * (y - 2000)
        for name, fs in finders.items():
            for f in fs:
                try:
                    tc = f(Epoch(teq)).jde()
                except Exception:
                    continue
                if abs(tc - teq) < 2.5:
                    out.append([name, round(tc, 3)])
    return out


def tasks(tier, seed):
    mult = 1 if tier == "quick" else 12
    plan = {"planet_dir": (16, 450), "planet_elong": (16, 450), "pluto": (2, 1500),
            "minor": (14, 4000)}
    out = []
    cands = seam_conjunctions()
    if cands:
        for sh in range(4):
            out.append(Task("t_seam", cands=cands[sh::4], shard=sh, n=250 * mult))
    for clause, (shards, n) in plan.items():
        k = 1 if tier == "quick" else 2
        for sh in range(shards * k):
            out.append(Task("t_given", clause=clause, shard=sh, n=n * mult // k))
    return out


def t_given(rec, clause, shard, n):
    rec.given(clause, STRATS[clause](), n, shard=shard)


def t_seam(rec, cands, shard, n):
    offs = st.one_of(st.floats(-2.0, 2.0), st.sampled_from([0.0, 0.25, -0.25, 0.5, -0.5, 1.0, -1.0]))
    strat = st.builds(lambda c, d: {"planet": c[0], "year": 2000.0 + (c[1] + d - 2451545.0) / 365.25,
                                    "seam_conjunction": True},
                      st.sampled_from(cands), offs)
    rec.given("planet_elong", strat, n, shard="seam%d" % shard)
