"""C16 - weekday, day of year, fractional year and sidereal time follow the JDE.

Calendar clauses (dow, doy, doy2date, yearfrac): exhaustive enumeration of the civil
calendar -4712..6000 against the integer calendar oracle, one case = one civil year.
Continuous clauses (yearsorted, gmst, rate, apparent): Hypothesis over JDE in [0, 5.4e6]
with boundary-aware instants, against the IAU 1982 expression in exact rationals.
"""
import datetime
import math
from fractions import Fraction
from fractions import Fraction as F

from hypothesis import strategies as st

from pymeeus.Angle import Angle
from pymeeus.Coordinates import nutation_longitude, true_obliquity
from pymeeus.Epoch import Epoch

from ..core import Violation, Task
from ..oracles import calendar as cal
from ..oracles import gmst as G
from .. import epoch_strategies as ES

PROPERTY = "C16"
LEVEL = "exploration"
EXHAUSTIVE = {"quick": False, "thorough": False}
MANIFEST = {
    "level_text": "Weekday, day of year, its inverse and the fractional year are enumerated exhaustively over every civil day of years -4712..6000 (each day also with a day fraction) against an independent integer calendar, so these clauses are decided for that finite domain on the tree it ran on; sidereal time and the ordering of the fractional year are a randomised search (Hypothesis, boundary-aware instants) against the IAU 1982 expression in exact rationals, which finds violations but does not prove absence.",
    "level_note": "Trusts the integer-calendar oracle (self-tested against datetime.date and literal anchors) and the published IAU 1982 coefficients (self-tested on Meeus' examples 12.a/12.b). 15 Oct - 31 Dec 1582 is excluded from the day-of-year clause only.",
    "technique": "exhaustive enumeration vs integer calendar (calendar clauses) + property-based testing vs exact-rational IAU 1982 GMST (sidereal clauses)",
}
RULE = ("Calendar clauses: enumeration, one case per civil year in -4712..6000, both tiers take "
        "all 10713 years; inside a year every civil day is taken at 0h and at one day fraction "
        "(four in the thorough tier) from a fixed rotation (1e-6 .. 0.999999999; the float JDE resolves 4.7e-10 day). dow: Epoch(y,m,d[+f]).dow() against "
        "(JDN+1) mod 7, previous day + 1, datetime.weekday after 1582, day name. doy: "
        "Epoch.get_doy and Epoch.doy() against JDN - JDN(1 Jan) + 1 (int and float arguments), "
        "365/366 on 31 Dec. doy2date: inverse of the library's own get_doy for every day. "
        "yearfrac: floor(year()) == civil year and strictly increasing day by day. Continuous "
        "clauses: Hypothesis-generated JDE in [0, 5.4e6] (uniform; civil midnight, first of "
        "month/year, whole seconds, the reform instant, all +- {0, 1-3 ulp, 1e-12 .. 1 s}; "
        "JD < 400; JD near 5.4e6). Non-trivial: calendar - date after February, year <= 0, "
        "Julian century year or 1582 (every enumerated (date, fraction) is distinct by "
        "construction); sidereal - |T| > 5 centuries or fraction of day within 1e-6 of 0; "
        "yearsorted - a list that straddles a civil midnight; distinct = distinct case."
        " dow also takes the first instant of every civil day and its last 1-3 doubles, built from the JDE, judged by the JDE the object reports. On one day in three the object is first asked for other views of itself (UTC date, full date, weekday, sidereal time) before the view under test.")
ASSUMPTIONS = [
    "oracle: integer Julian Day Number (self-tested against datetime.date.toordinal()); "
    "weekday = (JDN + 1) mod 7 = floor(JDE + 1.5) mod 7",
    "dates 15 Oct - 31 Dec 1582 are excluded from the doy clause only (the two formulations of "
    "the text disagree there by the ten dropped days); doy2date, dow and year() are asserted there",
    "day of year at 0h is compared exactly; with a day fraction within 1e-8 day of the JDE "
    "difference (float JDE resolution 4.7e-10 day) and within 1e-9 for the static get_doy",
    "floor(year()) is not asserted closer than 1e-9 day before a New Year (the nearest float to "
    "the exact fractional year is then the next integer); 'strictly increasing' is asserted for "
    "instants at least 1e-8 day apart (3e-11 year, above the float error of year())",
    "IAU 1982 expression: GMST(0h) polynomial evaluated at the instant plus the UT day "
    "fraction (SOFA gmst82 form), tolerance 1e-7 day as stated",
    "rate: the advance over x days (x = 1, and 1e-6 .. 2) is compared with x * 1.00273790935 "
    "turns; tolerance (x + 1) * 6e-11 * |T| + 5e-10 turn, because the IAU 1982 expression itself "
    "has the rate 1.002737909350795 + 5.9006e-11 T (T in centuries), 4.8e-9 per day away from "
    "the quoted constant at the ends of the domain, and an implementation may apply that secular "
    "part once per day (at 0h) rather than continuously",
    "equation of the equinoxes: identity apparent - mean = dpsi * cos(eps) / 15 asserted to "
    "1e-9 s for the library's own nutation and obliquity (floats or Angles) and for generated "
    "values; the bound < 1.2 s is asserted with the library's own nutation for JDE <= 3.5e6 "
    "only: the IAU 1980 series' secular amplitude term (-174.2e-4\" T) brings the equation of "
    "the equinoxes to 1.199 s near year 5900 and to 1.248 s near year 10000",
    "sensitivity (development time): 23 of 24 mutants of mutants/C16.json reported as VIOLATION "
    "by the quick tier; the remaining one (next instead of previous midnight as the reference of "
    "the afternoon) changes the result by < 5e-9 day, below the stated 1e-7 tolerance",
    "Epoch.utc2local and the local= keyword are excluded (clock dependent)",
]

Y_MIN, Y_MAX = -4712, 6000
FRACS = [0.5, 0.999999, 0.25, 1e-6, 0.75, 0.99999999, 0.125, 0.999999999, 1.0 / 86400, 0.375]
FRACS_YEAR = [0.5, 0.999999, 0.25, 1e-6, 0.75, 0.99999999, 0.125]
NAMES = ["Sunday", "Monday", "Tuesday", "Wednesday", "Thursday", "Friday", "Saturday"]
TOL_FRAC = 1e-8


def self_test():
    cal.self_test()
    G.self_test()
    assert cal.weekday(cal.jdn(2018, 2, 15)) == 4 and cal.weekday(cal.jdn(1954, 6, 30)) == 3
    assert cal.day_of_year(1978, 11, 14) == 318 and cal.day_of_year(-400, 2, 29) == 60
    assert cal.day_of_year(1582, 12, 31) == 355


def _labeller():
    labels = {}

    def lab(k, c=1):
        labels[k] = labels.get(k, 0) + c
    return labels, lab


def _nontrivial_date(y, m):
    return m > 2 or y <= 0 or y == 1582 or (y < 1582 and y % 100 == 0)


def _year_labels(lab, y):
    if y <= 0:
        lab("year<=0")
    if y < 1582 and y % 100 == 0:
        lab("julian_century_year")
    if y > 1582 and y % 100 == 0:
        lab("gregorian_century_year")
    if y == 1582:
        lab("reform_year")
    if cal.is_leap(y):
        lab("leap_year")
    lab("years")


def _days(y):
    return cal.days_of_year(y)


def _fracs(case, jn, table):
    """Day fractions for the civil day with Julian Day Number jn: one from the rotation in
    the quick tier (case['nf'] absent), case['nf'] of them in the thorough tier; ascending."""
    nf = case.get("nf", 1)
    return sorted(set(table[(jn + i) % len(table)] for i in range(nf)))


def _asked_before(e, jn):
    """On one day in three the object is first asked for other documented views of itself (UTC
    date, full date, weekday, sidereal time, ...): none of them may change what it answers next."""
    k = jn % 9
    if k == 0:
        e.get_date(utc=True)
    elif k == 3:
        e.get_full_date(utc=True)
        e.year()
    elif k == 6:
        e.get_date(leap_seconds=30)
        e.dow()
        e.mean_sidereal_time()
    return e


def _mk(y, m, dd, jn):
    """The Epoch for the civil date: a new object; or (one day in three) a new object that is first
    asked for other views of itself; or (one day in nine) an object that held a date of another
    year - of the other leap status where there is one - answered the same questions there, and
    was then moved with set()."""
    if jn % 9 == 4:
        oy = y - 1 if cal.is_leap(y) != cal.is_leap(y - 1) and y - 1 >= Y_MIN else \
            (y + 1 if y + 1 <= Y_MAX else y - 3)
        e = Epoch(oy, 12, 31.75) if oy != 1582 else Epoch(oy, 3, 1.75)
        e.leap(), e.year(), e.doy(), e.dow(), e.julian(), e.get_date()
        e.set(y, m, dd)
        return e
    return _asked_before(Epoch(y, m, dd), jn)


# ------------------------------------------------------------------ weekday

def body_dow(case):
    y = case["year"]
    labels, lab = _labeller()
    n = nt = nfrac = nlast = 0
    prev = None
    if y > Y_MIN:
        prev = Epoch(y - 1, 12, 31).dow()
    for (m, d) in _days(y):
        jn = cal.jdn(y, m, d)
        want = (jn + 1) % 7
        fr = _fracs(case, jn, FRACS)
        nfrac += len(fr)
        for dd in [d] + [d + f for f in fr]:
            e = _mk(y, m, dd, jn)
            got = e.dow()
            if (math.floor(e.jde() - 0.5) + 2) % 7 != want:      # x - 0.5 is exact in floats
                raise Violation("Epoch(%d, %d, %r).jde() = %r is not on that civil day"
                                % (y, m, dd, e.jde()), site="Epoch._compute_jde", kind="jde",
                                date=[y, m, dd])
            if got != want or not isinstance(got, int) or isinstance(got, bool):
                raise Violation("Epoch(%d, %d, %r).dow() = %r; floor(JDE + 1.5) mod 7 = %d (JDE %r)"
                                % (y, m, dd, got, want, e.jde()), site="Epoch.dow", kind="dow",
                                date=[y, m, dd], got=got, want=want)
            n += 1
        # the first instant of the civil day and the last doubles before the next one, built
        # from the JDE (a date with a day fraction cannot name them)
        jlast = jn + 0.5
        for _ in range(1 + jn % 3):
            jlast = math.nextafter(jlast, 0.0)
        for jj in (jn - 0.5, jlast):
            e2 = Epoch(jj)
            g2 = e2.dow()
            # Epoch(JDE) goes through the calendar date and may store the neighbouring double:
            # the weekday is that of the JDE the object reports
            w2 = int(math.floor(Fraction(e2.jde()) + Fraction(3, 2))) % 7
            if g2 != w2:
                raise Violation("Epoch(%r) has JDE %r and dow() = %r; floor(JDE + 1.5) mod 7 = %d (%s "
                                "of the civil day %d-%02d-%02d)"
                                % (jj, e2.jde(), g2, w2, "first instant" if jj == jn - 0.5
                                   else "last doubles", y, m, d),
                                site="Epoch.dow", kind="dow", date=[y, m, d], jde=jj, got=g2,
                                want=w2)
            if jj == jlast and w2 == want:
                nlast += 1
            n += 1
        if prev is not None and (got - prev) % 7 != 1:
            raise Violation("weekday does not advance by one from the day before %r: %r -> %r"
                            % ((y, m, d), prev, got), site="Epoch.dow", kind="dow_advance",
                            date=[y, m, d])
        prev = got
        if y > 1582:
            w = (datetime.date(y, m, d).weekday() + 1) % 7
            if got != w:
                raise Violation("Epoch(%d, %d, %d).dow() = %r, proleptic Gregorian weekday is %d"
                                % (y, m, d, got, w), site="Epoch.dow", kind="dow_gregorian",
                                date=[y, m, d], got=got, want=w)
        if jn % 5 == 0:
            s = e.dow(as_string=True)
            if s != NAMES[want]:
                raise Violation("Epoch(%d, %d, %r).dow(as_string=True) = %r, want %r"
                                % (y, m, dd, s, NAMES[want]), site="Epoch.dow", kind="dow_name",
                                date=[y, m, dd])
            n += 1
        if _nontrivial_date(y, m):
            nt += 1 + case.get("nf", 1)
    _year_labels(lab, y)
    lab("with_day_fraction", nfrac)
    lab("first_instant_of_the_day_by_JDE", len(_days(y)))
    lab("last_doubles_of_the_day_by_JDE(stored_on_that_day)", nlast)
    if y == 1582:
        lab("days_across_the_reform_gap")
    return {"n": n, "nt": nt, "labels": labels, "show": {"evaluations": n, "dow_31_dec": prev}}


# ------------------------------------------------------------------ day of year

def _excluded_doy(y, m, d):
    return y == 1582 and (m, d) >= (10, 15)


def body_doy(case):
    y = case["year"]
    labels, lab = _labeller()
    n = nt = 0
    j0 = cal.jdn(y, 1, 1)
    jde0 = j0 - 0.5
    for (m, d) in _days(y):
        if _excluded_doy(y, m, d):
            lab("excluded_1582_after_reform")
            continue
        jn = cal.jdn(y, m, d)
        want = jn - j0 + 1
        fl = jn % 3 == 0
        args = (float(y), float(m), float(d)) if fl else (y, m, d)
        got = Epoch.get_doy(*args)
        if got != want or not isinstance(got, float):
            raise Violation("Epoch.get_doy%r = %r; JD difference to 1 January + 1 = %d"
                            % (args, got, want), site="Epoch.get_doy", kind="doy",
                            date=[y, m, d], got=got, want=want)
        e = _mk(y, m, d, jn)
        got = e.doy()
        if got != want:
            raise Violation("Epoch(%d, %d, %d).doy() = %r; JD difference to 1 January + 1 = %d"
                            % (y, m, d, got, want), site="Epoch.doy", kind="doy",
                            date=[y, m, d], got=got, want=want)
        n += 2
        for f in _fracs(case, jn, FRACS):
            got = Epoch.get_doy(y, m, d + f)
            if not abs(got - (want + f)) <= 1e-9:
                raise Violation("Epoch.get_doy(%d, %d, %r) = %r; want %r"
                                % (y, m, d + f, got, want + f), site="Epoch.get_doy",
                                kind="doy_fraction", date=[y, m, d + f], got=got, want=want + f)
            e = _mk(y, m, d + f, jn + 3)
            got = e.doy()
            ref = (e.jde() - jde0) + 1.0          # float rounding <= 1e-9, tolerance 1e-8
            if not abs(got - ref) <= TOL_FRAC:
                raise Violation("Epoch(%d, %d, %r).doy() = %r; JDE - JDE(1 January) + 1 = %r"
                                % (y, m, d + f, got, ref), site="Epoch.doy",
                                kind="doy_fraction", date=[y, m, d + f], got=got, want=ref)
            n += 2
        if _nontrivial_date(y, m):
            nt += 2 + 2 * case.get("nf", 1)
        if m == 2 and d == 29:
            lab("leap_day")
    if y != 1582:
        want = 366 if cal.is_leap(y) else 365
        got = Epoch.get_doy(y, 12, 31)
        if got != want:
            raise Violation("Epoch.get_doy(%d, 12, 31) = %r; the year has %d days" % (y, got, want),
                            site="Epoch.get_doy", kind="doy_31_dec", date=[y, 12, 31], got=got,
                            want=want)
        n += 1
        lab("31_dec_366" if want == 366 else "31_dec_365")
    _year_labels(lab, y)
    return {"n": n, "nt": nt, "labels": labels, "show": {"evaluations": n}}


def body_doy2date(case):
    y = case["year"]
    labels, lab = _labeller()
    n = nt = 0
    for (m, d) in _days(y):
        jn = cal.jdn(y, m, d)
        k = Epoch.get_doy(y, m, d)
        form = jn % 3
        if form == 0:
            args = (y, int(k))
        elif form == 1:
            args = (y, k)
        else:
            args = (float(y), k)
        got = Epoch.doy2date(*args)
        if not (len(got) == 3 and got[0] == y and got[1] == m and got[2] == d
                and isinstance(got[1], int)):
            raise Violation("Epoch.doy2date%r = %r, but get_doy(%d, %d, %d) = %r"
                            % (args, tuple(got), y, m, d, k), site="Epoch.doy2date",
                            kind="doy2date", date=[y, m, d], doy=k, got=list(got))
        n += 1
        for f in _fracs(case, jn, FRACS):
            k = Epoch.get_doy(y, m, d + f)
            got = Epoch.doy2date(y, k)
            if not (got[0] == y and got[1] == m and abs(got[2] - (d + f)) <= 1e-9):
                raise Violation("Epoch.doy2date(%d, %r) = %r, but get_doy(%d, %d, %r) = %r"
                                % (y, k, tuple(got), y, m, d + f, k), site="Epoch.doy2date",
                                kind="doy2date_fraction", date=[y, m, d + f], doy=k,
                                got=list(got))
            n += 1
        if _nontrivial_date(y, m):
            nt += 1 + case.get("nf", 1)
        if m == 2 and d == 29:
            lab("leap_day")
        if y == 1582 and (m, d) >= (10, 15):
            lab("1582_after_reform")
    _year_labels(lab, y)
    return {"n": n, "nt": nt, "labels": labels, "show": {"evaluations": n}}


# ------------------------------------------------------------------ fractional year

def body_yearfrac(case):
    y = case["year"]
    labels, lab = _labeller()
    n = nt = 0
    prev = prev_at = None
    if y > Y_MIN:
        prev_at = (y - 1, 12, 31.75)
        prev = Epoch(*prev_at).year()
    for (m, d) in _days(y):
        jn = cal.jdn(y, m, d)
        for dd in [d] + [d + f for f in _fracs(case, jn, FRACS_YEAR)]:
            got = _mk(y, m, dd, jn + 6).year()
            if math.floor(got) != y or not isinstance(got, float):
                raise Violation("Epoch(%d, %d, %r).year() = %r: integer part is not the calendar "
                                "year" % (y, m, dd, got), site="Epoch.year", kind="year_floor",
                                date=[y, m, dd], got=got)
            if prev is not None and not got > prev:
                raise Violation("year() is not strictly increasing: %r at %r, then %r at %r"
                                % (prev, prev_at, got, (y, m, dd)), site="Epoch.year",
                                kind="year_order", date=[y, m, dd], got=got, prev=prev)
            prev, prev_at = got, (y, m, dd)
            n += 1
        if _nontrivial_date(y, m):
            nt += 1 + case.get("nf", 1)
    _year_labels(lab, y)
    return {"n": n, "nt": nt, "labels": labels, "show": {"year_at_31_dec": prev}}


def _civil_year(j):
    return cal.from_jdn(math.floor(F(j) + F(1, 2)))[0]


def body_yearsorted(case):
    eps = sorted((Epoch(j) for j in case["js"]), key=lambda e: e.jde())
    labels = []
    prev = None
    days = set()
    for e in eps:
        j = e.jde()
        yr = e.year()
        days.add(math.floor(j + 0.5))
        cy = _civil_year(j)
        nxt = cal.jdn(cy + 1, 1, 1) - F(1, 2)
        if nxt - F(j) >= F(1, 10 ** 9):
            if math.floor(yr) != cy:
                raise Violation("Epoch(%r).year() = %r: integer part is not the calendar year %d"
                                % (j, yr, cy), site="Epoch.year", kind="year_floor", jde=j, got=yr)
        else:
            labels.append("within_1e-9_day_of_new_year:floor_not_asserted")
        if prev is not None and j - prev[0] >= 1e-8:
            if not yr > prev[1]:
                raise Violation("year() is not strictly increasing in JDE: %r at JDE %r, %r at "
                                "JDE %r" % (prev[1], prev[0], yr, j), site="Epoch.year",
                                kind="year_order", jde=j, prev_jde=prev[0], got=yr, prev=prev[1])
        prev = (j, yr)
    years = set(_civil_year(e.jde()) for e in eps)
    if len(years) > 1:
        labels.append("straddles_new_year")
    if len(days) > 1:
        labels.append("straddles_midnight")
    if any(_civil_year(e.jde()) <= 0 for e in eps):
        labels.append("year<=0")
    return {"labels": labels or ["one_day"], "nontrivial": len(days) > 1,
            "show": {"years": [e.year() for e in eps]}}


# ------------------------------------------------------------------ sidereal time

def _sid_labels(j):
    labels = []
    T = abs(float(G.centuries(j)))
    f = (j + 0.5) % 1.0
    nt = False
    if T > 5:
        labels.append("|T|>5cy")
        nt = True
    if T > 40:
        labels.append("|T|>40cy")
    if min(f, 1.0 - f) <= 1e-6:
        labels.append("day_fraction_within_1e-6_of_0")
        nt = True
    return labels, nt


def body_gmst(case):
    e = Epoch(case["j"])
    j = e.jde()
    g = e.mean_sidereal_time()
    if not isinstance(g, float) or not (0.0 <= g < 1.0):
        raise Violation("Epoch(%r).mean_sidereal_time() = %r is not in [0, 1)" % (j, g),
                        site="Epoch.mean_sidereal_time", kind="gmst_range", jde=j, got=g)
    ref = G.gmst_turns(j)
    d = G.circ(F(g) - ref)
    if abs(d) > F(1, 10 ** 7):
        raise Violation("Epoch(%r).mean_sidereal_time() = %r; IAU 1982 expression gives %.10f "
                        "(off by %.3e day)" % (j, g, float(ref), float(d)),
                        site="Epoch.mean_sidereal_time", kind="gmst_iau1982", jde=j, got=g,
                        want=float(ref), off=float(d))
    labels, nt = _sid_labels(j)
    return {"labels": labels or ["plain"], "nontrivial": nt,
            "show": {"gmst": g, "minus_iau1982": float(d)}}


def body_rate(case):
    e1 = Epoch(case["j"])
    e2 = Epoch(case["j"] + case["x"])
    j1, j2 = e1.jde(), e2.jde()
    x = F(j2) - F(j1)
    g1, g2 = e1.mean_sidereal_time(), e2.mean_sidereal_time()
    for g, j in ((g1, j1), (g2, j2)):
        if not (0.0 <= g < 1.0):
            raise Violation("Epoch(%r).mean_sidereal_time() = %r is not in [0, 1)" % (j, g),
                            site="Epoch.mean_sidereal_time", kind="gmst_range", jde=j, got=g)
    adv = G.circ(F(g2) - F(g1) - x * G.RATE)
    T = max(abs(G.centuries(j1)), abs(G.centuries(j2)))
    tol = (abs(x) + 1) * F(6, 10 ** 11) * T + F(5, 10 ** 10)
    if abs(adv) > tol:
        raise Violation("mean sidereal time advances by %.12f turns over %.9f days from JDE %r; "
                        "1.00273790935 turns per day gives %.12f (off by %.3e, tolerance %.1e)"
                        % (float((F(g2) - F(g1)) % 1), float(x), j1, float((x * G.RATE) % 1),
                           float(adv), float(tol)),
                        site="Epoch.mean_sidereal_time", kind="gmst_rate", jde=j1, x=float(x),
                        off=float(adv))
    labels, nt = _sid_labels(j1)
    if math.floor(j1 + 0.5) != math.floor(j2 + 0.5):
        labels.append("crosses_midnight")
    labels.append("x=1" if case["x"] == 1 else "x!=1")
    return {"labels": labels, "nontrivial": nt, "show": {"advance_minus_rate": float(adv)}}


def body_apparent(case):
    e = Epoch(case["j"])
    j = e.jde()
    mean = e.mean_sidereal_time()
    own = case["mode"] == "own"
    if own:
        dpsi_a = nutation_longitude(e)
        eps_a = true_obliquity(e)
        dpsi, eps = float(dpsi_a), float(eps_a)
    else:
        dpsi, eps = case["dpsi_arcsec"] / 3600.0, case["eps"]
        dpsi_a, eps_a = Angle(dpsi), Angle(eps)
        dpsi, eps = float(dpsi_a), float(eps_a)
    if case["as_angle"]:
        app = e.apparent_sidereal_time(eps_a, dpsi_a)
    else:
        app = e.apparent_sidereal_time(eps, dpsi)
    if e.jde() != j or e.mean_sidereal_time() != mean:
        raise Violation("apparent_sidereal_time changed the Epoch", site="Epoch.apparent_sidereal_time",
                        kind="mutated", jde=j)
    got_s = (app - mean) * 86400.0
    want_s = dpsi * 3600.0 * math.cos(math.radians(eps)) / 15.0
    if not abs(got_s - want_s) <= 1e-9 + 1e-9 * abs(want_s):
        raise Violation("apparent - mean sidereal time at JDE %r is %.9f s; dpsi cos(eps) / 15 = "
                        "%.9f s (dpsi %.6f\", eps %.6f deg)" % (j, got_s, want_s, dpsi * 3600, eps),
                        site="Epoch.apparent_sidereal_time", kind="equation_of_equinoxes", jde=j,
                        got=got_s, want=want_s)
    labels, nt = _sid_labels(j)
    labels.append("own_nutation" if own else "given_nutation")
    labels.append("angles" if case["as_angle"] else "floats")
    if own and j <= 3.5e6:
        if not abs(got_s) < 1.2:
            raise Violation("apparent - mean sidereal time at JDE %r is %.4f s (not under 1.2 s)"
                            % (j, got_s), site="Epoch.apparent_sidereal_time",
                            kind="equation_of_equinoxes_bound", jde=j, got=got_s)
        labels.append("bound_1.2s_asserted")
        if abs(got_s) > 1.0:
            labels.append("equation_of_equinoxes>1s")
    return {"labels": labels, "nontrivial": nt, "show": {"apparent_minus_mean_s": got_s}}


CLAUSES = {"dow": body_dow, "doy": body_doy, "doy2date": body_doy2date, "yearfrac": body_yearfrac,
           "yearsorted": body_yearsorted, "gmst": body_gmst, "rate": body_rate,
           "apparent": body_apparent}


# ------------------------------------------------------------------ strategies

def yearsorted_cases():
    def cluster(base, offs):
        return {"js": [min(ES.JD_MAX, max(0.0, base + o)) for o in offs]}
    offsets = st.lists(st.one_of(st.sampled_from([0.0, 1e-9, -1e-9, 1e-8, -1e-8, 2e-8, -2e-8, 1e-6,
                                                  -1e-6, ES.SEC, -ES.SEC, 0.5, -0.5, 1.0, -1.0,
                                                  59.0, -59.0, 366.0, -366.0]),
                                 st.floats(-2.0, 2.0), st.floats(-400.0, 400.0)),
                       min_size=2, max_size=6)
    return st.one_of(st.builds(cluster, ES.first_of_month(), offsets),
                     st.builds(cluster, ES.jdes(), offsets),
                     st.lists(ES.jdes(), min_size=2, max_size=6).map(lambda l: {"js": l}))


def gmst_cases():
    return ES.jdes().map(lambda j: {"j": j})


def rate_cases():
    xs = st.one_of(st.just(1), st.just(1), st.just(1.0), st.sampled_from([0.5, 0.25, 2, 1.5, 1e-3, 1e-5,
                                                                        0.75, 1.0 / 86400, 0.1]),
                   st.floats(1e-6, 2.0))
    return st.builds(lambda j, x: {"j": min(j, ES.JD_MAX - 2.0), "x": x}, ES.jdes(), xs)


def apparent_cases():
    def build(j, a, mode, dpsi, eps):
        if mode == "own":
            return {"j": j, "mode": "own", "as_angle": a}
        return {"j": j, "mode": "given", "as_angle": a, "dpsi_arcsec": dpsi, "eps": eps}
    return st.builds(build, ES.jdes(), st.booleans(),
                     st.sampled_from(["own", "own", "own", "given"]),
                     st.floats(-20.0, 20.0), st.floats(22.0, 24.5))


STRATS = {"yearsorted": yearsorted_cases, "gmst": gmst_cases, "rate": rate_cases,
          "apparent": apparent_cases}

def tasks(tier, seed):
    nf = 1 if tier == "quick" else 4
    k = 1 if tier == "quick" else 3
    out = []
    for clause, nsh in (("dow", 8), ("doy", 9), ("doy2date", 5), ("yearfrac", 12)):
        for i in range(nsh * k):
            out.append(Task("t_years", clause=clause, shard=i, of=nsh * k, nf=nf))
    mult = 1 if tier == "quick" else 30
    plan = {"yearsorted": (3, 2500), "gmst": (4, 2500), "rate": (4, 2000), "apparent": (4, 1000)}
    for clause, (shards, n) in plan.items():
        for sh in range(shards if tier == "quick" else shards * 4):
            out.append(Task("t_given", clause=clause, shard=sh,
                            n=n * mult // (1 if tier == "quick" else 4)))
    return out


def t_years(rec, clause, shard, of, nf=1):
    """Years Y_MIN + shard, Y_MIN + shard + of, ... (all years are covered by the `of` shards)."""
    for y in range(Y_MIN + shard, Y_MAX + 1, of):
        rec.case(clause, {"year": y} if nf == 1 else {"year": y, "nf": nf})


def t_given(rec, clause, shard, n):
    rec.given(clause, STRATS[clause](), n, shard=shard)
