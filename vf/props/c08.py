"""C08 - Sun/Earth positions agree across frames; obliquity and nutation are sane.

Oracle: vector geometry (vf/oracles/rot.py) + the literal IAU coefficients quoted by the
property (vf/oracles/iau.py).  The frame clauses are end-to-end, exactly as the property
states them: each frame variant against the *of-date* position carried to that frame by
the library's own precession, 2 arcsec / 1e-5 AU, years 1000-3000.

Three defects of the unchanged tree cannot be repaired without changing pinned tests
(fixing any of them fails tests/test_sun.py, the first also test_minor/test_pluto); they
are open known findings.  Their signature predicates do not say "this clause fails":
they *remove the exact effect of the defect* from the library's output (the mistyped L0
term recomputed; the sequential overwrite inverted; the wrongly parametrised precession
matrix replaced) and match only if what is left satisfies the property.
"""
import datetime
import json
import math
from collections import Counter

from hypothesis import strategies as st

from pymeeus.Angle import Angle
from pymeeus.Epoch import Epoch
from pymeeus import Coordinates as C
from pymeeus.Earth import Earth
from pymeeus.Sun import Sun
from pymeeus.Moon import Moon

from ..core import Violation, Task
from ..oracles import rot, iau
from ..oracles import calendar as cal

PROPERTY = "C08"
LEVEL = "exploration"
MANIFEST = {
    "level_text": "Randomised search (Hypothesis; epochs built as year x day-of-year so that all seasons occur, era ends over-weighted; equinox epochs J2000 +-3 centuries; every accepted date-argument form) against vector geometry and the literal IAU coefficients: reflection Sun/Earth, five frame variants end-to-end against the of-date position carried by the library's own precession, obliquity vs the IAU cubic, nutation vs the 18.6-year main term, coarse vs VSOP87 Sun. Finds violations; does not prove absence.",
    "level_note": "Trusts math trig, the vector helper and the typed IAU/Meeus coefficients (self-tested on every run), and, for the frame clauses, the library's precession (C06's subject). Three open known findings are excluded by exact-effect signatures.",
    "technique": "property-based testing (Hypothesis) with differential/metamorphic oracles across the library's own frames and literal IAU reference models",
}
RULE = ("Hypothesis-generated cases, one clause per relation. Epoch = integer year + fraction "
        "of year (uniform: all seasons), years 1000-3000 for the frame clauses, -2000..4000 "
        "for reflection and nutation, 0..4000 (|T| <= 20 cy) for the obliquity, 1800-2200 "
        "for the coarse Sun; era ends and J2000 +-50 yr over-weighted. Equinox epochs "
        "J2000 +-300 yr (plus J2000, B1950 and the epoch itself). Date arguments of the "
        "obliquity/nutation functions as Epoch, (y, m, d) positional, tuple, list, "
        "datetime.date, datetime.datetime. Non-trivial: |year - 2000| > 50, or an equinox "
        "epoch other than J2000, or a date form other than Epoch; distinct = distinct case "
        "dict."
        " Years at the ends of the stated range are over-weighted (50 first/last years), Epoch arguments are recycled objects in one case out of four, and the nutation clause runs a second campaign confined to the first and last 150 years of -2000..4000.")
ASSUMPTIONS = [
    "reflection: longitude difference 180 deg (mod 360), latitudes opposite, to 1e-9 deg; "
    "same distance to 1e-12 AU (the text gives no number: these are float rounding bounds); "
    "lon + 180 and lon - 180 are the same direction",
    "frame clauses: angle between the library's direction and the carried of-date direction "
    "<= 2 arcsec, |norm - R| <= 1e-5 AU (text). 'Carried by the library's own precession' is "
    "taken as precession_ecliptical followed by the harness' rotation with "
    "mean_obliquity(target), or the harness' rotation with mean_obliquity(date) followed by "
    "precession_equatorial; the smaller of the two residuals counts (they differ by < 0.5 "
    "arcsec over 1000-3000)",
    "Earth.geometric_heliocentric_position_j2000 is compared for both tofk5 values against "
    "the of-date position with the same tofk5 value",
    "mean-equinox-of-date rectangular coordinates: no precession is involved; the text's 2 "
    "arcsec / 1e-5 AU are used all the same (nothing tighter is stated)",
    "obliquity: IAU 1976 cubic, 3 arcsec, |T| <= 20 centuries; nutation: -17.20 sin(Omega), "
    "+9.20 cos(Omega) arcsec with Omega = Moon.longitude_mean_ascending_node, 3.5 / 1.5 "
    "arcsec; true obliquity = mean + nutation in obliquity to 1e-10 deg (rounding bound)",
    "every date form must give the value of the Epoch form of the same date to 1e-12 deg; "
    "the Julian Day of (y, m, d) comes from the harness' integer calendar; 5-14 Oct 1582 are "
    "not generated; datetime objects are generated at 0h only (check_input_date takes year, "
    "month, day from them; what happens to a time of day is not asserted); utc=/leap_seconds= "
    "are not exercised (C10)",
    "coarse Sun: true longitude vs Sun.geometric_geocentric_position, apparent longitude vs "
    "Sun.apparent_geocentric_position, apparent RA/Dec vs the apparent VSOP87 position "
    "rotated by true_obliquity (harness rotation), each coordinate difference <= 0.02 deg, "
    "1800-2200",
    "known-finding signatures accept a frame violation only if removing the exact effect of "
    "the listed defect(s) leaves a result inside the property's own tolerance (2 arcsec, "
    "1e-5 AU); anything else at the same site is a violation",
]

AS = 3600.0
TOL_REFLECT = 1e-9
TOL_R = 1e-12
TOL_FRAME_AS = 2.0
TOL_FRAME_AU = 1e-5
TOL_OBL_AS = 3.0
TOL_DPSI_AS = 3.5
TOL_DEPS_AS = 1.5
TOL_TRUE = 1e-10
TOL_FORM = 1e-12
TOL_COARSE = 0.02


B1950_YEAR = 2000.0 + (iau.B1950 - 2451545.0) / 365.25


def self_test():
    rot.self_test()
    iau.self_test()
    cal.self_test()


def jde_of(y):
    return 2451545.0 + (y - 2000.0) * 365.25


def _warm(e):
    for f in (lambda: Sun.geometric_geocentric_position(e, True), lambda: Sun.geometric_geocentric_position(e, False),
              lambda: Sun.apparent_geocentric_position(e, True), lambda: Sun.apparent_geocentric_position(e, False),
              lambda: Earth.geometric_heliocentric_position(e, True), lambda: Earth.geometric_heliocentric_position(e, False),
              lambda: Earth.apparent_heliocentric_position(e, True), lambda: Sun.rectangular_coordinates_mean_equinox(e),
              lambda: Sun.true_longitude_coarse(e)):
        try:
            f()
        except Exception:
            pass


def ep(y):
    """The Epoch of year y.  In one case out of four it is a *recycled* object: it has already been
    passed, holding another date, to the Sun/Earth position functions and was then moved to the
    wanted date with set() - the way a caller stepping through an ephemeris re-uses one Epoch."""
    j = jde_of(y)
    if int(abs(y) * 1009.0) % 4 == 0:
        e = Epoch(j - 4321.75 if j > 1.0e6 else j + 4321.75)
        _warm(e)
        e.set(j)
        return e
    return Epoch(j)


def _angles(t, n, site):
    if not (isinstance(t, tuple) and len(t) == n):
        raise Violation("%s returned %r" % (site, t), site=site, kind="type")
    return t


def lbr(t, site):
    _angles(t, 3, site)
    lon, lat, r = t
    if not (isinstance(lon, Angle) and isinstance(lat, Angle) and isinstance(r, float)):
        raise Violation("%s returned %r" % (site, t), site=site, kind="type")
    out = (lon(), lat(), r)
    if not all(math.isfinite(x) for x in out):
        raise Violation("%s returned non-finite %r" % (site, out), site=site, kind="non_finite")
    return out


def xyz(t, site):
    _angles(t, 3, site)
    if not all(isinstance(x, float) and math.isfinite(x) for x in t):
        raise Violation("%s returned %r" % (site, t), site=site, kind="type")
    return tuple(t)


def epoch_unchanged(e, jde, site):
    if e.jde() != jde:
        raise Violation("%s changed its caller's Epoch from %r to %r" % (site, jde, e.jde()),
                        site=site, kind="argument_mutated")


def year_labels(y, labels):
    nt = False
    if abs(y - 2000.0) > 50.0:
        labels.append("|year-2000|>50")
        nt = True
    else:
        labels.append("|year-2000|<=50")
    if abs(y - 2000.0) > 500.0:
        labels.append("|year-2000|>500")
    if y < 0:
        labels.append("year<0")
    return nt


def season_label(sun_lon, labels):
    q = int((sun_lon % 360.0) // 90.0)
    labels.append("season_" + ["spring", "summer", "autumn", "winter"][q])


# ------------------------------------------------------------------ reflection

def body_reflect_geo(case):
    y, fk5 = case["y"], case["tofk5"]
    e = ep(y)
    j0 = e.jde()
    le, be, re_ = lbr(Earth.geometric_heliocentric_position(e, fk5),
                      "Earth.geometric_heliocentric_position")
    site = "Sun.geometric_geocentric_position"
    ls, bs, rs = lbr(Sun.geometric_geocentric_position(e, fk5), site)
    _check_reflection(site, "tofk5=%r" % fk5, y, (le, be, re_), (ls, bs, rs))
    epoch_unchanged(e, j0, site)
    labels = ["tofk5" if fk5 else "no_fk5"]
    nt = year_labels(y, labels)
    season_label(ls, labels)
    return {"labels": labels, "nontrivial": nt, "show": {"sun": [ls, bs, rs], "earth": [le, be, re_]}}


def body_reflect_app(case):
    y, nut = case["y"], case["nutation"]
    e = ep(y)
    j0 = e.jde()
    le, be, re_ = lbr(Earth.apparent_heliocentric_position(e, nut),
                      "Earth.apparent_heliocentric_position")
    site = "Sun.apparent_geocentric_position"
    ls, bs, rs = lbr(Sun.apparent_geocentric_position(e, nut), site)
    _check_reflection(site, "nutation=%r" % nut, y, (le, be, re_), (ls, bs, rs))
    epoch_unchanged(e, j0, site)
    labels = ["apparent", "nutation" if nut else "no_nutation"]
    nt = year_labels(y, labels)
    season_label(ls, labels)
    return {"labels": labels, "nontrivial": nt, "show": {"sun": [ls, bs, rs], "earth": [le, be, re_]}}


def _check_reflection(site, opt, y, earth, sun):
    le, be, re_ = earth
    ls, bs, rs = sun
    dl = rot.wrap180(ls - le - 180.0)
    if not abs(dl) <= TOL_REFLECT:
        raise Violation("%s(year %r, %s): Sun longitude %r is not Earth longitude %r + 180 (off by %.3e deg)"
                        % (site, y, opt, ls, le, dl), site=site, kind="reflection_longitude", off=dl)
    if not abs(bs + be) <= TOL_REFLECT:
        raise Violation("%s(year %r, %s): Sun latitude %r is not minus Earth latitude %r"
                        % (site, y, opt, bs, be), site=site, kind="reflection_latitude", off=bs + be)
    if not abs(rs - re_) <= TOL_R:
        raise Violation("%s(year %r, %s): Sun distance %r differs from Earth radius vector %r"
                        % (site, y, opt, rs, re_), site=site, kind="reflection_distance", off=rs - re_)


# ------------------------------------------------------------------ frames

ROUTE_GAP_AS = 1.2


def carried(e_from, e_to, lon, lat):
    """The of-date ecliptic direction (lon, lat) carried to the equinox of e_to by the
    library's precession, as equatorial unit vectors of e_to, by both routes."""
    eps_from = C.mean_obliquity(e_from)()
    eps_to = C.mean_obliquity(e_to)()
    l1, b1 = C.precession_ecliptical(e_from, e_to, Angle(lon), Angle(lat))
    a_vec = rot.ecl2equ(rot.vec(l1(), b1()), eps_to)
    ra, dec = rot.lonlat(rot.ecl2equ(rot.vec(lon, lat), eps_from))
    a1, d1 = C.precession_equatorial(e_from, e_to, Angle(ra), Angle(dec))
    b_vec = rot.vec(a1(), d1())
    # the two routes of "the library's own precession" name the same direction (they differ by
    # less than 0.5 arcsec over 1000..3000 on a sound tree); the smaller residual counts below only
    # as long as they do
    gap = rot.sep(a_vec, b_vec) * AS
    if gap > ROUTE_GAP_AS:
        raise Violation("the library's precession carries the ecliptic direction (%r, %r) from JDE %r "
                        "to JDE %r to directions %.2f arcsec apart by its ecliptical and its equatorial "
                        "routine (limit %.1f)" % (lon, lat, e_from.jde(), e_to.jde(), gap, ROUTE_GAP_AS),
                        site="Coordinates.precession_ecliptical/precession_equatorial",
                        kind="precession_routes_disagree", gap_as=gap)
    return (a_vec, b_vec), eps_to


def resid_as(v, refs):
    return min(rot.sep(v, r) for r in refs) * AS


def rotz(v, ang_deg):
    a = math.radians(ang_deg)
    c, s = math.cos(a), math.sin(a)
    return (c * v[0] - s * v[1], s * v[0] + c * v[1], v[2])


def passes(dir_as, norm_err):
    return dir_as <= TOL_FRAME_AS and norm_err <= TOL_FRAME_AU


# ---- what the library returned with the named defect(s) removed.  Each function gets the
# library's output and returns {name: vector in the clause's frame}.

def remove_frame_j2000(out, jde):
    lon, lat, r = out
    v = rot.vec(lon - iau.mistyped_l0_effect_deg(jde), lat)
    return {"typo": tuple(r * c for c in v)}


def remove_rect_j2000(X, jde):
    v = iau.mat_vec(iau.transpose(iau.M_J2000), X)            # ecliptic J2000
    v = rotz(v, -iau.mistyped_l0_effect_deg(jde))
    return {"typo": iau.mat_vec(iau.M_J2000, v)}


def remove_rect_b1950(X, jde):
    d = -iau.mistyped_l0_effect_deg(jde)
    v_seq = iau.undo_sequential_overwrite(iau.M_B1950, X)      # what went into the 3 lines
    v_ok = iau.mat_vec(iau.transpose(iau.M_B1950), X)          # if the matrix had been applied properly
    return {"typo": iau.mat_vec(iau.M_B1950, rotz(v_ok, d)),
            "overwrite": iau.mat_vec(iau.M_B1950, v_seq),
            "overwrite+typo": iau.mat_vec(iau.M_B1950, rotz(v_seq, d))}


def remove_rect_equinox(X, jde, jde_eq):
    d = -iau.mistyped_l0_effect_deg(jde)
    t = (jde_eq - iau.J2000) / 36525.0
    t_wrong = (jde - jde_eq) / 36525.0          # what the library puts where T = 0 belongs
    m_bug = iau.precession_matrix(t_wrong, t)
    m_ok = iau.precession_matrix(0.0, t)

    def untypo(x0):
        v = iau.mat_vec(iau.transpose(iau.M_J2000), x0)
        return iau.mat_vec(iau.M_J2000, rotz(v, d))
    x0_bug = iau.mat_vec(iau.transpose(m_bug), X)              # the J2000 vector that went in
    x0_ok = iau.mat_vec(iau.transpose(m_ok), X)
    return {"typo": iau.mat_vec(m_ok, untypo(x0_ok)),
            "T": iau.mat_vec(m_ok, x0_bug),
            "T+typo": iau.mat_vec(m_ok, untypo(x0_bug))}


_EXPLAIN = {}          # (clause, case-json) -> {name: (dir_as, norm_err)}  (last few cases)


def _key(clause, case):
    return clause + "|" + json.dumps(case, sort_keys=True)


def frame_eval(clause, case):
    """Run the library for one frame case.  Returns (site, what, X, r_ref, refs, dir_as,
    norm_err, explain) where explain maps defect-set -> (dir_as, norm_err) after removal."""
    y = case["y"]
    e = ep(y)
    j0 = e.jde()
    if clause == "frame_j2000":
        fk5 = case["tofk5"]
        site = "Earth.geometric_heliocentric_position_j2000"
        lon, lat, r_ref = lbr(Earth.geometric_heliocentric_position(e, fk5),
                              "Earth.geometric_heliocentric_position")
        target = Epoch(iau.J2000)
        out = lbr(Earth.geometric_heliocentric_position_j2000(e, fk5), site)
        refs_eq, eps_to = carried(e, target, lon, lat)
        refs = (rot.equ2ecl(refs_eq[0], eps_to), rot.equ2ecl(refs_eq[1], eps_to))
        X = tuple(out[2] * c for c in rot.vec(out[0], out[1]))
        removed = remove_frame_j2000(out, j0)
        what = "%s(year %r, tofk5=%r) = (%r, %r, %r)" % (site, y, fk5, out[0], out[1], out[2])
    else:
        lon, lat, r_ref = lbr(Sun.geometric_geocentric_position(e), "Sun.geometric_geocentric_position")
        if clause == "rect_mean":
            site = "Sun.rectangular_coordinates_mean_equinox"
            X = xyz(Sun.rectangular_coordinates_mean_equinox(e), site)
            refs = (rot.ecl2equ(rot.vec(lon, lat), C.mean_obliquity(e)()),)
            removed = {}
            what = "%s(year %r) = %r" % (site, y, X)
        elif clause == "rect_j2000":
            site = "Sun.rectangular_coordinates_j2000"
            X = xyz(Sun.rectangular_coordinates_j2000(e), site)
            refs, _ = carried(e, Epoch(iau.J2000), lon, lat)
            removed = remove_rect_j2000(X, j0)
            what = "%s(year %r) = %r" % (site, y, X)
        elif clause == "rect_b1950":
            site = "Sun.rectangular_coordinates_b1950"
            X = xyz(Sun.rectangular_coordinates_b1950(e), site)
            refs, _ = carried(e, Epoch(iau.B1950), lon, lat)
            removed = remove_rect_b1950(X, j0)
            what = "%s(year %r) = %r" % (site, y, X)
        elif clause == "rect_equinox":
            site = "Sun.rectangular_coordinates_equinox"
            eq = ep(case["yq"])
            jq = eq.jde()
            X = xyz(Sun.rectangular_coordinates_equinox(e, eq), site)
            epoch_unchanged(eq, jq, site)
            refs, _ = carried(e, eq, lon, lat)
            removed = remove_rect_equinox(X, j0, jq)
            what = "%s(year %r, equinox of year %r) = %r" % (site, y, case["yq"], X)
        else:
            raise AssertionError(clause)
    epoch_unchanged(e, j0, site)
    n = rot.norm(X)
    dir_as = resid_as(X, refs) if n > 0 else float("inf")
    norm_err = abs(n - r_ref)
    explain = {}
    for name, v in removed.items():
        nv = rot.norm(v)
        explain[name] = (resid_as(v, refs) if nv > 0 else float("inf"), abs(nv - r_ref))
    return site, what, X, (lon, lat, r_ref), dir_as, norm_err, explain


_FAILED_LABELS = {}     # clause -> Counter of labels of cases that raised (evidence only)


def frame_labels(clause, case, sun_lon):
    y = case["y"]
    labels = []
    nt = year_labels(y, labels)
    season_label(sun_lon, labels)
    if clause == "rect_equinox":
        yq = case["yq"]
        if yq != 2000.0:
            labels.append("equinox_not_J2000")
            nt = True
        if yq == y:
            labels.append("equinox_of_date")
        if abs(yq - 2000.0) > 100.0:
            labels.append("equinox_beyond_1_century")
    elif clause in ("rect_b1950", "rect_mean"):
        labels.append("equinox_not_J2000")
        nt = True
    if clause == "frame_j2000":
        labels.append("tofk5" if case["tofk5"] else "no_fk5")
    return labels, nt


def make_frame(clause):
    def body(case):
        site, what, X, ofdate, dir_as, norm_err, explain = frame_eval(clause, case)
        labels, nt = frame_labels(clause, case,
                                  ofdate[0] if clause != "frame_j2000" else ofdate[0] + 180.0)
        if not passes(dir_as, norm_err):
            if len(_EXPLAIN) > 64:
                _EXPLAIN.clear()
            _EXPLAIN[_key(clause, case)] = explain
            _FAILED_LABELS.setdefault(clause, Counter()).update(labels)
            ex = "; ".join("without '%s': %.3f arcsec, %.2e AU" % (k, v[0], v[1])
                           for k, v in sorted(explain.items()))
            raise Violation("%s is %.3f arcsec and %.3e AU (norm - R) from the of-date position "
                            "(lon %r, lat %r, R %r) carried there by the library's precession [%s]"
                            % (what, dir_as, norm_err, ofdate[0], ofdate[1], ofdate[2], ex),
                            site=site, kind="frame", dir_arcsec=dir_as, norm_err=norm_err,
                            explain={k: list(v) for k, v in explain.items()})
        return {"labels": labels, "nontrivial": nt,
                "show": {"xyz": list(X), "off_arcsec": dir_as, "norm_minus_R": norm_err}}
    return body


FRAME_CLAUSES = ("frame_j2000", "rect_j2000", "rect_b1950", "rect_equinox")


def _explanation(clause, case, v):
    if clause not in FRAME_CLAUSES or v.kind != "frame":
        return None
    ex = _EXPLAIN.get(_key(clause, case))
    if ex is None:
        ex = frame_eval(clause, case)[6]
    return ex


def _ok(ex, name):
    return name in ex and passes(ex[name][0], ex[name][1])


def sig_typo(clause, case, v):
    """The whole deviation is the longitude shift produced by 12556.1517 in place of
    12566.1517 in the third L0 term of VSOP87_L_J2000."""
    ex = _explanation(clause, case, v)
    return ex is not None and _ok(ex, "typo")


def sig_b1950(clause, case, v):
    """The output is the B1950 matrix applied line after line to already-overwritten
    components (with or without the L0 typo underneath)."""
    if clause != "rect_b1950":
        return False
    ex = _explanation(clause, case, v)
    return ex is not None and not _ok(ex, "typo") and (_ok(ex, "overwrite") or _ok(ex, "overwrite+typo"))


def sig_equinox(clause, case, v):
    """The output is the J2000 vector turned by the precession matrix whose starting-epoch
    parameter T is (epoch - equinox) instead of 0 (with or without the L0 typo underneath)."""
    if clause != "rect_equinox":
        return False
    ex = _explanation(clause, case, v)
    return ex is not None and not _ok(ex, "typo") and (_ok(ex, "T") or _ok(ex, "T+typo"))


KNOWN_SIGNATURES = {
    "KF-C08-earth-lj2000-mistyped-frequency": sig_typo,
    "KF-C08-sun-b1950-sequential-overwrite": sig_b1950,
    "KF-C08-sun-equinox-wrong-starting-epoch": sig_equinox,
}


# ------------------------------------------------------------------ obliquity / nutation

def date_args(case):
    """(args for the library call, harness JDE) for the case's date in the case's form."""
    y, m, d = case["ymd"]
    dd = int(math.floor(d))
    jde = cal.jdn(y, m, dd) - 0.5 + (d - dd)
    form = case["form"]
    if form == "epoch":
        args = (Epoch(jde),)
    elif form == "epoch_reused":
        # an Epoch object that already served another date in all four functions and was
        # then moved with set(): still "an Epoch", and must give what a fresh one gives
        e = Epoch(jde + 3000.25 if jde < 2.9e6 else jde - 3000.25)
        for fn in (C.mean_obliquity, C.nutation_longitude, C.nutation_obliquity, C.true_obliquity):
            fn(e)
        e.set(jde)
        args = (e,)
        jde = e.jde()
    elif form == "args":
        args = (y, m, d)
    elif form == "tuple":
        args = ((y, m, d),)
    elif form == "list":
        args = ([y, m, d],)
    elif form == "datetime_time":
        # a time of day: check_input_date keeps the calendar date only; nothing is asserted about
        # that here, only that the three functions treat the same argument alike (the sum)
        args = (datetime.datetime(y, m, dd, 23, 30, 17),)
    elif form == "args6":
        args = (y, m, dd, 23, 30, 17.0)
    elif form == "tuple6":
        args = ((y, m, dd, 23, 30, 17.0),)
    elif form == "date":
        args = (datetime.date(y, m, dd),)
    elif form == "datetime":
        args = (datetime.datetime(y, m, dd),)
    else:
        raise AssertionError(form)
    return args, jde


def angle_value(a, site):
    if not isinstance(a, Angle) or not math.isfinite(a()):
        raise Violation("%s returned %r" % (site, a), site=site, kind="type")
    return a()


def same_as_epoch_form(fn, site, args, jde, val, case):
    if case["form"] in ("epoch", "datetime_time", "args6", "tuple6"):
        return
    ref = angle_value(fn(Epoch(jde)), site)
    if not abs(val - ref) <= TOL_FORM:
        raise Violation("%s%r = %r deg but %s(Epoch(%r)) = %r deg: the %s form of the same date gives "
                        "another value" % (site, args, val, site, jde, ref, case["form"]),
                        site=site, kind="date_form", off=val - ref)


def form_labels(case, jde, labels):
    y = 2000.0 + (jde - 2451545.0) / 365.25
    nt = year_labels(y, labels)
    labels.append("form_" + case["form"])
    if case["form"] != "epoch":
        nt = True
    if case["ymd"][2] != int(case["ymd"][2]):
        labels.append("fractional_day")
    if cal.is_julian_date(case["ymd"][0], case["ymd"][1], int(case["ymd"][2])):
        labels.append("julian_calendar_date")
    return nt


def body_obliquity(case):
    site = "Coordinates.mean_obliquity"
    args, jde = date_args(case)
    val = angle_value(C.mean_obliquity(*args), site)
    T = (jde - iau.J2000) / 36525.0
    ref = iau.mean_obliquity_iau1976(T)
    off = (val - ref) * AS
    if not abs(off) <= TOL_OBL_AS:
        raise Violation("%s%r = %r deg; IAU 1976 cubic at T = %r gives %r deg: %.3f arcsec apart"
                        % (site, args, val, T, ref, off), site=site, kind="obliquity", off=off)
    same_as_epoch_form(C.mean_obliquity, site, args, jde, val, case)
    labels = []
    nt = form_labels(case, jde, labels)
    if abs(T) > 10:
        labels.append("|T|>10cy")
    return {"labels": labels, "nontrivial": nt, "show": {"eps0_deg": val, "minus_IAU_arcsec": off}}


def body_nutation(case):
    args, jde = date_args(case)
    e = Epoch(jde)
    om = math.radians(Moon.longitude_mean_ascending_node(e)())
    site = "Coordinates.nutation_longitude"
    dpsi = angle_value(C.nutation_longitude(*args), site)
    ref = iau.NUT_PSI_MAIN * math.sin(om)
    if not abs(dpsi * AS - ref) <= TOL_DPSI_AS:
        raise Violation("%s%r = %.4f arcsec; main term -17.20 sin(Omega) = %.4f arcsec (Omega %r deg): "
                        "%.3f apart" % (site, args, dpsi * AS, ref, math.degrees(om), dpsi * AS - ref),
                        site=site, kind="nutation_longitude", off=dpsi * AS - ref)
    same_as_epoch_form(C.nutation_longitude, site, args, jde, dpsi, case)
    site = "Coordinates.nutation_obliquity"
    deps = angle_value(C.nutation_obliquity(*args), site)
    ref2 = iau.NUT_EPS_MAIN * math.cos(om)
    if not abs(deps * AS - ref2) <= TOL_DEPS_AS:
        raise Violation("%s%r = %.4f arcsec; main term +9.20 cos(Omega) = %.4f arcsec (Omega %r deg): "
                        "%.3f apart" % (site, args, deps * AS, ref2, math.degrees(om), deps * AS - ref2),
                        site=site, kind="nutation_obliquity", off=deps * AS - ref2)
    same_as_epoch_form(C.nutation_obliquity, site, args, jde, deps, case)
    site = "Coordinates.true_obliquity"
    tru = angle_value(C.true_obliquity(*args), site)
    eps0 = angle_value(C.mean_obliquity(*args), "Coordinates.mean_obliquity")
    if not abs(tru - (eps0 + deps)) <= TOL_TRUE:
        raise Violation("%s%r = %r deg is not mean_obliquity %r + nutation_obliquity %r (off by %.3e deg)"
                        % (site, args, tru, eps0, deps, tru - eps0 - deps), site=site,
                        kind="true_obliquity", off=tru - eps0 - deps)
    same_as_epoch_form(C.true_obliquity, site, args, jde, tru, case)
    labels = []
    nt = form_labels(case, jde, labels)
    labels.append("node_quadrant_%d" % int((math.degrees(om) % 360.0) // 90.0))
    return {"labels": labels, "nontrivial": nt,
            "show": {"dpsi_arcsec": dpsi * AS, "deps_arcsec": deps * AS, "true_obliquity_deg": tru}}


# ------------------------------------------------------------------ coarse Sun

def body_coarse(case):
    y = case["y"]
    e = ep(y)
    j0 = e.jde()
    which = case["which"]
    labels = ["coarse_" + which]
    if which == "true_longitude":
        site = "Sun.true_longitude_coarse"
        out = _angles(Sun.true_longitude_coarse(e), 2, site)
        lon = angle_value(out[0], site)
        ls, bs, rs = lbr(Sun.geometric_geocentric_position(e), "Sun.geometric_geocentric_position")
        diffs = {"longitude": rot.wrap180(lon - ls)}
        ref = ls
    elif which == "apparent_longitude":
        site = "Sun.apparent_longitude_coarse"
        out = _angles(Sun.apparent_longitude_coarse(e), 2, site)
        lon = angle_value(out[0], site)
        ls, bs, rs = lbr(Sun.apparent_geocentric_position(e), "Sun.apparent_geocentric_position")
        diffs = {"longitude": rot.wrap180(lon - ls)}
        ref = ls
    else:
        site = "Sun.apparent_rightascension_declination_coarse"
        out = _angles(Sun.apparent_rightascension_declination_coarse(e), 3, site)
        ra, dec = angle_value(out[0], site), angle_value(out[1], site)
        ls, bs, rs = lbr(Sun.apparent_geocentric_position(e), "Sun.apparent_geocentric_position")
        eps = angle_value(C.true_obliquity(e), "Coordinates.true_obliquity")
        a, d = rot.lonlat(rot.ecl2equ(rot.vec(ls, bs), eps))
        diffs = {"right_ascension": rot.wrap180(ra - a), "declination": dec - d}
        ref = ls
    for name, dv in sorted(diffs.items()):
        if not abs(dv) <= TOL_COARSE:
            raise Violation("%s(year %r): %s differs from the VSOP87 value by %.5f deg (limit 0.02)"
                            % (site, y, name, dv), site=site, kind="coarse:" + name, off=dv)
    epoch_unchanged(e, j0, site)
    nt = year_labels(y, labels)
    season_label(ref, labels)
    return {"labels": labels, "nontrivial": nt, "show": {"differences_deg": diffs}}


CLAUSES = {
    "reflect_geo": body_reflect_geo, "reflect_app": body_reflect_app,
    "frame_j2000": make_frame("frame_j2000"), "rect_mean": make_frame("rect_mean"),
    "rect_j2000": make_frame("rect_j2000"), "rect_b1950": make_frame("rect_b1950"),
    "rect_equinox": make_frame("rect_equinox"),
    "obliquity": body_obliquity, "nutation": body_nutation, "coarse": body_coarse,
}


# ------------------------------------------------------------------ strategies

def years(lo, hi):
    """integer year + uniform fraction (all seasons); era ends and J2000 +-50 over-weighted."""
    ilo, ihi = int(math.ceil(lo)), int(math.floor(hi)) - 1
    yr = st.one_of(st.integers(ilo, ihi), st.integers(ilo, ihi),
                   st.integers(ilo, min(ihi, ilo + 50)), st.integers(max(ilo, ihi - 50), ihi),
                   st.integers(max(ilo, 1950), min(ihi, 2050)),
                   st.sampled_from([y for y in (1900, 1950, 1992, 1999, 2000, 2001, 2100) if ilo <= y <= ihi]
                                   or [ilo]))
    frac = st.one_of(st.floats(0, 1, exclude_max=True), st.sampled_from([0.0, 0.25, 0.5, 0.75]))
    return st.builds(lambda a, f: min(hi, max(lo, float(a) + f)), yr, frac)


def reflect_geo_cases():
    return st.builds(lambda y, k: {"y": y, "tofk5": k}, years(-2000, 4000), st.booleans())


def reflect_app_cases():
    return st.builds(lambda y, k: {"y": y, "nutation": k}, years(-2000, 4000), st.booleans())


def frame_j2000_cases():
    return st.builds(lambda y, k: {"y": y, "tofk5": k}, years(1000, 3000), st.booleans())


def rect_cases():
    return st.builds(lambda y: {"y": y}, years(1000, 3000))


def rect_equinox_cases():
    def build(y, yq, pick):
        if pick == "date":
            yq = y if abs(y - 2000.0) <= 300.0 else yq
        elif pick == "J2000":
            yq = 2000.0
        elif pick == "B1950":
            yq = B1950_YEAR
        return {"y": y, "yq": yq}
    return st.builds(build, years(1000, 3000), years(1700, 2300),
                     st.sampled_from(["any", "any", "any", "any", "date", "J2000", "B1950"]))


def ymd(ylo, yhi, for_datetime):
    def build(y, m, d, f):
        if for_datetime:
            d = min(d, 28)
            f = 0.0
        else:
            d = min(d, cal.month_len(y, m))
        if y == 1582 and m == 10 and 5 <= d <= 14:
            d = 15
        if not f:
            return [y, m, d]
        v = d + f
        if v >= d + 1:                       # 31 + 0.99999999999999994 rounds to 32.0
            v = math.nextafter(float(d + 1), 0.0)
        return [y, m, v]
    # the ends of the era are over-weighted: secular (T^2, T^3) slips are largest there
    yr = st.one_of(st.integers(ylo, yhi), st.integers(max(ylo, 1900), min(yhi, 2100)),
                   st.integers(ylo, min(yhi, ylo + 120)), st.integers(max(ylo, yhi - 120), yhi),
                   st.sampled_from([ylo, yhi, max(ylo, 1582), min(yhi, 2000)]))
    frac = st.one_of(st.just(0.0), st.floats(0, 1, exclude_max=True), st.sampled_from([0.5, 0.25]))
    return st.builds(build, yr, st.integers(1, 12), st.integers(1, 31), frac)


def date_cases(ylo, yhi):
    plain = st.builds(lambda d, f: {"ymd": d, "form": f}, ymd(ylo, yhi, False),
                      st.sampled_from(["epoch", "epoch_reused", "args", "tuple", "list"]))
    dt = st.one_of(st.builds(lambda d, f: {"ymd": d, "form": f}, ymd(max(ylo, 1), min(yhi, 9999), True),
                             st.sampled_from(["date", "datetime", "datetime_time"])),
                   st.builds(lambda d, f: {"ymd": d, "form": f}, ymd(ylo, yhi, True),
                             st.sampled_from(["args6", "tuple6"])))
    return st.one_of(plain, plain, dt)


def coarse_cases():
    return st.builds(lambda y, w: {"y": y, "which": w}, years(1800, 2200),
                     st.sampled_from(["true_longitude", "apparent_longitude", "ra_dec"]))


STRATS = {
    "reflect_geo": reflect_geo_cases, "reflect_app": reflect_app_cases,
    "frame_j2000": frame_j2000_cases, "rect_mean": rect_cases, "rect_j2000": rect_cases,
    "rect_b1950": rect_cases, "rect_equinox": rect_equinox_cases,
    "obliquity": lambda: date_cases(0, 3999), "nutation": lambda: date_cases(-2000, 3999),
    "coarse": coarse_cases,
}

# clause -> (shards in the quick tier, cases per shard)
PLAN = {
    "reflect_geo": (2, 2500), "reflect_app": (2, 2500),
    "frame_j2000": (2, 2500), "rect_mean": (1, 2500), "rect_j2000": (2, 2500),
    "rect_b1950": (2, 2500), "rect_equinox": (4, 2000),
    "obliquity": (2, 5000), "nutation": (4, 3500), "coarse": (2, 2500),
}


def tasks(tier, seed):
    out = []
    for clause, (shards, n) in PLAN.items():
        if tier == "quick":
            for sh in range(shards):
                out.append(Task("t_given", clause=clause, shard=sh, n=n))
        else:
            for sh in range(shards * 4):
                out.append(Task("t_given", clause=clause, shard=sh, n=n * 5))
    return out


def era_end_dates():
    """Dates in the first and the last 150 years of -2000..4000 only (every form): secular slips in
    the nutation arguments are largest there and exceed the stated bounds on a fraction of a per
    cent of the dates only."""
    def build(c, lo_end, k):
        y = (-2000 + k) if lo_end else (3999 - k)
        c = dict(c)
        c["ymd"] = [y] + list(c["ymd"][1:])
        if c["form"] in ("date", "datetime", "datetime_time") and y < 1:
            c["form"] = "epoch"
        if c["ymd"][1] == 2 and int(c["ymd"][2]) > 28:
            c["ymd"][2] = 28
        return c
    return st.builds(build, date_cases(-2000, 3999), st.booleans(), st.integers(0, 150))


def t_given(rec, clause, shard, n):
    _FAILED_LABELS.pop(clause, None)
    rec.given(clause, STRATS[clause](), n, shard=shard)
    if clause == "nutation":
        rec.given(clause, era_end_dates(), n, shard="ends%s" % shard)
    # cases excluded as known findings never reach the label histogram through the core;
    # show what they covered under a prefix of their own (all but a shrink sequence of a
    # genuine violation, if any, are known-finding exclusions)
    if rec.excluded_known:
        for k, c in sorted(_FAILED_LABELS.get(clause, {}).items()):
            rec.labels["excluded_known(%s):%s" % (clause, k)] += c
