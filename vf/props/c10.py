"""C10 - the UTC <-> TT offset follows the IERS leap-second history and inverts.

Exhaustive enumeration against the literal IERS list (vf/oracles/leap.py) and the
integer calendar (vf/oracles/calendar.py).  One *case* is one (year, month) cell of
1950..2100 (clauses offset, readback, override), or one year (clauses table, deltat).
"""
import math
from fractions import Fraction as F

from pymeeus.Epoch import Epoch, JDE2000

from ..core import Violation, Task
from ..oracles import calendar as cal
from ..oracles import leap

PROPERTY = "C10"
LEVEL = "exploration"
EXHAUSTIVE = {"quick": True, "thorough": True}
MANIFEST = {
    "level_text": "Exhaustive enumeration of the stated finite domain and more: every civil day of 1950..2100 at eight times of day (offset and UTC read-back), every leap_seconds override 0, 0.5, ..., 60 in every month of 1950..2100, the leap-second table for every (year, month) of 1950..2100 and Delta-T for every (year, month) of -2000..3000, against the literal IERS list. For this finite domain the property is decided completely for the tree it ran on.",
    "level_note": "Trusts the 27 literal IERS dates (self-tested against published TAI-UTC values) and the integer calendar oracle. Tolerances 1 ms as stated; the float JDE resolves 0.04 ms.",
    "technique": "exhaustive generated-input enumeration vs literal IERS leap-second list (differential oracle)",
}
RULE = ("Enumeration, no sampling: offset and readback clauses take every civil day of every "
        "month of 1950..2100 at 00:00:00, 12:00:00, 23:59:59, 06:30:15.5, 00:00:01, 00:01:09, "
        "23:58:51 and 23:59:00.25 (a superset of the days 1, 15, last x 0h, 12h, 23:59:59 grid; "
        "the extra times put the TT instant on the other side of midnight), built with utc=True through the "
        "constructor, a tuple, set() and a fractional day in rotation; the override clause takes "
        "every leap_seconds value 0, 0.5, 1, ..., 60 in every month of 1950..2100 on a rotating "
        "day and time; the table clause every (year, month) of 1950..2100; the deltat clause every "
        "(year, month) of -2000..3000. A case counts as non-trivial when the month is Jan, "
        "Feb, Jun, Jul or Dec, or the year is 1971, 1972, 2016 or 2017, or an override is given "
        "(the places where the table lookup can go wrong); distinct by (y, m, d, time, override) "
        "by construction of the enumeration.")
ASSUMPTIONS = [
    "oracle: the 27 IERS Bulletin C dates as literals; TT-UTC = 32.184 + 10 + count for civil "
    "dates from 1972-01-01, nothing before",
    "offset tolerance 1e-3 s (the difference of two float JDEs near 2.45e6 resolves 4e-5 s); "
    "read-back compared as an instant (integer calendar + exact fraction) with the original "
    "civil instant, 1 ms as stated, so 00:00:00 read back as 23:59:59.99998 of the day before "
    "is accepted",
    "leap_seconds=0 is documented as 'conversion disabled' (check_input_date, get_date): the "
    "offset is not asserted for it, only the round trip; for dates before 1972 an override's "
    "offset is not asserted either (the text says nothing), only the round trip",
    "Delta-T segment joints are the documented ones of the cited NASA polynomial set: 500, "
    "1600, 1700, 1800, 1860, 1900, 1920, 1941, 1961, 1986, 2005, 2050, 2150 (the joint at "
    "-500 itself is outside 'after year -500')",
    "sensitivity (development time, tree with fixes_proposed/C10-*.diff applied): 17 of 17 "
    "mutants of mutants/C10.json reported as VIOLATION by the quick tier",
    "Epoch.utc2local and the local= keyword are excluded (clock dependent)",
]

Y0, Y1 = 1950, 2100
TIMES = [(0, 0, 0), (12, 0, 0), (23, 59, 59), (6, 30, 15.5),
         (0, 0, 1), (0, 1, 9), (23, 58, 51), (23, 59, 0.25)]
TOL_S = 1e-3
MS = F(1, 86400 * 1000)
OVERRIDES = [k // 2 if k % 2 == 0 else k / 2.0 for k in range(0, 121)]   # 0, 0.5, 1, ... 60
JOINTS = [500, 1600, 1700, 1800, 1860, 1900, 1920, 1941, 1961, 1986, 2005, 2050, 2150]


def self_test():
    cal.self_test()
    leap.self_test()
    assert len(OVERRIDES) == 121 and OVERRIDES[0] == 0 and OVERRIDES[-1] == 60
    assert OVERRIDES[1] == 0.5 and isinstance(OVERRIDES[2], int)


def _nontrivial(y, m):
    return m in (1, 2, 6, 7, 12) or y in (1971, 1972, 2016, 2017)


def _month_labels(lab, y, m, c=1):
    if m in (1, 2):
        lab("jan_feb", c)
    if m in (6, 7):
        lab("jun_jul", c)
    if m == 12:
        lab("dec", c)
    if y < 1972:
        lab("before_1972", c)
    if y in (1971, 1972):
        lab("year_1971_1972", c)
    if y in (2016, 2017):
        lab("year_2016_2017", c)
    if y > 2017:
        lab("after_last_leap_second", c)


def _build(y, m, d, t, form, **kw):
    h, mi, s = t
    if form == 0:
        return Epoch(y, m, d, h, mi, s, **kw)
    if form == 1:
        return Epoch((y, m, d, h, mi, s), **kw)
    if form == 2:
        e = Epoch(2451545.0)
        e.set(y, m, d, h, mi, s, **kw)
        return e
    # fractional day (exact for 0h and 12h; otherwise rounded to 1e-15 d)
    return Epoch(y, m, d + (h * 3600 + mi * 60 + s) / 86400.0, **kw)


def _civil_instant(y, m, d, t):
    h, mi, s = t
    return cal.jdn(y, m, d) + F(h * 3600 + mi * 60, 86400) + F(s) / 86400


def _instant_of_date(tup, what, site):
    """(Y, M, D.frac) -> exact instant, after checking that it names a civil day."""
    Y, M, D = tup[0], tup[1], tup[2]
    if not (isinstance(Y, int) and isinstance(M, int)) or not (1 <= M <= 12) \
            or not (1 <= int(D) <= cal.month_len(Y, M)):
        raise Violation("%s = %r is not a civil date" % (what, tuple(tup)), site=site,
                        kind="not_a_date", got=list(tup))
    x = cal.jdn(Y, M, int(D)) + (F(D) - int(D))
    if len(tup) == 6:
        H, MI, S = tup[3], tup[4], tup[5]
        if not (0 <= H <= 23 and 0 <= MI <= 59 and 0 <= S < 60):
            raise Violation("%s = %r has a field out of range" % (what, tuple(tup)), site=site,
                            kind="field_range", got=list(tup))
        x = cal.jdn(Y, M, int(D)) + F(H * 3600 + MI * 60, 86400) + F(S) / 86400
    return x


# ------------------------------------------------------------------ offset

def body_offset(case):
    y, m = case["year"], case["month"]
    n = nt = 0
    labels = {}

    def lab(k, c=1):
        labels[k] = labels.get(k, 0) + c

    want = leap.tt_minus_utc(y, m) if y >= 1972 else 0.0
    L = cal.month_len(y, m)
    worst = 0.0
    for d in range(1, L + 1):
        for ti, t in enumerate(TIMES):
            form = (d + ti) % 4
            a = _build(y, m, d, t, form, utc=True)
            b = _build(y, m, d, t, form)
            off = (a.jde() - b.jde()) * 86400.0
            if not abs(off - want) <= TOL_S:
                raise Violation(
                    "Epoch(%d, %d, %d, %r, utc=True) is %.4f s later than the same date "
                    "without utc; IERS history says %.3f s" % (y, m, d, t, off, want),
                    site="Epoch._compute_jde", kind="utc_offset", date=[y, m, d],
                    time=list(t), got=round(off, 4), want=want, err=round(off - want, 4))
            worst = max(worst, abs(off - want))
            n += 1
            if d == L and t == (23, 59, 59) and leap.precedes_leap_second(y, m):
                lab("last_second_before_leap_second")
    _month_labels(lab, y, m, n)
    lab("form_ctor/tuple/set/fractional_day", n)
    if _nontrivial(y, m):
        nt = n
    return {"n": n, "nt": nt, "labels": labels,
            "show": {"offset_s": want, "worst_error_s": worst, "instants": n}}


# ------------------------------------------------------------------ read-back

def _check_readback(a, y, m, d, t, kw, what):
    want = _civil_instant(y, m, d, t)
    g = a.get_date(**kw)
    x = _instant_of_date(g, "%s.get_date(%r)" % (what, kw), "Epoch.get_date")
    err = x - want
    if abs(err) > MS:
        raise Violation("%s.get_date(%s) = %r, which is %.4f s away from the civil instant given"
                        % (what, ", ".join("%s=%r" % kv for kv in sorted(kw.items())), tuple(g),
                           float(err) * 86400),
                        site="Epoch.get_date", kind="utc_readback", date=[y, m, d],
                        time=list(t), got=list(g), err_s=round(float(err) * 86400, 4))
    g6 = a.get_full_date(**kw)
    x6 = _instant_of_date(g6, "%s.get_full_date(%r)" % (what, kw), "Epoch.get_full_date")
    err6 = x6 - want
    if abs(err6) > MS:
        raise Violation("%s.get_full_date(%r) = %r, which is %.4f s away from the civil instant "
                        "given" % (what, kw, tuple(g6), float(err6) * 86400),
                        site="Epoch.get_full_date", kind="utc_readback", date=[y, m, d],
                        time=list(t), got=list(g6), err_s=round(float(err6) * 86400, 4))
    return max(abs(float(err)), abs(float(err6))) * 86400


def body_readback(case):
    y, m = case["year"], case["month"]
    n = nt = 0
    labels = {}

    def lab(k, c=1):
        labels[k] = labels.get(k, 0) + c

    L = cal.month_len(y, m)
    worst = 0.0
    for d in range(1, L + 1):
        for ti, t in enumerate(TIMES):
            form = (d + ti + 1) % 4
            a = _build(y, m, d, t, form, utc=True)
            what = "Epoch(%d, %d, %d, %r, utc=True)" % (y, m, d, t)
            worst = max(worst, _check_readback(a, y, m, d, t, {"utc": True}, what))
            n += 1
            if d == L and t == (23, 59, 59) and leap.precedes_leap_second(y, m):
                lab("last_second_before_leap_second")
            if d == 1 and t == (0, 0, 0):
                lab("first_instant_of_month")
    _month_labels(lab, y, m, n)
    if _nontrivial(y, m):
        nt = n
    return {"n": n, "nt": nt, "labels": labels,
            "show": {"worst_error_s": worst, "instants": n}}


# ------------------------------------------------------------------ override

def body_override(case):
    y, m = case["year"], case["month"]
    n = 0
    labels = {}

    def lab(k, c=1):
        labels[k] = labels.get(k, 0) + c

    L = cal.month_len(y, m)
    table = leap.count(y, m) if y >= 1972 else None
    for k, ov in enumerate(OVERRIDES):
        d = (1, 15, L, 1 + (k * 7 + m) % L)[k % 4]
        t = TIMES[(k // 4 + m) % len(TIMES)]
        form = (k + y) % 3          # h/m/s forms only: fractional day is the same path
        both = (k + m) % 2 == 1     # leap_seconds together with utc=True
        kw = {"leap_seconds": ov}
        if both:
            kw["utc"] = True
        a = _build(y, m, d, t, form, **kw)
        b = _build(y, m, d, t, form)
        what = "Epoch(%d, %d, %d, %r, %s)" % (y, m, d, t,
                                              ", ".join("%s=%r" % kv for kv in sorted(kw.items())))
        off = (a.jde() - b.jde()) * 86400.0
        if ov == 0:
            lab("override_zero_documented_as_disabled")
        elif y >= 1972:
            want = leap.TT_MINUS_TAI + leap.TAI_MINUS_UTC_1972 + ov
            if not abs(off - want) <= TOL_S:
                raise Violation("%s is %.4f s later than the same date without it; 32.184 + 10 + "
                                "%r = %.3f s (table value for that month: %r)"
                                % (what, off, ov, want, table),
                                site="Epoch._compute_jde", kind="override_offset",
                                date=[y, m, d], time=list(t), override=ov, got=round(off, 4),
                                want=want, err=round(off - want, 4))
            if ov != table:
                lab("override_differs_from_table")
        else:
            lab("override_before_1972_roundtrip_only")
        _check_readback(a, y, m, d, t, kw, what)
        n += 1
        if isinstance(ov, float):
            lab("override_half_integer")
        if both:
            lab("override_with_utc_true")
    _month_labels(lab, y, m, n)
    return {"n": n, "nt": n, "labels": labels, "show": {"overrides": n}}


# ------------------------------------------------------------------ table

def body_table(case):
    y = case["year"]
    labels = {}

    def lab(k, c=1):
        labels[k] = labels.get(k, 0) + c

    prev = Epoch.leap_seconds(y - 1, 12) if y > Y0 else 0
    nt = 0
    for m in range(1, 13):
        for yy, mm in ((y, m), (float(y), float(m))):
            got = Epoch.leap_seconds(yy, mm)
            want = leap.count(y, m)
            if got != want or isinstance(got, bool) or not isinstance(got, (int, float)):
                raise Violation("Epoch.leap_seconds(%r, %r) = %r; the IERS list has %d leap "
                                "seconds before %d-%02d-01" % (yy, mm, got, want, y, m),
                                site="Epoch.leap_seconds", kind="table", year=y, month=m,
                                got=got, want=want)
        if got < prev:
            raise Violation("leap-second count decreases from %r to %r at %d-%02d"
                            % (prev, got, y, m), site="Epoch.leap_seconds", kind="decreasing",
                            year=y, month=m)
        if (y, m) >= (2017, 1) and got != 27:
            raise Violation("leap-second count %r after 2017-01-01 (must stay 27)" % got,
                            site="Epoch.leap_seconds", kind="not_constant", year=y, month=m)
        if got != prev:
            lab("step_month")
        prev = got
        if _nontrivial(y, m):
            nt += 2
    _month_labels(lab, y, 1, 1)
    return {"n": 24, "nt": nt, "labels": labels, "show": {"december": prev}}


def body_anchors(case):
    got = Epoch.get_last_leap_second()
    if tuple(got) != (2016, 12, 31.0, 27):
        raise Violation("get_last_leap_second() = %r; the last IERS leap second was inserted at "
                        "the end of 2016-12-31 (27th)" % (got,), site="Epoch.get_last_leap_second",
                        kind="anchor")
    n = 1
    # a UTC instant given as a JDE (documented example: J2000 -> 64.184 s)
    for arg in (2451545.0, JDE2000, Epoch(2000, 1, 1.5)):
        e = Epoch(arg, utc=True)
        off = (e.jde() - 2451545.0) * 86400.0
        if not abs(off - 64.184) <= TOL_S:
            raise Violation("Epoch(%r, utc=True) is %.4f s after J2000.0, want 64.184" % (arg, off),
                            site="Epoch._compute_jde", kind="anchor", got=off)
        n += 1
    if JDE2000.jde() != 2451545.0:
        raise Violation("JDE2000 changed to %r" % JDE2000.jde(), site="Epoch.set", kind="anchor")
    return {"n": n, "nt": n, "labels": ["anchors"]}


# ------------------------------------------------------------------ Delta-T

def body_deltat(case):
    y = case["year"]
    labels = {}

    def lab(k, c=1):
        labels[k] = labels.get(k, 0) + c

    nt = 0
    worst = None
    for m in range(1, 13):
        dt = Epoch.tt2ut(y, m)
        if not isinstance(dt, float) or math.isnan(dt) or math.isinf(dt):
            raise Violation("Epoch.tt2ut(%d, %d) = %r is not a finite float" % (y, m, dt),
                            site="Epoch.tt2ut", kind="not_finite", year=y, month=m)
        if 1972 <= y <= 2018:
            ref = leap.tt_minus_utc(y, m)
            if not abs(dt - ref) <= 3.5:
                raise Violation("Delta-T(%d, %d) = %.3f s is %.3f s away from 42.184 + leap "
                                "seconds = %.3f s (more than 3.5 s)" % (y, m, dt, dt - ref, ref),
                                site="Epoch.tt2ut", kind="deltat_vs_leap", year=y, month=m,
                                got=dt, ref=ref, err=round(dt - ref, 3))
            worst = max(worst or 0.0, abs(dt - ref))
            nt += 1
            lab("deltat_1972_2018")
    n = 12
    if y in JOINTS:
        a, b = Epoch.tt2ut(y - 1, 12), Epoch.tt2ut(y, 1)
        if not abs(b - a) < 1.0:
            raise Violation("Delta-T jumps by %.3f s at the segment joint %d (Dec %d: %.3f, "
                            "Jan %d: %.3f)" % (b - a, y, y - 1, a, y, b), site="Epoch.tt2ut",
                            kind="deltat_joint", year=y, jump=round(b - a, 4))
        # float arguments are documented too (int, float)
        b2 = Epoch.tt2ut(float(y), 1.0)
        if b2 != b:
            raise Violation("tt2ut(%r, 1.0) = %r differs from tt2ut(%d, 1) = %r" % (float(y), b2, y, b),
                            site="Epoch.tt2ut", kind="deltat_float_args", year=y)
        n += 2
        nt += 2
        lab("segment_joint")
        worst = abs(b - a)
    if y < -500:
        lab("before_-500")
    lab("years")
    return {"n": n, "nt": nt, "labels": labels, "show": {"worst": worst}}


CLAUSES = {"offset": body_offset, "readback": body_readback, "override": body_override,
           "table": body_table, "anchors": body_anchors, "deltat": body_deltat}


# ------------------------------------------------------------------ tasks

def _cells():
    return [(y, m) for y in range(Y0, Y1 + 1) for m in range(1, 13)]


def tasks(tier, seed):
    out = []
    for clause, nsh in (("offset", 12), ("readback", 16), ("override", 20)):
        for i in range(nsh):
            out.append(Task("t_cells", clause=clause, shard=i, of=nsh))
    out.append(Task("t_years", clause="table", first=Y0, last=Y1, shard=0, of=1))
    for i in range(3):
        out.append(Task("t_years", clause="deltat", first=-2000, last=3000, shard=i, of=3))
    out.append(Task("t_anchors"))
    return out


def t_cells(rec, clause, shard, of):
    """Every `of`-th (year, month) cell of 1950..2100, starting at `shard`."""
    for y, m in _cells()[shard::of]:
        rec.case(clause, {"year": y, "month": m})


def t_years(rec, clause, first, last, shard, of):
    for y in range(first + shard, last + 1, of):
        rec.case(clause, {"year": y})


def t_anchors(rec):
    rec.case("anchors", {"anchors": 1})
