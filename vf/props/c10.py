"""C10 - the UTC <-> TT offset follows the IERS leap-second history and inverts.

Exhaustive enumeration against the literal IERS list (vf/oracles/leap.py) and the
integer calendar (vf/oracles/calendar.py).  One *case* is one (year, month) cell of
1950..2100 (clauses offset, readback, override), or one year (clauses table, deltat).
"""
import math
from fractions import Fraction as F

from pymeeus.Epoch import Epoch, JDE2000

from ..core import Violation, Task
from ..oracles import calendar as cal
from ..oracles import leap

PROPERTY = "C10"
LEVEL = "exploration"
EXHAUSTIVE = {"quick": True, "thorough": True}
MANIFEST = {
    "level_text": "Exhaustive enumeration of the stated finite domain and more: every civil day of 1950..2100 at eight times of day (offset and UTC read-back), every leap_seconds override 0, 0.5, ..., 60 in every month of 1950..2100, the leap-second table for every (year, month) of 1950..2100 and Delta-T for every (year, month) of -2000..3000, against the literal IERS list. For this finite domain the property is decided completely for the tree it ran on. Beyond it, 15 000 (quick) / 240 000 (thorough) Hypothesis-generated instants at any time of day (microsecond grid around midnight included), entered in eight ways (fields, tuple, set(), fractional day, datetime, an Epoch as the date - another object or this very one), with utc=True or an override.",
    "level_note": "Trusts the 27 literal IERS dates (self-tested against published TAI-UTC values) and the integer calendar oracle. Tolerances 1 ms as stated; the float JDE resolves 0.04 ms.",
    "technique": "exhaustive generated-input enumeration plus Hypothesis-generated instants vs literal IERS leap-second list (differential oracle, round trip)",
}
RULE = ("Enumeration, no sampling: offset and readback clauses take every civil day of every "
        "month of 1950..2100 at 00:00:00, 12:00:00, 23:59:59, 06:30:15.5, 00:00:01, 00:01:09, "
        "23:58:51 and 23:59:00.25 (a superset of the days 1, 15, last x 0h, 12h, 23:59:59 grid; "
        "the extra times put the TT instant on the other side of midnight), built with utc=True through the "
        "constructor, a tuple, set() and a fractional day in rotation; the override clause takes "
        "every leap_seconds value 0, 0.5, 1, ..., 60 in every month of 1950..2100 on a rotating "
        "day and time; the table clause every (year, month) of 1950..2100; the deltat clause every "
        "(year, month) of -2000..3000. A case counts as non-trivial when the month is Jan, "
        "Feb, Jun, Jul or Dec, or the year is 1971, 1972, 2016 or 2017, or an override is given "
        "(the places where the table lookup can go wrong); distinct by (y, m, d, time, override) "
        "by construction of the enumeration. Generated instants (clause instant) count as non-trivial under the same month/year rule, or with an override, or within 20 ms of midnight; distinct by case hash.")
ASSUMPTIONS = [
    "oracle: the 27 IERS Bulletin C dates as literals; TT-UTC = 32.184 + 10 + count for civil "
    "dates from 1972-01-01, nothing before",
    "offset tolerance 1e-3 s (the difference of two float JDEs near 2.45e6 resolves 4e-5 s); "
    "read-back compared as an instant (integer calendar + exact fraction) with the original "
    "civil instant, 1 ms as stated, so 00:00:00 read back as 23:59:59.99998 of the day before "
    "is accepted",
    "leap_seconds=0 is documented as 'conversion disabled' (check_input_date, get_date): the "
    "offset is not asserted for it, only the round trip; for dates before 1972 an override's "
    "offset is not asserted either (the text says nothing), only the round trip",
    "Delta-T segment joints are the documented ones of the cited NASA polynomial set: 500, "
    "1600, 1700, 1800, 1860, 1900, 1920, 1941, 1961, 1986, 2005, 2050, 2150 (the joint at "
    "-500 itself is outside 'after year -500')",
    "sensitivity (development time, tree with fixes_proposed/C10-*.diff applied): 17 of 17 "
    "mutants of mutants/C10.json reported as VIOLATION by the quick tier",
    "Epoch.utc2local and the local= keyword are excluded (clock dependent)",
    "instant clause (generated, beyond the stated grid): any time of day to 1 us, eight ways of "
    "entering it (among them an Epoch as the date, this very object included, and datetime); "
    "instants closer than 0.5 ms to an inserted leap second or to 1972-01-01 0h (where the offset "
    "starts) are moved to 0.5 ms before it (the "
    "float JDE resolves 0.04 ms and the tuple returned has no name for 23:59:60.x)",
]

Y0, Y1 = 1950, 2100
TIMES = [(0, 0, 0), (12, 0, 0), (23, 59, 59), (6, 30, 15.5),
         (0, 0, 1), (0, 1, 9), (23, 58, 51), (23, 59, 0.25)]
TOL_S = 1e-3
MS = F(1, 86400 * 1000)
OVERRIDES = [k // 2 if k % 2 == 0 else k / 2.0 for k in range(0, 121)]   # 0, 0.5, 1, ... 60
JOINTS = [500, 1600, 1700, 1800, 1860, 1900, 1920, 1941, 1961, 1986, 2005, 2050, 2150]


def self_test():
    cal.self_test()
    leap.self_test()
    assert len(OVERRIDES) == 121 and OVERRIDES[0] == 0 and OVERRIDES[-1] == 60
    assert OVERRIDES[1] == 0.5 and isinstance(OVERRIDES[2], int)


def _nontrivial(y, m):
    return m in (1, 2, 6, 7, 12) or y in (1971, 1972, 2016, 2017)


def _month_labels(lab, y, m, c=1):
    if m in (1, 2):
        lab("jan_feb", c)
    if m in (6, 7):
        lab("jun_jul", c)
    if m == 12:
        lab("dec", c)
    if y < 1972:
        lab("before_1972", c)
    if y in (1971, 1972):
        lab("year_1971_1972", c)
    if y in (2016, 2017):
        lab("year_2016_2017", c)
    if y > 2017:
        lab("after_last_leap_second", c)


def _build(y, m, d, t, form, **kw):
    h, mi, s = t
    if form == 0:
        return Epoch(y, m, d, h, mi, s, **kw)
    if form == 1:
        return Epoch((y, m, d, h, mi, s), **kw)
    if form == 2:
        e = Epoch(2451545.0)
        e.set(y, m, d, h, mi, s, **kw)
        return e
    # fractional day (exact for 0h and 12h; otherwise rounded to 1e-15 d)
    return Epoch(y, m, d + (h * 3600 + mi * 60 + s) / 86400.0, **kw)


def _civil_instant(y, m, d, t):
    h, mi, s = t
    return cal.jdn(y, m, d) + F(h * 3600 + mi * 60, 86400) + F(s) / 86400


def _instant_of_date(tup, what, site):
    """(Y, M, D.frac) -> exact instant, after checking that it names a civil day."""
    Y, M, D = tup[0], tup[1], tup[2]
    if not (isinstance(Y, int) and isinstance(M, int)) or not (1 <= M <= 12) \
            or not (1 <= int(D) <= cal.month_len(Y, M)):
        raise Violation("%s = %r is not a civil date" % (what, tuple(tup)), site=site,
                        kind="not_a_date", got=list(tup))
    x = cal.jdn(Y, M, int(D)) + (F(D) - int(D))
    if len(tup) == 6:
        H, MI, S = tup[3], tup[4], tup[5]
        if not (0 <= H <= 23 and 0 <= MI <= 59 and 0 <= S < 60):
            raise Violation("%s = %r has a field out of range" % (what, tuple(tup)), site=site,
                            kind="field_range", got=list(tup))
        x = cal.jdn(Y, M, int(D)) + F(H * 3600 + MI * 60, 86400) + F(S) / 86400
    return x


# ------------------------------------------------------------------ offset

def body_offset(case):
    y, m = case["year"], case["month"]
    n = nt = 0
    labels = {}

    def lab(k, c=1):
        labels[k] = labels.get(k, 0) + c

    want = leap.tt_minus_utc(y, m) if y >= 1972 else 0.0
    L = cal.month_len(y, m)
    worst = 0.0
    for d in range(1, L + 1):
        for ti, t in enumerate(TIMES):
            form = (d + ti) % 4
            a = _build(y, m, d, t, form, utc=True)
            b = _build(y, m, d, t, form)
            off = (a.jde() - b.jde()) * 86400.0
            if not abs(off - want) <= TOL_S:
                raise Violation(
                    "Epoch(%d, %d, %d, %r, utc=True) is %.4f s later than the same date "
                    "without utc; IERS history says %.3f s" % (y, m, d, t, off, want),
                    site="Epoch._compute_jde", kind="utc_offset", date=[y, m, d],
                    time=list(t), got=round(off, 4), want=want, err=round(off - want, 4))
            worst = max(worst, abs(off - want))
            n += 1
            if d == L and t == (23, 59, 59) and leap.precedes_leap_second(y, m):
                lab("last_second_before_leap_second")
    _month_labels(lab, y, m, n)
    lab("form_ctor/tuple/set/fractional_day", n)
    if _nontrivial(y, m):
        nt = n
    return {"n": n, "nt": nt, "labels": labels,
            "show": {"offset_s": want, "worst_error_s": worst, "instants": n}}


# ------------------------------------------------------------------ read-back

def _check_readback(a, y, m, d, t, kw, what):
    want = _civil_instant(y, m, d, t)
    g = a.get_date(**kw)
    x = _instant_of_date(g, "%s.get_date(%r)" % (what, kw), "Epoch.get_date")
    err = x - want
    if abs(err) > MS:
        raise Violation("%s.get_date(%s) = %r, which is %.4f s away from the civil instant given"
                        % (what, ", ".join("%s=%r" % kv for kv in sorted(kw.items())), tuple(g),
                           float(err) * 86400),
                        site="Epoch.get_date", kind="utc_readback", date=[y, m, d],
                        time=list(t), got=list(g), err_s=round(float(err) * 86400, 4))
    g6 = a.get_full_date(**kw)
    x6 = _instant_of_date(g6, "%s.get_full_date(%r)" % (what, kw), "Epoch.get_full_date")
    err6 = x6 - want
    if abs(err6) > MS:
        raise Violation("%s.get_full_date(%r) = %r, which is %.4f s away from the civil instant "
                        "given" % (what, kw, tuple(g6), float(err6) * 86400),
                        site="Epoch.get_full_date", kind="utc_readback", date=[y, m, d],
                        time=list(t), got=list(g6), err_s=round(float(err6) * 86400, 4))
    return max(abs(float(err)), abs(float(err6))) * 86400


def body_readback(case):
    y, m = case["year"], case["month"]
    n = nt = 0
    labels = {}

    def lab(k, c=1):
        labels[k] = labels.get(k, 0) + c

    L = cal.month_len(y, m)
    worst = 0.0
    for d in range(1, L + 1):
        for ti, t in enumerate(TIMES):
            form = (d + ti + 1) % 4
            a = _build(y, m, d, t, form, utc=True)
            what = "Epoch(%d, %d, %d, %r, utc=True)" % (y, m, d, t)
            worst = max(worst, _check_readback(a, y, m, d, t, {"utc": True}, what))
            n += 1
            if d == L and t == (23, 59, 59) and leap.precedes_leap_second(y, m):
                lab("last_second_before_leap_second")
            if d == 1 and t == (0, 0, 0):
                lab("first_instant_of_month")
    _month_labels(lab, y, m, n)
    if _nontrivial(y, m):
        nt = n
    return {"n": n, "nt": nt, "labels": labels,
            "show": {"worst_error_s": worst, "instants": n}}


# ------------------------------------------------------------------ override

def body_override(case):
    y, m = case["year"], case["month"]
    n = 0
    labels = {}

    def lab(k, c=1):
        labels[k] = labels.get(k, 0) + c

    L = cal.month_len(y, m)
    table = leap.count(y, m) if y >= 1972 else None
    for k, ov in enumerate(OVERRIDES):
        d = (1, 15, L, 1 + (k * 7 + m) % L)[k % 4]
        t = TIMES[(k // 4 + m) % len(TIMES)]
        form = (k + y) % 3          # h/m/s forms only: fractional day is the same path
        both = (k + m) % 2 == 1     # leap_seconds together with utc=True
        kw = {"leap_seconds": ov}
        if both:
            kw["utc"] = True
        a = _build(y, m, d, t, form, **kw)
        b = _build(y, m, d, t, form)
        what = "Epoch(%d, %d, %d, %r, %s)" % (y, m, d, t,
                                              ", ".join("%s=%r" % kv for kv in sorted(kw.items())))
        off = (a.jde() - b.jde()) * 86400.0
        if ov == 0:
            lab("override_zero_documented_as_disabled")
        elif y >= 1972:
            want = leap.TT_MINUS_TAI + leap.TAI_MINUS_UTC_1972 + ov
            if not abs(off - want) <= TOL_S:
                raise Violation("%s is %.4f s later than the same date without it; 32.184 + 10 + "
                                "%r = %.3f s (table value for that month: %r)"
                                % (what, off, ov, want, table),
                                site="Epoch._compute_jde", kind="override_offset",
                                date=[y, m, d], time=list(t), override=ov, got=round(off, 4),
                                want=want, err=round(off - want, 4))
            if ov != table:
                lab("override_differs_from_table")
        else:
            lab("override_before_1972_roundtrip_only")
        _check_readback(a, y, m, d, t, kw, what)
        n += 1
        if isinstance(ov, float):
            lab("override_half_integer")
        if both:
            lab("override_with_utc_true")
    _month_labels(lab, y, m, n)
    return {"n": n, "nt": n, "labels": labels, "show": {"overrides": n}}


# ------------------------------------------------------------------ table

def body_table(case):
    y = case["year"]
    labels = {}

    def lab(k, c=1):
        labels[k] = labels.get(k, 0) + c

    prev = Epoch.leap_seconds(y - 1, 12) if y > Y0 else 0
    nt = 0
    for m in range(1, 13):
        for yy, mm in ((y, m), (float(y), float(m))):
            got = Epoch.leap_seconds(yy, mm)
            want = leap.count(y, m)
            if got != want or isinstance(got, bool) or not isinstance(got, (int, float)):
                raise Violation("Epoch.leap_seconds(%r, %r) = %r; the IERS list has %d leap "
                                "seconds before %d-%02d-01" % (yy, mm, got, want, y, m),
                                site="Epoch.leap_seconds", kind="table", year=y, month=m,
                                got=got, want=want)
        if got < prev:
            raise Violation("leap-second count decreases from %r to %r at %d-%02d"
                            % (prev, got, y, m), site="Epoch.leap_seconds", kind="decreasing",
                            year=y, month=m)
        if (y, m) >= (2017, 1) and got != 27:
            raise Violation("leap-second count %r after 2017-01-01 (must stay 27)" % got,
                            site="Epoch.leap_seconds", kind="not_constant", year=y, month=m)
        if got != prev:
            lab("step_month")
        prev = got
        if _nontrivial(y, m):
            nt += 2
    _month_labels(lab, y, 1, 1)
    return {"n": 24, "nt": nt, "labels": labels, "show": {"december": prev}}


def body_anchors(case):
    got = Epoch.get_last_leap_second()
    if tuple(got) != (2016, 12, 31.0, 27):
        raise Violation("get_last_leap_second() = %r; the last IERS leap second was inserted at "
                        "the end of 2016-12-31 (27th)" % (got,), site="Epoch.get_last_leap_second",
                        kind="anchor")
    n = 1
    # a UTC instant given as a JDE (documented example: J2000 -> 64.184 s)
    for arg in (2451545.0, JDE2000, Epoch(2000, 1, 1.5)):
        e = Epoch(arg, utc=True)
        off = (e.jde() - 2451545.0) * 86400.0
        if not abs(off - 64.184) <= TOL_S:
            raise Violation("Epoch(%r, utc=True) is %.4f s after J2000.0, want 64.184" % (arg, off),
                            site="Epoch._compute_jde", kind="anchor", got=off)
        n += 1
    if JDE2000.jde() != 2451545.0:
        raise Violation("JDE2000 changed to %r" % JDE2000.jde(), site="Epoch.set", kind="anchor")
    return {"n": n, "nt": n, "labels": ["anchors"]}


# ------------------------------------------------------------------ Delta-T

def body_deltat(case):
    y = case["year"]
    labels = {}

    def lab(k, c=1):
        labels[k] = labels.get(k, 0) + c

    nt = 0
    worst = None
    for m in range(1, 13):
        dt = Epoch.tt2ut(y, m)
        if not isinstance(dt, float) or math.isnan(dt) or math.isinf(dt):
            raise Violation("Epoch.tt2ut(%d, %d) = %r is not a finite float" % (y, m, dt),
                            site="Epoch.tt2ut", kind="not_finite", year=y, month=m)
        if 1972 <= y <= 2018:
            ref = leap.tt_minus_utc(y, m)
            if not abs(dt - ref) <= 3.5:
                raise Violation("Delta-T(%d, %d) = %.3f s is %.3f s away from 42.184 + leap "
                                "seconds = %.3f s (more than 3.5 s)" % (y, m, dt, dt - ref, ref),
                                site="Epoch.tt2ut", kind="deltat_vs_leap", year=y, month=m,
                                got=dt, ref=ref, err=round(dt - ref, 3))
            worst = max(worst or 0.0, abs(dt - ref))
            nt += 1
            lab("deltat_1972_2018")
    n = 12
    if y in JOINTS:
        a, b = Epoch.tt2ut(y - 1, 12), Epoch.tt2ut(y, 1)
        if not abs(b - a) < 1.0:
            raise Violation("Delta-T jumps by %.3f s at the segment joint %d (Dec %d: %.3f, "
                            "Jan %d: %.3f)" % (b - a, y, y - 1, a, y, b), site="Epoch.tt2ut",
                            kind="deltat_joint", year=y, jump=round(b - a, 4))
        # float arguments are documented too (int, float)
        b2 = Epoch.tt2ut(float(y), 1.0)
        if b2 != b:
            raise Violation("tt2ut(%r, 1.0) = %r differs from tt2ut(%d, 1) = %r" % (float(y), b2, y, b),
                            site="Epoch.tt2ut", kind="deltat_float_args", year=y)
        n += 2
        nt += 2
        lab("segment_joint")
        worst = abs(b - a)
    if y < -500:
        lab("before_-500")
    lab("years")
    return {"n": n, "nt": nt, "labels": labels, "show": {"worst": worst}}


# ------------------------------------------------------------------ generated instants

INSTANT_FORMS = ["ctor", "tuple", "set", "fractional_day", "set_self", "from_epoch", "datetime",
                 "set_other", "check_input_fields", "check_input_list", "check_input_date_object"]


def _build_instant(y, m, d, sod, form, kw):
    """The civil instant y-m-d + sod seconds, entered with the keywords kw in one of the
    documented ways; returns (epoch, seconds actually entered)."""
    h = int(sod // 3600)
    mi = int((sod - h * 3600) // 60)
    s = sod - h * 3600 - mi * 60
    if not (0 <= s < 60):           # float edge: keep the fields valid
        s = 0.0 if s < 0 else math.nextafter(60.0, 0.0)
    entered = F(h * 3600 + mi * 60) + F(s)
    if form == "ctor":
        return Epoch(y, m, d, h, mi, s, **kw), entered
    if form == "tuple":
        return Epoch((y, m, d, h, mi, s), **kw), entered
    if form == "set":
        e = Epoch(2451545.0)
        e.set(y, m, d, h, mi, s, **kw)
        return e, entered
    if form == "fractional_day":
        dd = d + sod / 86400.0
        if int(dd) != d:
            dd = float(d)
        return Epoch(y, m, dd, **kw), (F(dd) - d) * 86400
    if form in ("check_input_fields", "check_input_list"):
        # Epoch.check_input_date(): the public gate through which the functions of Coordinates
        # take their date arguments; it hands the keywords on to the constructor
        dd = d + sod / 86400.0
        if int(dd) != d:
            dd = float(d)
        ent = (F(dd) - d) * 86400
        if form == "check_input_fields":
            return Epoch.check_input_date(y, m, dd, **kw), ent
        return Epoch.check_input_date([y, m, dd], **kw), ent
    if form == "check_input_date_object":
        import datetime
        return Epoch.check_input_date(datetime.date(y, m, d), **kw), F(0)
    if form == "datetime":
        import datetime
        us = int(round((s - int(s)) * 1e6))
        if us > 999999:
            us = 999999
        dt = datetime.datetime(y, m, d, h, mi, int(s), us)
        return Epoch(dt, **kw), F(h * 3600 + mi * 60 + int(s)) + F(us, 10 ** 6)
    # an Epoch given as the date: its JDE is the value the keywords apply to
    plain = Epoch(y, m, d, h, mi, s)
    if form == "set_self":
        plain.set(plain, **kw)
        return plain, entered
    if form == "set_other":
        e = Epoch(1987, 6, 19.5, utc=True)
        e.set(plain, **kw)
        return e, entered
    return Epoch(plain, **kw), entered


def body_instant(case):
    y, m, d, sod, form = case["year"], case["month"], case["day"], case["sod"], case["form"]
    ov = case.get("override")
    labels = ["form_" + form]
    if sod > 86399.9995 and d == cal.month_len(y, m) and (leap.precedes_leap_second(y, m)
                                                           or (y, m) == (1971, 12)):
        # the float JDE resolves 0.04 ms: an instant closer than that to an inserted leap second
        # may be stored inside it, where a (year, month, day) tuple has no name for it (likewise
        # the last 0.04 ms of 1971, which may be stored as 1972-01-01 0h, where the offset starts)
        sod = 86399.9995
        labels.append("kept_0.5ms_clear_of_inserted_leap_second")
    kw = {"utc": True} if ov is None else {"leap_seconds": ov}
    if ov is not None and case.get("both"):
        kw["utc"] = True
    a, entered = _build_instant(y, m, d, sod, form, kw)
    if form == "check_input_date_object":
        sod = 0.0               # a date object carries no time of day
    b, _ = _build_instant(y, m, d, sod, form if form not in ("set_self", "set_other", "from_epoch")
                          else "ctor", {})
    what = "the civil instant %d-%02d-%02d + %r s entered as %s with %s" % (
        y, m, d, sod, form, ", ".join("%s=%r" % kv for kv in sorted(kw.items())))
    off = (a.jde() - b.jde()) * 86400.0
    if ov is None:
        want = leap.tt_minus_utc(y, m) if y >= 1972 else 0.0
    elif ov != 0 and y >= 1972:
        want = leap.TT_MINUS_TAI + leap.TAI_MINUS_UTC_1972 + ov
    else:
        want = None
    if want is not None and not abs(off - want) <= TOL_S:
        raise Violation("%s is %.4f s later than the same date without the keyword; want %.3f s"
                        % (what, off, want), site="Epoch._compute_jde", kind="utc_offset",
                        date=[y, m, d], sod=sod, form=form, got=round(off, 4), want=want,
                        err=round(off - want, 4))
    # read-back, against the instant actually entered
    want_x = cal.jdn(y, m, d) + entered / 86400
    worst = 0.0
    for meth in ("get_date", "get_full_date"):
        g = getattr(a, meth)(**kw)
        x = _instant_of_date(g, "%s: %s(%r)" % (what, meth, kw), "Epoch." + meth)
        err = x - want_x
        if abs(err) > MS:
            raise Violation("%s: %s(%s) = %r, which is %.4f s away from the civil instant given"
                            % (what, meth, ", ".join("%s=%r" % kv for kv in sorted(kw.items())),
                               tuple(g), float(err) * 86400),
                            site="Epoch." + meth, kind="utc_readback", date=[y, m, d], sod=sod,
                            form=form, got=list(g), err_s=round(float(err) * 86400, 5))
        worst = max(worst, abs(float(err)) * 86400)
    ms = sod * 1000.0
    if ms < 20 or ms > 86400000 - 20:
        labels.append("within_20ms_of_midnight")
    if abs(ms - round(ms)) < 1e-6:
        labels.append("on_ms_grid")
    if (sod % 60.0) > 59.99 or (sod % 60.0) < 0.01:
        labels.append("within_10ms_of_a_whole_minute")
    if ov is not None:
        labels.append("override")
    if y < 1972:
        labels.append("before_1972")
    if sod < want if want else False:
        labels.append("tt_instant_on_previous_utc_day_side")
    nt = _nontrivial(y, m) or ov is not None or "within_20ms_of_midnight" in labels
    return {"labels": labels, "nontrivial": bool(nt),
            "show": {"offset_s": round(off, 4), "readback_err_s": round(worst, 6)}}


def instant_cases():
    from hypothesis import strategies as st
    sod = st.one_of(
        st.floats(0, 86400, exclude_max=True),
        st.integers(0, 86399999).map(lambda k: k / 1000.0),
        st.integers(0, 20000).map(lambda k: k / 1000000.0),                 # 0..20 ms, 1 us grid
        st.integers(1, 20000).map(lambda k: 86400.0 - k / 1000000.0),
        st.tuples(st.integers(0, 86399), st.sampled_from([0.0, 0.001, 0.0005, 0.999, 0.9995,
                                                           1e-4, 0.5])).map(lambda t: t[0] + t[1]),
        # up to 10 ms before / after a whole minute (microsecond grid): where a sexagesimal
        # read-back carries
        st.tuples(st.integers(1, 1440), st.integers(1, 10000)).map(lambda t: t[0] * 60.0 - t[1] / 1e6),
        st.tuples(st.integers(0, 1439), st.integers(0, 10000)).map(lambda t: t[0] * 60.0 + t[1] / 1e6),
        st.tuples(st.sampled_from([0, 1, 59, 60, 61, 3599, 3600, 43200, 86340, 86399]),
                  st.floats(0, 1, exclude_max=True)).map(lambda t: t[0] + t[1]))
    ym = st.one_of(st.tuples(st.integers(Y0, Y1), st.integers(1, 12)),
                   st.tuples(st.integers(1970, 2018), st.sampled_from([1, 6, 7, 12])))

    def build(ymv, dsel, sodv, form, ovsel, ov, both):
        y, m = ymv
        L = cal.month_len(y, m)
        d = {0: 1, 1: L, 2: 15}.get(dsel, 1 + dsel % L)
        c = {"year": y, "month": m, "day": d, "sod": min(sodv, math.nextafter(86400.0, 0.0)),
             "form": form}
        if ovsel == 0:
            c["override"] = ov
            c["both"] = both
        return c
    return st.builds(build, ym, st.integers(0, 40), sod, st.sampled_from(INSTANT_FORMS),
                     st.integers(0, 3), st.sampled_from(OVERRIDES), st.booleans())


CLAUSES = {"offset": body_offset, "readback": body_readback, "override": body_override,
           "table": body_table, "anchors": body_anchors, "deltat": body_deltat,
           "instant": body_instant}


# ------------------------------------------------------------------ tasks

def _cells():
    return [(y, m) for y in range(Y0, Y1 + 1) for m in range(1, 13)]


def tasks(tier, seed):
    out = []
    for clause, nsh in (("offset", 12), ("readback", 16), ("override", 20)):
        for i in range(nsh):
            out.append(Task("t_cells", clause=clause, shard=i, of=nsh))
    out.append(Task("t_years", clause="table", first=Y0, last=Y1, shard=0, of=1))
    for i in range(3):
        out.append(Task("t_years", clause="deltat", first=-2000, last=3000, shard=i, of=3))
    out.append(Task("t_anchors"))
    n = 2500 if tier == "quick" else 40000
    for i in range(6):
        out.append(Task("t_instants", shard=i, n=n))
    return out


def t_instants(rec, shard, n):
    rec.given("instant", instant_cases(), n, shard=shard)


def t_cells(rec, clause, shard, of):
    """Every `of`-th (year, month) cell of 1950..2100, starting at `shard`."""
    for y, m in _cells()[shard::of]:
        rec.case(clause, {"year": y, "month": m})


def t_years(rec, clause, first, last, shard, of):
    for y in range(first + shard, last + 1, of):
        rec.case(clause, {"year": y})


def t_anchors(rec):
    rec.case("anchors", {"anchors": 1})
