"""C05 - celestial coordinate conversions are inverse rotations; separation metric.

Oracle: vector geometry of the sphere written from the definitions
(vf/oracles/sphere.py): unit vectors, separation atan2(|a x b|, a . b), explicit 3x3
rotations for ecliptic/equator (about the equinox by the obliquity), horizon (about the
west axis by the colatitude; azimuth from the south, westward) and the IAU 1958 galactic
frame (pole 192.25/+27.4, longitude of the celestial pole 123), and a 50-digit decimal
layer for the position angle, whose dot/cross-product value is ill-conditioned in double
precision at small separations.

Every comparison of directions is made as an angle ON THE SPHERE, so the undefined
longitude of a pole cannot raise a false alarm.
"""
import math

from hypothesis import strategies as st

from pymeeus.Angle import Angle
from pymeeus.Coordinates import (
    equatorial2ecliptical, ecliptical2equatorial, equatorial2horizontal,
    horizontal2equatorial, equatorial2galactic, galactic2equatorial,
    angular_separation, relative_position_angle, circle_diameter)

from ..core import Violation, Task
from .. import strategies as S
from ..oracles import sphere as sp

PROPERTY = "C05"
LEVEL = "exploration"
MANIFEST = {
    "level_text": "Randomised search (Hypothesis; sphere generator with both poles of the input AND of the output frame, equator, 0/360 seam; constructed partners at known distance from 1e-7 deg to 180 - 1e-3 deg; obliquity 0..30, observer latitude -90..90 with the range ends over-weighted; ~100k cases quick) against a vector-geometry model of the sphere. Finds violations; does not prove absence.",
    "level_note": "Trusts the float vector oracle (forward error < 1e-12 deg, self-tested on every run against a 50-digit decimal implementation and against literal anchors of each frame) and the decimal position-angle oracle. Tolerances are the property's 1e-9 degree, widened for the position angle only by 3 x a first-order forward-error bound for one rounding of the radian values the library necessarily starts from (matters within ~1e-3 deg of a pole, beyond 179.99 deg and for sub-arcsecond pairs across the 0/360 seam).",
    "technique": "property-based testing (Hypothesis): round trip, isometry and differential comparison with explicit rotation matrices and dot/cross-product metric",
}
RULE = ("Hypothesis-generated cases, six clauses. roundtrip / rotation: one direction "
        "(uniform on the sphere, or within {0, 1e-12 .. 4} deg of a pole, on the equator, "
        "on the 0/360 seam or at 90/180/270) placed either in the input frame or in the "
        "OUTPUT frame (then carried back with the oracle matrix, so that output poles and "
        "the output seam are reached), frame in {ecliptical, galactic, horizontal}, both "
        "directions of each pair, obliquity in [0, 30] / observer latitude in [-90, 90] "
        "with 0, the range ends and ends -+ 1e-9 over-weighted. isometry: the same plus a "
        "second direction (independent, or constructed at a distance 1e-7 .. 180 deg). "
        "separation / posangle: base direction plus a partner constructed by distance "
        "(log-uniform 1e-7..1e-3, 1e-3..1, uniform 1..179, 180 - log-uniform 1e-3..1, and "
        "a few outside [1e-7, 179.999] that are only checked for symmetry) and bearing, "
        "or an independent partner; the asserted separation is always recomputed by the "
        "oracle from the floats handed to the library. circle: three bodies within 2.5 "
        "deg of a centre (general, equilateral, collinear, two or three coincident, tiny). "
        "Non-trivial: a direction within 1 deg of a pole (of either frame) or of the "
        "0/360 seam (of either frame), or a pair separated by < 1e-3 or > 179 deg, or an "
        "obliquity / observer latitude at a range end, or a degenerate / sub-arcsecond "
        "triple; distinct = distinct case.")
ASSUMPTIONS = [
    "in one case out of three the conversion is called with Angle objects that already served another call of the same function and were then changed in place with set(): an Angle is an Angle, whatever its history",
    "circle_diameter is asserted only when every non-zero mutual separation of the three bodies is at least 1e-7 deg, the lower end of the separation range the property states (found by the thorough tier: at 1e-126 deg the side products underflow and the routine divides by zero; not a stated case)",
    "directions are compared as angles on the sphere (tolerance 1e-9 deg as stated); a "
    "longitude is never compared directly",
    "ranges: longitude outputs of the ecliptical and galactic pairs in [0, 360) as "
    "documented by to_positive(); azimuth and hour angle of the horizontal pair only in "
    "(-360, 360) since no range is documented; every latitude-like output in [-90, 90]",
    "rotation clause: the conversions are compared with explicit rotations built from the "
    "definitions quoted in the docstrings (azimuth from the south westward; galactic "
    "system IAU 1958 on B1950: pole 192.25 / +27.4, celestial pole at l = 123)",
    "angular_separation is asserted to 1e-9 deg for oracle separations in [1e-7, 179.999] "
    "deg; outside only symmetry (to 1e-12 deg) and the range [0, 180] are asserted",
    "relative_position_angle (body 1 seen from body 2, from north through east, compared "
    "modulo 360) is asserted for the same separations to 1e-9 deg + 3 x a first-order "
    "forward-error bound: the change of the exact position angle when the radian values "
    "any implementation built on Angle.rad() starts from (delta1, delta2, delta1 - delta2, "
    "alpha1 - alpha2) are off by one rounding each (pa_forward_error in the module). The "
    "extra term is < 1e-10 deg except within ~1e-3 deg of a pole, beyond ~179.99 deg, or for "
    "sub-arcsecond pairs straddling the 0/360 seam; the repaired implementation stays "
    "below 0.6 x the bound in 120k calibration cases. "
    "'Antisymmetric' is read as P(a1,d1,a2,d2) = -P(a2,d1,a1,d2) (mirror image: the sign of "
    "alpha1 - alpha2 reversed), the only exact antisymmetry of a position angle on the sphere",
    "circle_diameter: max separation - 1e-9 deg <= d <= 2/sqrt(3) * max separation * "
    "(1 + a^2/48) + 1e-9 deg, a = max separation in radians (a^2/72 is the amount by which "
    "the true spherical circumscribed circle of an equilateral triple exceeds the planar "
    "value, so that a spherical implementation would not be flagged); triples within 5 deg",
    "sensitivity (mutants/C05.json, applied on top of fixes_proposed/C05-*.diff, quick tier, "
    "seed 1): 23 of 24 mutants reported as VIOLATION, among them the ones the 250 repo tests "
    "let through (galactic pole moved by 1e-7 deg, latitude back to asin, a stray asin that "
    "only raises the domain error, acos separation, the cancelling position-angle formula, "
    "alpha1 - alpha2 reversed, a dropped to_positive); missed: circle_diameter always "
    "returning the longest side, which the property's bounds admit",
]

TOL = 1e-9
FRAMES = {
    "ecl": (equatorial2ecliptical, ecliptical2equatorial,
            "Coordinates.equatorial2ecliptical", "Coordinates.ecliptical2equatorial"),
    "hor": (equatorial2horizontal, horizontal2equatorial,
            "Coordinates.equatorial2horizontal", "Coordinates.horizontal2equatorial"),
    "gal": (equatorial2galactic, galactic2equatorial,
            "Coordinates.equatorial2galactic", "Coordinates.galactic2equatorial"),
}


def self_test():
    sp.self_test()


def convert(frame, dirn, lon, lat, par):
    """Call the library; returns (lon_out, lat_out, site)."""
    fwd, inv, sf, si = FRAMES[frame]
    fn, site = (fwd, sf) if dirn == "fwd" else (inv, si)
    if int(abs(lon) * 1000.0) % 3 == 0:
        # one case in three: the caller re-uses its Angle objects - they served another call
        # of the same function with other values and were then changed in place with set()
        args = [Angle((lon + 123.4) % 360.0), Angle(-lat / 2.0)] + ([] if frame == "gal" else
                                                                     [Angle(par / 2.0 + 1.0)])
        try:
            fn(*args)
        except Exception:
            pass
        for obj, val in zip(args, [lon, lat] + ([] if frame == "gal" else [par])):
            obj.set(val)
        a, b = fn(*args)
    elif frame == "gal":
        a, b = fn(S.angle_with_tolerance(lon), S.angle_with_tolerance(lat, 1))
    else:
        a, b = fn(S.angle_with_tolerance(lon), S.angle_with_tolerance(lat, 1), S.angle_with_tolerance(par, 2))
    if not isinstance(a, Angle) or not isinstance(b, Angle):
        raise Violation("%s returned %r, %r instead of two Angles" % (site, a, b), site=site,
                        kind="type")
    return a(), b(), site


def other(dirn):
    return "inv" if dirn == "fwd" else "fwd"


def check_range(frame, lo, la, site, what):
    if not (isinstance(lo, float) and isinstance(la, float)) or lo != lo or la != la:
        raise Violation("%s: non-float / NaN output (%r, %r)" % (what, lo, la), site=site,
                        kind="type")
    if frame == "hor":
        ok = -360.0 < lo < 360.0
        rng = "(-360, 360)"
    else:
        ok = 0.0 <= lo < 360.0
        rng = "[0, 360)"
    if not ok:
        raise Violation("%s: longitude-like output %r outside %s" % (what, lo, rng),
                        site=site, kind="lon_range", got=lo)
    if not (-90.0 <= la <= 90.0):
        raise Violation("%s: latitude-like output %r outside [-90, 90]" % (what, la),
                        site=site, kind="lat_range", got=la)


def oracle_convert(frame, dirn, lon, lat, par):
    m = sp.frame_matrix(frame, par)
    if dirn == "inv":
        m = sp.transpose(m)
    return sp.lonlat(sp.matvec(m, sp.unit(lon, lat)))


def near_seam(lon):
    return lon < 1.0 or lon > 359.0


def dir_labels(case, out_lon, out_lat):
    labels = ["%s:%s" % (case["frame"], case["dirn"])]
    nt = False
    la = abs(case["lat"])
    if la == 90.0:
        labels.append("pole_exact_in")
    if la > 89.0:
        labels.append("near_pole_in")
        nt = True
        if 90.0 - la < 1e-3:
            labels.append("within_1e-3_of_pole_in")
    if abs(out_lat) > 89.0:
        labels.append("near_pole_out")
        nt = True
        if 90.0 - abs(out_lat) < 1e-3:
            labels.append("within_1e-3_of_pole_out")
    if near_seam(case["lon"] % 360.0):
        labels.append("seam_in")
        nt = True
    if near_seam(out_lon % 360.0):
        labels.append("seam_out")
        nt = True
    if la < 1e-3:
        labels.append("equator_in")
    par = case.get("par")
    if case["frame"] == "ecl":
        if par in (0.0, 30.0) or par < 1e-6 or par > 30.0 - 1e-6:
            labels.append("obliquity_range_end")
            nt = True
    elif case["frame"] == "hor":
        if abs(par) > 90.0 - 1e-6:
            labels.append("observer_at_pole")
            nt = True
        elif abs(par) < 1e-6:
            labels.append("observer_on_equator")
            nt = True
    return labels, nt


# ------------------------------------------------------------------ clause bodies

def body_roundtrip(case):
    frame, dirn, lon, lat, par = (case["frame"], case["dirn"], case["lon"], case["lat"],
                                  case.get("par"))
    lo1, la1, site1 = convert(frame, dirn, lon, lat, par)
    what = "%s(%r, %r%s)" % (site1.split(".")[1], lon, lat, "" if frame == "gal" else ", %r" % par)
    check_range(frame, lo1, la1, site1, what)
    lo2, la2, site2 = convert(frame, other(dirn), lo1, la1, par)
    check_range(frame, lo2, la2, site2, "%s o %s" % (site2.split(".")[1], what))
    err = sp.sep(sp.unit(lon, lat), sp.unit(lo2, la2))
    if not err <= TOL:
        # attribute the loss to the leg that departs from the explicit rotation
        o1 = oracle_convert(frame, dirn, lon, lat, par)
        e1 = sp.sep(sp.unit(*o1), sp.unit(lo1, la1))
        site = site1 if e1 > TOL / 2 else site2
        raise Violation("%s -> (%r, %r) -> back (%r, %r): %.3e deg from the original direction"
                        % (what, lo1, la1, lo2, la2, err), site=site, kind="roundtrip",
                        err=err, first_leg_err=e1)
    labels, nt = dir_labels(case, lo1, la1)
    return {"labels": labels, "nontrivial": nt,
            "show": {"out": [lo1, la1], "back": [lo2, la2], "err_deg": err}}


def body_rotation(case):
    frame, dirn, lon, lat, par = (case["frame"], case["dirn"], case["lon"], case["lat"],
                                  case.get("par"))
    lo1, la1, site = convert(frame, dirn, lon, lat, par)
    what = "%s(%r, %r%s)" % (site.split(".")[1], lon, lat, "" if frame == "gal" else ", %r" % par)
    check_range(frame, lo1, la1, site, what)
    olo, ola = oracle_convert(frame, dirn, lon, lat, par)
    err = sp.sep(sp.unit(olo, ola), sp.unit(lo1, la1))
    if not err <= TOL:
        raise Violation("%s = (%r, %r); the explicit rotation gives (%r, %r), %.3e deg away"
                        % (what, lo1, la1, olo, ola, err), site=site, kind="rotation", err=err)
    labels, nt = dir_labels(case, lo1, la1)
    return {"labels": labels, "nontrivial": nt,
            "show": {"out": [lo1, la1], "oracle": [olo, ola], "err_deg": err}}


def pair_labels(s):
    labels = []
    nt = False
    if s < 1e-7:
        labels.append("sep<1e-7")
    elif s < 1e-3:
        labels.append("sep:1e%d" % int(math.floor(math.log10(s))))
        labels.append("tiny_separation")
        nt = True
    elif s <= 179.0:
        labels.append("sep:mid")
    elif s <= 179.999:
        labels.append("antipodal(179..179.999)")
        nt = True
    else:
        labels.append("sep>179.999")
    return labels, nt


def body_isometry(case):
    frame, dirn, par = case["frame"], case["dirn"], case.get("par")
    (l1, b1), (l2, b2) = case["p"], case["q"]
    s0 = sp.sep_ll(l1, b1, l2, b2)
    o1 = convert(frame, dirn, l1, b1, par)
    o2 = convert(frame, dirn, l2, b2, par)
    site = o1[2]
    check_range(frame, o1[0], o1[1], site, site)
    check_range(frame, o2[0], o2[1], site, site)
    s1 = sp.sep_ll(o1[0], o1[1], o2[0], o2[1])
    if not abs(s1 - s0) <= TOL:
        raise Violation("%s%s: separation of %r and %r is %r before and %r after the conversion "
                        "(changed by %.3e deg)" % (site, "" if frame == "gal" else " par=%r" % par,
                                                   case["p"], case["q"], s0, s1, s1 - s0),
                        site=site, kind="isometry", before=s0, after=s1)
    labels, nt = pair_labels(s0)
    labels.append("%s:%s" % (frame, dirn))
    for (lo, la), (olo, ola, _) in ((case["p"], o1), (case["q"], o2)):
        if abs(la) > 89.0 or abs(ola) > 89.0:
            labels.append("near_pole")
            nt = True
            break
    return {"labels": labels, "nontrivial": nt, "show": {"sep_before": s0, "sep_after": s1}}


def circ(a, b):
    d = math.fmod(a - b, 360.0)
    if d > 180.0:
        d -= 360.0
    elif d < -180.0:
        d += 360.0
    return d


def body_separation(case):
    (l1, b1), (l2, b2) = case["p"], case["q"]
    site = "Coordinates.angular_separation"
    r = angular_separation(Angle(l1), Angle(b1), Angle(l2), Angle(b2))
    if not isinstance(r, Angle):
        raise Violation("angular_separation returned %r" % (r,), site=site, kind="type")
    got = r()
    back = angular_separation(Angle(l2), Angle(b2), Angle(l1), Angle(b1))()
    s0 = sp.sep_ll(l1, b1, l2, b2)
    labels, nt = pair_labels(s0)
    if got != got or not (0.0 <= got <= 180.0):
        raise Violation("angular_separation(%r, %r) = %r outside [0, 180]" % (case["p"], case["q"], got),
                        site=site, kind="range", got=got)
    if not abs(got - back) <= 1e-12:
        raise Violation("angular_separation not symmetric: %r vs %r for %r, %r"
                        % (got, back, case["p"], case["q"]), site=site, kind="symmetry",
                        got=got, swapped=back)
    if 1e-7 <= s0 <= 179.999:
        if not abs(got - s0) <= TOL:
            raise Violation("angular_separation(%r, %r) = %r, dot/cross-product value %r "
                            "(off by %.3e deg)" % (case["p"], case["q"], got, s0, got - s0),
                            site=site, kind="separation", got=got, want=s0, off=got - s0)
    else:
        labels.append("outside_asserted_separation_range")
        nt = False
    if max(abs(b1), abs(b2)) > 89.0:
        labels.append("near_pole")
    if near_seam(l1) != near_seam(l2) or (near_seam(l1) and abs(l1 - l2) > 180):
        labels.append("across_seam")
    return {"labels": labels, "nontrivial": nt, "show": {"got": got, "oracle": s0}}


def pa_forward_error(l1, b1, l2, b2):
    """First-order bound (degrees) on the change of the exact position angle
    P = atan2(y, x), y = cos d1 sin da, x = sin(d1 - d2) + 2 sin d2 cos d1 sin^2(da/2)
    when the radian values an implementation necessarily starts from are off by about one
    rounding: d1, d2 by 2.2e-16 rad, da = alpha1 - alpha2 and d1 - d2 by 3.5e-16 relative
    (degree subtraction + conversion), plus 4 roundings of the arithmetic on the terms.
    It is below 1e-10 deg except within ~1e-3 deg of a pole or beyond ~179.99 deg."""
    d1, d2 = math.radians(b1), math.radians(b2)
    da, dd = math.radians(l1 - l2), math.radians(b1 - b2)
    e1 = 2.2e-16
    ea, ed = 3.5e-16 * abs(da), 3.5e-16 * abs(dd)
    s2 = math.sin(da / 2.0) ** 2
    y = math.cos(d1) * math.sin(da)
    t1, t2 = math.sin(dd), 2.0 * math.sin(d2) * math.cos(d1) * s2
    dy = abs(math.sin(d1) * math.sin(da)) * e1 + abs(math.cos(d1) * math.cos(da)) * ea
    dx = (abs(math.cos(dd)) * ed + 2.0 * abs(math.cos(d2) * math.cos(d1)) * s2 * e1
          + 2.0 * abs(math.sin(d2) * math.sin(d1)) * s2 * e1
          + abs(math.sin(d2) * math.cos(d1) * math.sin(da)) * ea)
    ar = 4.4e-16 * (abs(y) + abs(t1) + abs(t2))
    h = max(math.hypot(t1 + t2, y), 1e-300)
    return math.degrees((dx + dy + ar) / h)


def pa_tolerance(l1, b1, l2, b2, s0):
    return TOL + 3.0 * pa_forward_error(l1, b1, l2, b2)


def body_posangle(case):
    (l1, b1), (l2, b2) = case["p"], case["q"]
    site = "Coordinates.relative_position_angle"
    r = relative_position_angle(Angle(l1), Angle(b1), Angle(l2), Angle(b2))
    if not isinstance(r, Angle):
        raise Violation("relative_position_angle returned %r" % (r,), site=site, kind="type")
    got = r()
    mirror = relative_position_angle(Angle(l2), Angle(b1), Angle(l1), Angle(b2))()
    s0 = sp.sep_ll(l1, b1, l2, b2)
    labels, nt = pair_labels(s0)
    if got != got or not (-360.0 < got < 360.0):
        raise Violation("relative_position_angle = %r" % got, site=site, kind="range", got=got)
    if 1e-7 <= s0 <= 179.999:
        tol = pa_tolerance(l1, b1, l2, b2, s0)
        if tol > 2 * TOL:
            labels.append("posangle_tolerance_widened")
        want = sp.hp_position_angle(l1, b1, l2, b2)
        off = circ(got, want)
        if not abs(off) <= tol:
            raise Violation("relative_position_angle(%r, %r) = %r, north/east-vector value %r "
                            "(off by %.3e deg, tolerance %.2e; separation %r)"
                            % (case["p"], case["q"], got, want, off, tol, s0), site=site,
                            kind="posangle", got=got, want=want, off=off, sep=s0)
        anti = circ(got, -mirror)
        if not abs(anti) <= tol:
            raise Violation("relative_position_angle not antisymmetric under alpha1 <-> alpha2: "
                            "%r and %r for %r, %r" % (got, mirror, case["p"], case["q"]),
                            site=site, kind="antisymmetry", got=got, mirrored=mirror)
    else:
        labels.append("outside_asserted_separation_range")
        nt = False
    if max(abs(b1), abs(b2)) > 89.0:
        labels.append("near_pole")
        nt = nt or (1e-7 <= s0 <= 179.999)
    return {"labels": labels, "nontrivial": nt, "show": {"got": got}}


def body_circle(case):
    pts = case["pts"]
    site = "Coordinates.circle_diameter"
    args = []
    for lo, la in pts:
        args += [Angle(lo), Angle(la)]
    seps = [sp.sep_ll(pts[i][0], pts[i][1], pts[j][0], pts[j][1])
            for i, j in ((0, 1), (0, 2), (1, 2))]
    a = max(seps)
    if any(0.0 < x < 1e-7 for x in seps):
        # the property states separations from 1e-7 deg; mutual separations below that
        # (down to 1e-126 deg, where the side products underflow) are not asserted
        return {"labels": ["separation_below_1e-7_deg"], "refused": "mutual separation below 1e-7 deg: not asserted"}
    r = circle_diameter(*args)
    if not isinstance(r, Angle):
        raise Violation("circle_diameter returned %r" % (r,), site=site, kind="type")
    d = r()
    if a > 5.0:
        return {"labels": ["triple_wider_than_5_deg"], "refused": "triple wider than 5 deg: not asserted"}
    ar = math.radians(a)
    # a-priori forward error of any side-based formula for the circumscribed circle: the factors
    # (a + b - c) ... cancel down to the shortest side, so an error of 1e-14 deg in a side is
    # amplified by longest / shortest side (2e7 for a body 1e-7 deg from another in a 2.5 deg triple)
    short = min(x for x in seps if x > 0.0) if a > 0.0 else 1.0
    slack = TOL + 1e-13 * a * (a / short)
    hi = 2.0 / math.sqrt(3.0) * a * (1.0 + ar * ar / 48.0) + slack
    lo_ = a - slack
    if d != d or not (lo_ <= d <= hi):
        raise Violation("circle_diameter(%r) = %r, not within [max separation %r, 2/sqrt(3) x = %r]"
                        % (pts, d, a, 2.0 / math.sqrt(3.0) * a), site=site, kind="circle",
                        got=d, maxsep=a, seps=seps)
    labels = []
    nt = False
    srt = sorted(seps)
    if srt[0] == 0.0:
        labels.append("coincident_bodies")
        nt = True
    if a > 0 and abs(srt[0] + srt[1] - srt[2]) < 1e-6 * a:
        labels.append("collinear")
        nt = True
    if a > 0 and srt[0] > a * (1 - 1e-6):
        labels.append("equilateral")
        nt = True
    if a > 0 and d > a * (1 + 1e-9):
        labels.append("acute(circumscribed)")
    else:
        labels.append("obtuse(diameter=longest_side)")
    if a < 1e-3:
        labels.append("tiny_triple")
        nt = True
    if any(abs(p[1]) > 89.0 for p in pts):
        labels.append("near_pole")
        nt = True
    if any(near_seam(p[0]) for p in pts):
        labels.append("seam")
        nt = True
    return {"labels": labels or ["plain"], "nontrivial": nt,
            "show": {"diameter": d, "max_sep": a}}


CLAUSES = {"roundtrip": body_roundtrip, "rotation": body_rotation, "isometry": body_isometry,
           "separation": body_separation, "posangle": body_posangle, "circle": body_circle}


# ----------------------------------------------------------------------- strategies

def lon_fix(lon):
    lon = float(lon)
    if lon >= 360.0 or lon < 0.0:
        lon = 0.0
    return lon


def points():
    """(lon, lat): shared sphere generator plus exact poles and more seam variety."""
    extra = st.tuples(st.sampled_from([0.0, 90.0, 180.0, 270.0, 359.99999999999994, 1e-300,
                                       45.0, 12.25, 192.25, 282.25, 123.0, 303.0, 33.0]),
                      st.sampled_from([90.0, -90.0, 0.0, -0.0, 89.99999999999999,
                                       -89.99999999999999, 62.6, 27.4, -27.4, 45.0]))
    polar = st.tuples(st.floats(0, 360, exclude_max=True), S.log_uniform(1e-13, 1.0),
                      st.sampled_from([1, -1])).map(lambda t: (t[0], t[2] * (90.0 - t[1])))
    return st.one_of(S.sphere_points(), S.sphere_points(), extra, polar).map(
        lambda p: (lon_fix(p[0]), min(90.0, max(-90.0, float(p[1])))))


def obliquities():
    return st.one_of(st.floats(0, 30), st.floats(22, 25),
                     st.sampled_from([0.0, 30.0, 23.4392911, 1e-9, 1e-6, 30 - 1e-9, 1e-12,
                                      23.43929111111111, 5e-324, 29.999999999999996]))


def observer_latitudes():
    return st.one_of(st.floats(-90, 90), st.floats(-90, 90),
                     st.sampled_from([90.0, -90.0, 0.0, -0.0, 90 - 1e-9, -90 + 1e-9, 1e-9,
                                      -1e-9, 89.99999999999999, -89.99999999999999,
                                      38.92138888888889, 1e-12, 45.0, -45.0]))


FRAME_CHOICE = ["ecl", "ecl", "hor", "hor", "gal"]
# (no flatmap anywhere: every component is drawn independently and combined by a pure
# function, which keeps Hypothesis' per-example overhead low)


def _place(frame, dirn, where, pt, par):
    """A generated point lives in the input frame, or in the output frame and is carried
    back with the oracle matrix (to reach the poles and the seam of the output frame)."""
    lon, lat = pt
    if where == "out":
        lon, lat = oracle_convert(frame, other(dirn), lon, lat, par)
        lon = lon_fix(lon)
    return lon, lat


def _par(frame, eps, phi):
    return eps if frame == "ecl" else (phi if frame == "hor" else None)


def dir_cases():
    def mk(frame, dirn, where, pt, eps, phi):
        par = _par(frame, eps, phi)
        lon, lat = _place(frame, dirn, where, pt, par)
        c = {"frame": frame, "dirn": dirn, "lon": lon, "lat": lat}
        if frame != "gal":
            c["par"] = par
        return c
    return st.builds(mk, st.sampled_from(FRAME_CHOICE), st.sampled_from(["fwd", "inv"]),
                     st.sampled_from(["in", "in", "out"]), points(), obliquities(),
                     observer_latitudes())


def distances():
    return st.one_of(
        S.log_uniform(1e-7, 1e-3), S.log_uniform(1e-7, 1e-3),
        S.log_uniform(1e-3, 1.0),
        st.floats(1.0, 179.0),
        S.log_uniform(1e-3, 1.0).map(lambda x: 180.0 - x),
        S.log_uniform(1e-3, 1.0).map(lambda x: 180.0 - x),
        st.sampled_from([1e-7, 1.0000001e-7, 2e-7, 179.999, 179.9989, 179.99, 90.0, 1e-3, 1e-5]),
        # outside the asserted range (symmetry only)
        st.sampled_from([0.0, 1e-9, 1e-12, 5e-8, 180.0, 179.9999, 179.99999999]),
    )


def bearings():
    return st.one_of(st.floats(0, 360), st.sampled_from([0.0, 90.0, 180.0, 270.0]))


def _clip(q):
    return (lon_fix(q[0]), min(90.0, max(-90.0, float(q[1]))))


def _partner(p, kind, d, b, q):
    lon, lat = p
    if kind == "offset":
        return _clip(sp.offset(lon, lat, d, b))
    if kind == "independent":
        return q
    if kind == "same_parallel":
        return _clip(((lon + (d if b < 180.0 else b)) % 360.0, lat))
    # same meridian
    d = min(d, 179.0)
    return _clip((lon, lat - d if lat - d >= -90.0 else lat + d))


PARTNER_KINDS = ["offset"] * 5 + ["independent", "same_parallel", "same_meridian"]


def pair_cases():
    def mk(p, kind, d, b, q, swap):
        r = _partner(p, kind, d, b, q)
        return {"p": list(r), "q": list(p)} if swap else {"p": list(p), "q": list(r)}
    return st.builds(mk, points(), st.sampled_from(PARTNER_KINDS), distances(), bearings(),
                     points(), st.booleans())


def iso_cases():
    def mk(frame, dirn, where, p, kind, d, b, q, eps, phi):
        par = _par(frame, eps, phi)
        r = _partner(p, kind, d, b, q)
        a = _place(frame, dirn, where, p, par)
        bb = _place(frame, dirn, where, r, par)
        c = {"frame": frame, "dirn": dirn, "p": list(a), "q": list(bb)}
        if frame != "gal":
            c["par"] = par
        return c
    return st.builds(mk, st.sampled_from(FRAME_CHOICE), st.sampled_from(["fwd", "inv"]),
                     st.sampled_from(["in", "in", "out"]), points(),
                     st.sampled_from(PARTNER_KINDS), distances(), bearings(), points(),
                     obliquities(), observer_latitudes())


def circle_cases():
    dist = st.one_of(st.floats(0, 2.5), S.log_uniform(1e-6, 2.5), st.sampled_from([0.0, 1.0, 2.5]))

    def mk(c, shape, d1, b1, d2, b2, d3, b3, perm):
        off = lambda d, b: sp.offset(c[0], c[1], d, b)
        if shape == "general":
            pts = [off(d1, b1), off(d2, b2), off(d3, b3)]
        elif shape == "equilateral":
            pts = [off(d1, b1 + k) for k in (0.0, 120.0, 240.0)]
        elif shape == "collinear":
            pts = [off(d1, b1), off(d2, b1), off(d3, b1 + 180.0)]
        elif shape == "two_same":
            p = off(d1, b1)
            pts = [p, off(d2, b2), p]
        else:
            pts = [c, c, c]
        pts = [list(_clip(p)) for p in pts]
        return {"pts": [pts[i] for i in perm]}
    return st.builds(mk, points(),
                     st.sampled_from(["general"] * 5 + ["equilateral", "collinear", "collinear",
                                                        "two_same", "all_same"]),
                     dist, bearings(), dist, bearings(), dist, bearings(),
                     st.permutations([0, 1, 2]))


STRATS = {"roundtrip": dir_cases, "rotation": dir_cases, "isometry": iso_cases,
          "separation": pair_cases, "posangle": pair_cases, "circle": circle_cases}


def tasks(tier, seed):
    quick = tier == "quick"
    plan = {"roundtrip": (5, 5000), "rotation": (3, 5000), "isometry": (3, 4000),
            "separation": (4, 5000), "posangle": (4, 3500), "circle": (2, 4000)}
    out = []
    for clause, (shards, n) in plan.items():
        if quick:
            for sh in range(shards):
                out.append(Task("t_given", clause=clause, shard=sh, n=n))
        else:
            for sh in range(shards * 3):
                out.append(Task("t_given", clause=clause, shard=sh, n=n * 10))
    return out


def t_given(rec, clause, shard, n):
    rec.given(clause, STRATS[clause](), n, shard=shard)
