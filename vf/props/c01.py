"""C01 - calendar date <-> Julian Day is an exact bijection on civil days.

Exhaustive enumeration of the civil calendar against the integer oracle
(vf/oracles/calendar.py).  One *case* is one civil year; its body checks every day of
that year in three month spellings plus the rejected day numbers of every month.
"""
import datetime

from pymeeus.Epoch import Epoch

from ..core import Violation, Task
from ..oracles import calendar as cal

PROPERTY = "C01"
LEVEL = "exploration"
EXHAUSTIVE = {"quick": True, "thorough": True}
MANIFEST = {
    "level_text": "Exhaustive enumeration of the finite domain: every civil day of years -4712..6000 in three month spellings plus the rejected day numbers of every month, against an independent integer calendar. For this finite domain the property is decided completely for the tree it ran on.",
    "level_note": "Trusts the integer-calendar oracle (self-tested against datetime.date and literal anchors on every run). Days 5-14 Oct 1582 are not asserted either way.",
    "technique": "exhaustive generated-input enumeration vs integer reference calendar (differential oracle)",
}
RULE = ("Enumeration, no sampling inside a year: one case per civil year in -4712..6000 "
        "(both tiers enumerate all 10713 years, about 10 s on 16 cores; the thorough "
        "tier additionally builds every day with a fractional day and with h/m/s). For each year every existing civil "
        "day is built as Epoch(y, m, d) with m numeric, short name and long name (letter "
        "case rotated), compared with the integer-calendar JDN-0.5 exactly, read back "
        "with get_date(), and day 0 and day len+1 of every month must raise ValueError. "
        "Every day is also given the other way round - its Julian Day number as a float at 0h (and "
        "as an int at noon on every other day) must decode to the date and keep its value - and, "
        "for years 1..9999, as a datetime.date object; is_julian() and julian() must name the calendar "
        "in force on every day. "
        "Every enumerated (date, spelling) is distinct by construction and counts as "
        "non-trivial (nothing is repeated); distinct_nontrivial is the number of "
        "(date, spelling) pairs plus rejected day numbers enumerated.")
ASSUMPTIONS = [
    "oracle: integer Julian Day Number (floor-division arithmetic), self-tested at start "
    "against datetime.date.toordinal() for 1583-9999 and against literal anchors",
    "days 5-14 October 1582 are not asserted either way (the property does not say they "
    "are refused)",
]

BOUNDARY_YEARS = [-4712, -4711, -4710, -4709, -4708, -1001, -1000, -401, -400, -101,
                  -100, -5, -4, -3, -2, -1, 0, 1, 2, 3, 4, 5, 99, 100, 101, 400, 1000,
                  1500, 1580, 1581, 1582, 1583, 1584, 1600, 1700, 1800, 1858, 1900,
                  1999, 2000, 2001, 2100, 2400, 4000, 5999, 6000]


def self_test():
    cal.self_test()


def _spell(m, form, k):
    if form == 0:
        return m
    s = cal.SHORT[m - 1] if form == 1 else cal.LONG[m - 1]
    r = k % 3
    return s if r == 0 else (s.upper() if r == 1 else s.lower())


def body_year(case):
    y = case["year"]
    n = 0
    labels = {}

    def lab(k, c=1):
        labels[k] = labels.get(k, 0) + c

    prev = None
    if y > -4712:
        # last civil day of the previous year, for the consecutive-days clause
        prev = Epoch(y - 1, 12, 31).jde()
    k = y
    for m in range(1, 13):
        L = cal.month_len(y, m)
        for d in range(1, L + 1):
            if y == 1582 and m == 10 and 5 <= d <= 14:
                continue
            ref = cal.jdn(y, m, d) - 0.5
            for form in (0, 1, 2):
                k += 1
                mm = _spell(m, form, k)
                try:
                    e = Epoch(y, mm, d)
                except Exception as ex:
                    raise Violation("Epoch(%r, %r, %r) raised %r" % (y, mm, d, ex),
                                    site="Epoch.__init__", kind="exception:" + type(ex).__name__,
                                    date=[y, m, d], form=form)
                j = e.jde()
                if j != ref:
                    raise Violation("Epoch(%r, %r, %r).jde() = %r, integer calendar says %r"
                                    % (y, mm, d, j, ref), site="Epoch._compute_jde",
                                    kind="jde", date=[y, m, d], form=form, got=j, want=ref)
                g = e.get_date()
                if tuple(g) != (y, m, float(d)) or not isinstance(g[0], int) \
                        or not isinstance(g[1], int):
                    raise Violation("Epoch(%r, %r, %r).get_date() = %r" % (y, mm, d, g),
                                    site="Epoch.get_date", kind="readback",
                                    date=[y, m, d], form=form, got=list(g))
                n += 1
            # the other direction on its own: the day's Julian Day number given as a number
            # (0h as a float; noon as an int on every other day) decodes to this date and keeps
            # its value
            for jd_in, frac in (((ref, 0.0),) if (d + m) % 2 else ((ref, 0.0), (int(ref + 0.5), 0.5))):
                en = Epoch(jd_in)
                gn = en.get_date()
                if tuple(gn) != (y, m, d + frac) or en.jde() != jd_in:
                    raise Violation("Epoch(%r) has jde() = %r and get_date() = %r; the integer calendar "
                                    "says %r" % (jd_in, en.jde(), gn, (y, m, d + frac)),
                                    site="Epoch.set", kind="from_jd", date=[y, m, d], jd=jd_in,
                                    got=list(gn))
                n += 1
            # the library's own statement of the calendar in force on that day
            want_jul = (y, m, d) < (1582, 10, 15)
            for what, got_jul in (("Epoch.is_julian(%d, %d, %d)" % (y, m, d), Epoch.is_julian(y, m, d)),
                                  ("Epoch(%r).julian()" % (jd_in,), en.julian()),
                                  ("Epoch(%d, %d, %d).julian()" % (y, m, d), e.julian())):
                if got_jul is not want_jul:
                    raise Violation("%s = %r; the Julian calendar runs through 4 October 1582, the "
                                    "Gregorian one from 15 October 1582" % (what, got_jul),
                                    site="Epoch.julian", kind="calendar_in_force", date=[y, m, d])
            n += 1
            if 1 <= y <= 9999 and not (m == 2 and d == 29 and y % 100 == 0 and y % 400 != 0):
                # datetime.date is a documented input form: its fields are the civil date
                # (in the calendar in force, as for three numbers); 29 February of a Julian
                # century year cannot be written as a date object
                ed = Epoch(datetime.date(y, m, d))
                if ed.jde() != ref:
                    raise Violation("Epoch(datetime.date(%d, %d, %d)).jde() = %r, integer calendar says %r"
                                    % (y, m, d, ed.jde(), ref), site="Epoch.set", kind="jde_from_date_object",
                                    date=[y, m, d], got=ed.jde(), want=ref)
                n += 1
            if case.get("deep"):
                # thorough tier: the same civil day given with a day fraction and with h/m/s
                for e2, what in ((Epoch(y, m, d + 0.5), "d+0.5"), (Epoch(y, m, d, 12), "12h"),
                                 (Epoch(y, m, d, 6, 0, 0.0), "6h0m0s")):
                    want = ref + (0.25 if what == "6h0m0s" else 0.5)
                    if e2.jde() != want:
                        raise Violation("Epoch(%r, %r, %r, %s).jde() = %r, want %r" % (y, m, d, what, e2.jde(), want),
                                        site="Epoch._compute_jde", kind="jde_fraction", date=[y, m, d])
                    g2 = e2.get_date()
                    if (g2[0], g2[1], int(g2[2])) != (y, m, d):
                        raise Violation("Epoch(%r, %r, %r, %s).get_date() = %r" % (y, m, d, what, g2),
                                        site="Epoch.get_date", kind="readback_fraction", date=[y, m, d])
                    n += 1
            if prev is not None and j - prev != 1.0:
                raise Violation("consecutive civil days %r and the day before are %r JD apart"
                                % ((y, m, d), j - prev), site="Epoch._compute_jde",
                                kind="consecutive", date=[y, m, d], gap=j - prev)
            prev = j
            eg = "Epoch(%d, %r, %d).jde() == %r" % (y, mm, d, j)
            if m == 2 and d == 29:
                lab("leap_day")
            if d == L:
                lab("month_end")
                # other calendar queries on the same date are interleaved with the constructions
                # (day of year, fractional year): they must leave nothing behind that changes
                # which day numbers the next constructions accept
                Epoch.get_doy(y, m, d), e.doy(), e.leap()
        # rejected day numbers (for February after a day-of-year query on a *leap* year: whatever
        # that query leaves behind must not make 29 February acceptable here)
        if m == 2:
            ly = next(yy for yy in range(max(y, -4708), y + 9) if cal.is_leap(yy))
            Epoch.get_doy(ly, 3, 1)
        for d in (0, L + 1, -1, L + 2):
            if y == 1582 and m == 10:
                pass
            k += 1
            mm = _spell(m, k % 3, k)
            try:
                e = Epoch(y, mm, d)
            except ValueError:
                n += 1
                lab("rejected_day")
                continue
            except Exception as ex:
                raise Violation("Epoch(%r, %r, %r) raised %s instead of ValueError"
                                % (y, mm, d, type(ex).__name__), site="Epoch._check_values",
                                kind="wrong_exception", date=[y, m, d])
            raise Violation("Epoch(%r, %r, %r) was accepted (jde %r); month has %d days"
                            % (y, mm, d, e.jde(), L), site="Epoch._check_values",
                            kind="accepted_invalid_day", date=[y, m, d])
    if y % 100 == 0:
        lab("century_year")
    if y < 0:
        lab("negative_year")
    if y == 1582:
        lab("reform_year")
    if cal.is_leap(y):
        lab("leap_year")
    lab("years")
    return {"n": n, "nt": n, "labels": labels,
            "show": {"days_x_spellings_plus_rejections": n,
                     "e.g.": eg}}


def body_anchors(case):
    checks = [
        (Epoch(-4712, 1, 1.5).jde(), 0.0, "-4712-01-01 12h"),
        (Epoch(-4712, 1, 1, 12).jde(), 0.0, "-4712-01-01 12h (h)"),
        (Epoch(1858, 11, 17).mjd(), 0.0, "MJD 1858-11-17 0h"),
        (Epoch(2000, 1, 1.5).jde(), 2451545.0, "2000-01-01 12h"),
        (Epoch(2000, 1, 1, 12).jde(), 2451545.0, "2000-01-01 12h (h)"),
        (Epoch(1582, 10, 15).jde() - Epoch(1582, 10, 4).jde(), 1.0, "reform gap"),
    ]
    for got, want, what in checks:
        if got != want:
            raise Violation("%s: got %r, want %r" % (what, got, want), site="Epoch",
                            kind="anchor", what=what)
    try:
        Epoch(-4713, 12, 31)
    except ValueError:
        pass
    else:
        raise Violation("year -4713 accepted", site="Epoch._check_values", kind="anchor")
    return {"n": len(checks) + 1, "nt": len(checks) + 1, "labels": ["anchors"]}


CLAUSES = {"year": body_year, "anchors": body_anchors}


def years_for(tier, seed):
    if tier in ("thorough", "quick"):
        return list(range(-4712, 6001))
    ys = set(BOUNDARY_YEARS)
    ys.update(range(-4700, 6001, 100))
    rot = seed % 16
    ys.update(y for y in range(-4712, 6001) if (y + 4712) % 16 == rot)
    return sorted(ys)


def tasks(tier, seed):
    ys = years_for(tier, seed)
    nsh = 16 if tier == "quick" else 64
    out = [Task("t_years", years=ys[i::nsh], deep=(tier == "thorough")) for i in range(nsh)]
    out.append(Task("t_anchors"))
    return out


def t_years(rec, years, deep=False):
    for y in years:
        rec.case("year", {"year": y, "deep": True} if deep else {"year": y})


def t_anchors(rec):
    rec.case("anchors", {"anchors": 1})
