"""C15 - Moon position is physical; lunar event finders agree with it.

Clauses
  position  distance 356000-407000 km, |latitude| <= 5.35, parallax = asin(6378.14/distance)
            (1e-9 deg), longitude advance 11.5-15.6 deg in one day.
  illum     illuminated fraction in [0, 1] and within 0.01 of (1 + cos i)/2, i from the
            Sun-Earth-Moon triangle (library apparent positions of Moon and Sun, vectors).
  secular   mean node and mean perigee longitudes: 30-day differences equal
            -0.0529539 and +0.1114041 deg/d within 1 %.
  event     one finder x target at one query: the returned instant satisfies the event
            condition on the library's own positions (phase 0.06 deg; distance extremal
            within 0.25 d and parallax 0.001 deg; |latitude| <= 0.02 deg with the right
            crossing direction; declination extremal within 0.25 d and reported value within
            0.15 deg) and lies within 1.6 months of the query.
  sweep     a walk of queries (generated start, step 0.5-3 d, 40 steps) through one finder
            x target: results never move backwards, consecutive distinct results are one
            month of the proper kind apart, each within 1.6 months of its query.
  dates     the same walk over every civil day of a year built as Epoch(y, m, d) (the date
            route), Julian and Gregorian years, century leap days included.
"""
import math

from hypothesis import strategies as st

from pymeeus.Epoch import Epoch
from pymeeus.Moon import Moon
from pymeeus.Sun import Sun

from ..core import Violation, Task
from .. import strategies as S
from ..oracles import calendar as cal
from ..oracles import events_moon as em

PROPERTY = "C15"
LEVEL = "exploration"
MANIFEST = {
    "level_text": "Randomised search (Hypothesis) over epochs -2000..4000 for the position clauses and over every finder x target string for the event clauses, generated walks of queries for ordering / no-skip, and day-by-day walks over whole civil years (century leap days of the Julian calendar included). Finds violations; does not prove absence.",
    "level_note": "The lunar and solar positions are the library's own (the property asks for agreement with them); event conditions are decided by finite differences and sign changes on those positions; the Sun-Earth-Moon triangle is built from vectors by the harness. Month-length windows are stated in the assumptions.",
    "technique": "property-based testing with query walks; event verification by sign changes / finite differences on the library's positions",
}
RULE = ("position / illum / secular: Hypothesis epochs (fractional years -2000..4000, era ends "
        "and 1900-2100 over-weighted).  event: Hypothesis (finder, target, query) with the query "
        "either a fractional year in -2000..4000 or a civil date built as Epoch(y, m, d) "
        "(leap days, 28 Feb / 1 Mar, 31 Dec / 1 Jan, Julian century years such as 100, 500, "
        "1000, 1500 over-weighted); all 10 finder x target pairs.  sweep: Hypothesis start epoch "
        "and step (0.5-3 d), 40 queries.  dates: enumeration of (civil year, finder, target): "
        "every day of the year in order; quick: the edge and century years plus a seed-rotated "
        "sample, thorough: 10x more years.  Non-trivial: |year - 2000| > 1000, or a query on / "
        "next to a leap day, or a walk step across a change of the event returned (change of "
        "the lunation count k); distinct = distinct case (walk steps are distinct by "
        "construction)."
        " Target strings are run-time-built (not the interned literal) for half of the queries. defaults: Hypothesis (epoch, order of 2-5 finder calls with the target left out) compared with the default target spelled out. One walk in six starts within 110 d before / 20 d after J2000 so that it straddles the reference epochs (k = 0) of the series; the daily walks include 1999 and 2000.")
ASSUMPTIONS = [
    "one 'month' in the 1.6-month clause is the mean month of the finder: synodic 29.530589 d "
    "(phases), anomalistic 27.554550 d (perigee/apogee), draconic 27.212221 d (nodes), tropical "
    "27.321582 d (declination)",
    "natural variation of the month between consecutive results: phases 29.0-30.1 d (literature "
    "29.27-29.83 new to new; quarters 29.17-29.94 on the library's theory), perigee to perigee "
    "24.3-28.9 d (literature 24.63-28.57), apogee to apogee 26.6-28.3 d (26.98-27.90), node "
    "passages 26.7-27.8 d (27.00-27.48 observed), extreme declinations 26.9-27.85 d (27.20-27.53 "
    "observed); a skipped or repeated month is far outside every window",
    "'extremal within 0.25 d': the time derivative (central difference, h = 0.01 d) of the "
    "library's distance / apparent declination has opposite signs of the right sense at the "
    "returned instant -0.25 d and +0.25 d",
    "phase: apparent longitude of the Moon (apparent_ecliptical_pos) minus apparent longitude of "
    "the Sun (Sun.apparent_geocentric_position)",
    "secular rates are asserted for longitude_mean_ascending_node and longitude_mean_perigee "
    "(the true node oscillates by +-1.9 deg around the mean one)",
    "daily motion: geocentric_ecliptical_pos longitude one day later minus now, modulo 360",
    "sensitivity (mutants/C15.json, applied on top of fixes_proposed/C15-lunar-finders-lunation-count.diff, "
    "quick tier): 19 of 21 caught; missed: 385000.56 -> 385000.65 (90 m, below every stated tolerance) "
    "and taking the southern-declination count from the northern epoch (result up to one month from "
    "the query, which the 1.6-month clause allows)",
]

FINDERS = {
    "moon_phase": (["new", "first", "full", "last"], em.SYNODIC, (29.0, 30.1)),
    "moon_perigee_apogee": (["perigee", "apogee"], em.ANOMALISTIC, (24.3, 28.9)),
    "moon_passage_nodes": (["ascending", "descending"], em.DRACONIC, (26.7, 27.8)),
    "moon_maximum_declination": (["northern", "southern"], em.TROPICAL, (26.9, 27.85)),
}
APOGEE_WINDOW = (26.6, 28.3)
PAIRS = [(f, t) for f in ("moon_phase", "moon_perigee_apogee", "moon_passage_nodes",
                          "moon_maximum_declination") for t in FINDERS[f][0]]


def self_test():
    em.self_test()
    cal.self_test()


def _window(finder, target):
    if target == "apogee":
        return APOGEE_WINDOW
    return FINDERS[finder][2]


# ------------------------------------------------------------------------ library access

def _dist(j):
    return Moon.geocentric_ecliptical_pos(Epoch(j))[2]


def _lat(j):
    return float(Moon.geocentric_ecliptical_pos(Epoch(j))[1])


_STEPPER = Epoch(2451545.0)


def _decl(j):
    # every other evaluation moves one long-lived Epoch object to the instant with set() (a
    # caller's loop variable) instead of building a new one
    if int(j * 4.0) % 2:
        _STEPPER.set(j)
        return float(Moon.apparent_equatorial_pos(_STEPPER)[1])
    return float(Moon.apparent_equatorial_pos(Epoch(j))[1])


def call_finder(finder, target, epoch):
    """(instant as JDE, reported extra value or None)."""
    site = "Moon." + finder
    if int(epoch.jde() * 8.0) % 2:
        # a target built at run time (read from a file, joined, lower-cased): equal to the
        # documented value, not the same object as any literal in the library
        target = "".join(list(target))
    res = getattr(Moon, finder)(epoch, target)
    extra = None
    if finder in ("moon_perigee_apogee", "moon_maximum_declination"):
        if not (isinstance(res, tuple) and len(res) == 2):
            raise Violation("%s(%r) returned %r" % (site, target, res), site=site, kind="type")
        res, extra = res
        extra = float(extra)
    if not isinstance(res, Epoch):
        raise Violation("%s(%r) returned %r, not an Epoch" % (site, target, type(res)),
                        site=site, kind="type")
    t = res.jde()
    if not isinstance(t, float) or math.isnan(t) or math.isinf(t):
        raise Violation("%s(%r) returned JDE %r" % (site, target, t), site=site, kind="type")
    return t, extra


def check_near(finder, target, q, t, year):
    per = FINDERS[finder][1]
    dq = (t - q) / per
    if not abs(dq) <= 1.6:
        raise Violation("Moon.%s(%r) for the query JDE %.4f (year %.1f) returned JDE %.4f, "
                        "%.3f months away (within 1.6 months expected)"
                        % (finder, target, q, year, t, dq), site="Moon." + finder,
                        kind="far_from_query", finder=finder, target=target, dq=dq, year=year)
    return dq


def _year_of(j):
    return 2000.0 + (j - 2451545.0) / 365.25


# ------------------------------------------------------------------------ position clauses

def body_position(case):
    j = case["jde"]
    e = Epoch(j)
    lon, lat, dist, par = Moon.geocentric_ecliptical_pos(e)
    site = "Moon.geocentric_ecliptical_pos"
    lon, lat, par = float(lon), float(lat), float(par)
    if not (356000.0 <= dist <= 407000.0):
        raise Violation("Moon distance %.1f km at JDE %.4f outside 356000-407000" % (dist, j),
                        site=site, kind="distance", jde=j, dist=dist)
    if not abs(lat) <= 5.35:
        raise Violation("Moon latitude %.4f deg at JDE %.4f beyond 5.35" % (lat, j),
                        site=site, kind="latitude", jde=j, lat=lat)
    want = math.degrees(math.asin(em.EARTH_RADIUS_KM / dist))
    if not abs(par - want) <= 1e-9:
        raise Violation("Moon parallax %.12f deg at JDE %.4f, asin(6378.14/%.3f) = %.12f"
                        % (par, j, dist, want), site=site, kind="parallax", jde=j,
                        got=par, want=want)
    lon2 = float(Moon.geocentric_ecliptical_pos(Epoch(j + 1.0))[0])
    adv = (lon2 - lon) % 360.0
    if not (11.5 <= adv <= 15.6):
        raise Violation("Moon longitude advances %.4f deg from JDE %.4f to one day later "
                        "(11.5-15.6 expected)" % (adv, j), site=site, kind="daily_motion",
                        jde=j, advance=adv)
    # the apparent variants carry the same distance and parallax
    for fn in ("apparent_ecliptical_pos", "apparent_equatorial_pos"):
        r = getattr(Moon, fn)(e)
        if r[2] != dist or abs(float(r[3]) - want) > 1e-9:
            raise Violation("Moon.%s at JDE %.4f: distance %r / parallax %r disagree with "
                            "geocentric_ecliptical_pos (%r, %r)" % (fn, j, r[2], float(r[3]), dist, par),
                            site="Moon." + fn, kind="parallax", jde=j)
    y = _year_of(j)
    labels = ["pos_era:" + _era(y)]
    if dist < 357500.0:
        labels.append("pos_close_perigee(<357500km)")
    if dist > 406300.0:
        labels.append("pos_far_apogee(>406300km)")
    if abs(lat) > 5.25:
        labels.append("pos_extreme_latitude(>5.25)")
    if adv < 11.9 or adv > 15.2:
        labels.append("pos_extreme_daily_motion")
    return {"labels": labels, "nontrivial": abs(y - 2000.0) > 1000.0,
            "show": {"dist_km": dist, "lat": lat, "advance_deg": adv}}


def _era(y):
    if y < -1000:
        return "-2000..-1000"
    if y < 0:
        return "-1000..0"
    if y < 1000:
        return "0..1000"
    if y < 1583:
        return "1000..1582"
    if y < 2200:
        return "1583..2200"
    if y < 3000:
        return "2200..3000"
    return "3000..4000"


def body_illum(case):
    j = case["jde"]
    e = Epoch(j)
    k = Moon.illuminated_fraction_disk(e)
    site = "Moon.illuminated_fraction_disk"
    if not isinstance(k, float) or not (0.0 <= k <= 1.0):
        raise Violation("illuminated fraction %r at JDE %.4f outside [0, 1]" % (k, j),
                        site=site, kind="range", jde=j)
    ml, mb, md, _ = Moon.apparent_ecliptical_pos(e)
    sl, sb, sr = Sun.apparent_geocentric_position(e)
    i = em.phase_angle(float(ml), float(mb), md, float(sl), float(sb), sr)
    want = (1.0 + math.cos(math.radians(i))) / 2.0
    if not abs(k - want) <= 0.01:
        raise Violation("illuminated fraction %.5f at JDE %.4f; (1 + cos i)/2 = %.5f from the "
                        "Sun-Earth-Moon triangle (i = %.3f deg)" % (k, j, want, i),
                        site=site, kind="geometry", jde=j, got=k, want=want)
    y = _year_of(j)
    labels = ["illum_era:" + _era(y)]
    if want < 0.02:
        labels.append("illum_near_new")
    if want > 0.98:
        labels.append("illum_near_full")
    if abs(k - want) > 0.005:
        labels.append("illum_diff>0.005")
    return {"labels": labels, "nontrivial": abs(y - 2000.0) > 1000.0,
            "show": {"k": k, "geometry": want}}


def _NODE_POLY(T):
    return 125.0445479 + T * (-1934.1362891 + T * (0.0020754 + T * (1.0 / 467441.0 - T / 60616000.0)))


def _PERIGEE_POLY(T):
    return 83.3532465 + T * (4069.0137287 + T * (-0.0103200 + T * (-1.0 / 80053.0 + T / 18999000.0)))


def body_secular(case):
    j = case["jde"]
    out = {}
    for name, fn, rate in (("node", Moon.longitude_mean_ascending_node, -0.0529539),
                           ("perigee", Moon.longitude_mean_perigee, 0.1114041)):
        a = float(fn(Epoch(j)))
        b = float(fn(Epoch(j + 30.0)))
        got = em.wrap180(b - a) / 30.0
        out[name] = got
        if not abs(got - rate) <= 0.01 * abs(rate):
            raise Violation("mean %s longitude moves %.7f deg/d between JDE %.3f and 30 d later "
                            "(%.7f +- 1%% expected)" % (name, got, j, rate),
                            site="Moon.longitude_mean_" + ("ascending_node" if name == "node" else "perigee"),
                            kind="secular_rate", jde=j, got=got, want=rate)
    # the published secular polynomials (Chapront ELP2000-82 as quoted by Meeus, chapter 47; the
    # older IAU 1980 node polynomial stays within 0.003 deg of it over -2000..4000): longitude to
    # 0.01 deg, motion over 30 d to 1e-4 of itself
    T = (j - 2451545.0) / 36525.0
    T2 = (j + 30.0 - 2451545.0) / 36525.0
    for name, fn, poly in (("node", Moon.longitude_mean_ascending_node, _NODE_POLY),
                           ("perigee", Moon.longitude_mean_perigee, _PERIGEE_POLY)):
        a = float(fn(Epoch(j)))
        site = "Moon.longitude_mean_" + ("ascending_node" if name == "node" else "perigee")
        off = em.wrap180(a - poly(T))
        if not abs(off) <= 0.01:
            raise Violation("mean %s longitude at JDE %.3f is %.6f deg, the published secular polynomial "
                            "gives %.6f (off %.4f deg)" % (name, j, a, poly(T) % 360.0, off),
                            site=site, kind="secular_longitude", jde=j, off=off)
        want = em.wrap180(poly(T2) - poly(T)) / 30.0
        if not abs(out[name] - want) <= 1e-4 * abs(want):
            raise Violation("mean %s longitude moves %.8f deg/d between JDE %.3f and 30 d later; the "
                            "published secular polynomial moves %.8f deg/d there" % (name, out[name], j, want),
                            site=site, kind="secular_rate_of_date", jde=j, got=out[name], want=want)
    y = _year_of(j)
    a = float(Moon.longitude_mean_ascending_node(Epoch(j)))
    labels = ["secular_era:" + _era(y)]
    if a < 2.0 or a > 358.0:
        labels.append("secular_node_near_seam")
    return {"labels": labels, "nontrivial": abs(y - 2000.0) > 1000.0, "show": out}


# ------------------------------------------------------------------------ event clause

def build_query(q):
    """Epoch of a query and its label set."""
    labels = []
    if "date" in q:
        y, m, d = q["date"]
        e = Epoch(y, m, d)
        labels.append("query_as_date")
        if m == 2 and d == 29:
            labels.append("query_leap_day")
            if y % 100 == 0 and y % 400 != 0:
                labels.append("query_julian_century_leap_day")
        elif (m, d) in ((2, 28), (3, 1)) and cal.is_leap(y):
            labels.append("query_next_to_leap_day")
        elif (m, d) in ((12, 31), (1, 1)):
            labels.append("query_year_boundary")
        if y <= 1582:
            labels.append("query_julian_calendar")
    else:
        e = Epoch(q["jde"])
        labels.append("query_as_jde")
    return e, labels


def body_event(case):
    finder, target = case["finder"], case["target"]
    e, labels = build_query(case["q"])
    q = e.jde()
    year = _year_of(q)
    site = "Moon." + finder
    t, extra = call_finder(finder, target, e)
    labels.append("%s:%s" % (finder, target))
    labels.append("event_era:" + _era(year))
    show = {}
    if finder == "moon_phase":
        idx = ["new", "first", "full", "last"].index(target)
        te = Epoch(t)
        ml = float(Moon.apparent_ecliptical_pos(te)[0])
        sl = float(Sun.apparent_geocentric_position(te)[0])
        d = em.wrap180(ml - sl - 90.0 * idx)
        show["elongation_error_deg"] = d
        if not abs(d) <= 0.06:
            raise Violation("moon_phase(%r) for query JDE %.4f returned JDE %.5f where the Moon-Sun "
                            "apparent longitude difference is %.4f deg from %d"
                            % (target, q, t, d, 90 * idx), site=site, kind="phase_angle",
                            target=target, off=d, year=year)
    elif finder == "moon_perigee_apogee":
        kind = "min" if target == "perigee" else "max"
        ok, d0, d1 = em.extremum_in_window(_dist, t, 0.25, kind)
        if not ok:
            z = em.locate_extremum(_dist, t, 3.0)
            raise Violation("moon_perigee_apogee(%r) for query JDE %.4f returned JDE %.5f; the "
                            "distance is not %s within 0.25 d (d/dt = %.2f, %.2f km/d at -+0.25 d; "
                            "nearest stationary point: %s)"
                            % (target, q, t, "minimal" if kind == "min" else "maximal", d0, d1,
                               "none within 3 d" if z is None else "%.3f d away" % (z - t)),
                            site=site, kind="not_extremal", target=target, year=year,
                            off=None if z is None else z - t)
        want = math.degrees(math.asin(em.EARTH_RADIUS_KM / _dist(t)))
        show["parallax_error_deg"] = extra - want
        if not abs(extra - want) <= 0.001:
            raise Violation("moon_perigee_apogee(%r) at JDE %.5f reports parallax %.6f deg; "
                            "asin(6378.14/distance) there is %.6f" % (target, t, extra, want),
                            site=site, kind="parallax", target=target, off=extra - want, year=year)
    elif finder == "moon_passage_nodes":
        b = _lat(t)
        show["latitude_deg"] = b
        if not abs(b) <= 0.02:
            raise Violation("moon_passage_nodes(%r) for query JDE %.4f returned JDE %.5f where the "
                            "Moon's latitude is %.4f deg" % (target, q, t, b), site=site,
                            kind="latitude_not_zero", target=target, off=b, year=year)
        slope = _lat(t + 0.01) - _lat(t - 0.01)
        if (slope > 0) != (target == "ascending"):
            raise Violation("moon_passage_nodes(%r) returned JDE %.5f where the latitude is %s"
                            % (target, t, "increasing" if slope > 0 else "decreasing"),
                            site=site, kind="wrong_node", target=target, year=year)
    else:
        kind = "max" if target == "northern" else "min"
        ok, d0, d1 = em.extremum_in_window(_decl, t, 0.25, kind)
        if not ok:
            z = em.locate_extremum(_decl, t, 3.0)
            raise Violation("moon_maximum_declination(%r) for query JDE %.4f returned JDE %.5f; the "
                            "declination is not %s within 0.25 d (d/dt = %.3f, %.3f deg/d at -+0.25 d; "
                            "nearest stationary point: %s)"
                            % (target, q, t, "maximal" if kind == "max" else "minimal", d0, d1,
                               "none within 3 d" if z is None else "%.3f d away" % (z - t)),
                            site=site, kind="not_extremal", target=target, year=year,
                            off=None if z is None else z - t)
        dec = _decl(t)
        show["declination_error_deg"] = extra - dec
        if not abs(extra - dec) <= 0.15:
            raise Violation("moon_maximum_declination(%r) at JDE %.5f reports %.4f deg; the "
                            "apparent declination there is %.4f" % (target, t, extra, dec),
                            site=site, kind="declination_value", target=target,
                            off=extra - dec, year=year)
    dq = check_near(finder, target, q, t, year)
    show["months_from_query"] = dq
    if abs(dq) > 1.0:
        labels.append("event_more_than_1_month_from_query")
    nontrivial = abs(year - 2000.0) > 1000.0 or any(
        l in labels for l in ("query_leap_day", "query_next_to_leap_day"))
    return {"labels": labels, "nontrivial": nontrivial, "show": show}


# ------------------------------------------------------------------------ default targets

DEFAULT_TARGET = {"moon_phase": "new", "moon_perigee_apogee": "perigee",
                  "moon_passage_nodes": "ascending", "moon_maximum_declination": "northern"}


def _flat(res):
    if isinstance(res, tuple):
        return [res[0].jde()] + [float(x) for x in res[1:]]
    return [res.jde()]


def body_defaults(case):
    """The target may be left out (documented default): the four finders asked one after the other
    for one and the same epoch, in a generated order, answer what they answer for the default
    spelled out."""
    j, order = case["jde"], case["order"]
    names = sorted(DEFAULT_TARGET)
    e = Epoch(j)
    got = []
    for i in order:
        f = names[i]
        got.append((f, _flat(getattr(Moon, f)(e))))
    for f, g in got:
        want = _flat(getattr(Moon, f)(Epoch(j), DEFAULT_TARGET[f]))
        if len(g) != len(want) or any(abs(a - b) > 1e-9 for a, b in zip(g, want)):
            raise Violation("Moon.%s(Epoch(%r)) with the target left out, asked in the order %s, "
                            "gave %r; with target=%r it gives %r"
                            % (f, j, [names[i] for i in order], g, DEFAULT_TARGET[f], want),
                            site="Moon." + f, kind="default_target", finder=f)
        check_near(f, DEFAULT_TARGET[f], j, g[0], _year_of(j))
    return {"n": len(order), "labels": ["default_target_calls"], "nontrivial": len(set(order)) > 1}


# ------------------------------------------------------------------------ walks

def _walk(finder, target, epochs, what):
    """epochs: iterable of (Epoch, tag).  Checks monotonicity, month windows, nearness."""
    site = "Moon." + finder
    lo, hi = _window(finder, target)
    prev_t = prev_q = None
    changes = 0
    n = 0
    gaps = []
    maxdq = 0.0
    for e, tag in epochs:
        q = e.jde()
        t, _ = call_finder(finder, target, e)
        n += 1
        dq = check_near(finder, target, q, t, _year_of(q))
        maxdq = max(maxdq, abs(dq))
        if prev_t is not None:
            if t < prev_t - 1e-7:
                raise Violation("Moon.%s(%r): query %s (JDE %.4f) gives JDE %.5f, earlier than the "
                                "%.5f given for the previous query JDE %.4f (%s)"
                                % (finder, target, tag, q, t, prev_t, prev_q, what), site=site,
                                kind="backwards", target=target, step_back=prev_t - t)
            if t > prev_t + 1e-7:
                g = t - prev_t
                changes += 1
                gaps.append(g)
                if not (lo <= g <= hi):
                    raise Violation("Moon.%s(%r): consecutive results JDE %.5f and %.5f (queries "
                                    "JDE %.4f and %s = %.4f) are %.3f d apart; one month of "
                                    "%.1f-%.1f d expected (%s)"
                                    % (finder, target, prev_t, t, prev_q, tag, q, g, lo, hi, what),
                                    site=site, kind="month_length", target=target, gap=g,
                                    ratio=g / FINDERS[finder][1])
        prev_t, prev_q = t, q
    return n, changes, gaps, maxdq


def body_sweep(case):
    finder, target = case["finder"], case["target"]
    j0, step, n = case["jde0"], case["step"], case["n"]
    epochs = ((Epoch(j0 + i * step), "#%d" % i) for i in range(n))
    cnt, changes, gaps, maxdq = _walk(finder, target, epochs, "walk of %d queries, step %.3f d" % (n, step))
    y = _year_of(j0)
    labels = {"sweep:%s:%s" % (finder, target): 1, "sweep_era:" + _era(y): 1,
              "sweep_steps": cnt, "sweep_steps_across_change_of_k": changes}
    nt = changes + (cnt if abs(y - 2000.0) > 1000.0 else 0)
    return {"n": cnt, "nt": min(nt, cnt), "labels": labels,
            "show": {"gaps_d": gaps, "max_months_from_query": maxdq}}


def body_dates(case):
    finder, target, y = case["finder"], case["target"], case["year"]
    days = cal.days_of_year(y)
    epochs = ((Epoch(y, m, d), "%d-%02d-%02d" % (y, m, d)) for (m, d) in days)
    cnt, changes, gaps, maxdq = _walk(finder, target, epochs, "every civil day of %d" % y)
    labels = {"dates:%s:%s" % (finder, target): 1, "dates_era:" + _era(float(y)): 1,
              "dates_days": cnt, "dates_steps_across_change_of_k": changes}
    nt = changes
    if cal.is_leap(y):
        labels["dates_leap_day"] = 1
        nt += 3
        if y % 100 == 0 and y % 400 != 0:
            labels["dates_julian_century_leap_day"] = 1
    if y <= 1582:
        labels["dates_julian_calendar_year"] = 1
    if abs(y - 2000) > 1000:
        nt = cnt
    return {"n": cnt, "nt": min(nt, cnt), "labels": labels,
            "show": {"month_lengths_d": [min(gaps), max(gaps)] if gaps else None,
                     "max_months_from_query": maxdq}}


# ------------------------------------------------------------------------ known finding
# Alternative to fixes_proposed/C15-lunar-finders-lunation-count.diff: active only if an
# open entry KF-C15-far-from-query is registered in known_findings.json.

_KF_BASE = {("moon_phase", "last"): 1.50, ("moon_phase", "full"): 1.25,
            ("moon_passage_nodes", "descending"): 1.15, ("moon_perigee_apogee", "apogee"): 1.10}


def _kf_far_from_query(clause, case, v):
    """Lunation count k taken from the civil (Gregorian) year with per-Julian-year constants:
    the result drifts later by 0.00024-0.0003 month per year after 2000.  Envelope: result
    after the query, 1.6 < dq <= base(target) + 0.00032*(year-2000) + 0.05 and <= 2.2."""
    if v.kind != "far_from_query":
        return False
    key = (v.data.get("finder"), v.data.get("target"))
    if key not in _KF_BASE or v.site != "Moon." + key[0]:
        return False
    dq, year = v.data.get("dq"), v.data.get("year")
    if dq is None or year is None or year < 2300:
        return False
    return 1.6 < dq <= min(2.2, _KF_BASE[key] + 0.00032 * (year - 2000.0) + 0.05)


KNOWN_SIGNATURES = {"KF-C15-far-from-query": _kf_far_from_query}

CLAUSES = {"position": body_position, "illum": body_illum, "secular": body_secular,
           "event": body_event, "sweep": body_sweep, "dates": body_dates,
           "defaults": body_defaults}


# ------------------------------------------------------------------------ strategies

def jdes():
    yrs = st.one_of(st.floats(-2000.0, 4000.0), st.floats(-2000.0, 4000.0),
                    S.years(-2000.0, 4000.0),
                    st.sampled_from([-2000.0, 4000.0, 1582.79, 0.0, 2000.0]))
    return yrs.map(lambda y: round(S.jde_from_year(y), 5))


def epoch_cases():
    return jdes().map(lambda j: {"jde": j})


JULIAN_CENTURY_LEAP = [y for y in range(-2000, 1583, 100) if y % 400 != 0]
SPECIAL_YEARS = JULIAN_CENTURY_LEAP + [-2000, -1999, -1, 0, 1, 4, 1580, 1582, 1583, 1584, 1600,
                                       1700, 1900, 1999, 2000, 2024, 2100, 2400, 3000, 3998, 3999]


def date_queries():
    def build(y, sel, msel, dsel):
        if sel == 0 and cal.is_leap(y):
            m, d = 2, 29
        elif sel == 1:
            m, d = (2, 28) if dsel % 2 else (3, 1)
        elif sel == 2:
            m, d = (12, 31) if dsel % 2 else (1, 1)
        else:
            m = 1 + msel % 12
            d = 1 + dsel % cal.month_len(y, m)
        if y == 1582 and m == 10 and 5 <= d <= 14:
            d = 15
        return {"date": [y, m, d]}
    years = st.one_of(st.sampled_from(SPECIAL_YEARS), st.sampled_from(JULIAN_CENTURY_LEAP),
                      st.integers(-2000, 3999),
                      st.integers(-500, 999).map(lambda k: 4 * k))
    return st.builds(build, years, st.integers(0, 4), st.integers(0, 11), st.integers(0, 30))


def event_cases():
    q = st.one_of(jdes().map(lambda j: {"jde": j}), date_queries())
    return st.builds(lambda p, q: {"finder": p[0], "target": p[1], "q": q},
                     st.sampled_from(PAIRS), q)


def event_cases_for(pair):
    q = st.one_of(jdes().map(lambda j: {"jde": j}), date_queries())
    return q.map(lambda q: {"finder": pair[0], "target": pair[1], "q": q})


def sweep_cases():
    step = st.one_of(st.floats(0.5, 3.0), st.sampled_from([1.0, 2.0, 2.0, 0.5, 3.0]))
    # one walk in six straddles the reference epochs of the series (event count k = 0, between
    # 1999-12-08 and 2000-02-01 for the four finders), where a sign or truncation slip in k shows
    start = st.one_of(jdes(), jdes(), jdes(), jdes(), jdes(),
                      st.floats(-110.0, 20.0).map(lambda d: round(2451545.0 + d, 5)))
    return st.builds(lambda p, j, s: {"finder": p[0], "target": p[1], "jde0": j,
                                      "step": round(s, 3), "n": 40},
                     st.sampled_from(PAIRS), start, step)


def defaults_cases():
    return st.builds(lambda j, o: {"jde": j, "order": o}, jdes(),
                     st.lists(st.integers(0, 3), min_size=2, max_size=5))


STRATS = {"position": epoch_cases, "illum": epoch_cases, "secular": epoch_cases,
          "sweep": sweep_cases, "defaults": defaults_cases}


# ------------------------------------------------------------------------ tasks

def dates_years(tier, seed):
    ys = set(SPECIAL_YEARS)
    nrot = 50 if tier == "quick" else 900
    for i in range(nrot):
        ys.add(-2000 + (seed * 977 + i * (6000 // nrot) + i * i) % 6000)
    return sorted(ys)


def tasks(tier, seed):
    mult = 1 if tier == "quick" else 10
    k = 1 if tier == "quick" else 2          # more, not longer, tasks in the thorough tier
    out = []
    for sh in range(8 * k):
        out.append(Task("t_given", clause="position", shard=sh, n=2000 * mult // k))
    for sh in range(4 * k):
        out.append(Task("t_given", clause="illum", shard=sh, n=2500 * mult // k))
    out.append(Task("t_given", clause="secular", shard=0, n=3000 * mult))
    # events: per finder x target, sized by cost
    plan = {"moon_phase": (2, 1500), "moon_perigee_apogee": (2, 2000),
            "moon_passage_nodes": (2, 2500), "moon_maximum_declination": (2, 1000)}
    for i, (f, t) in enumerate(PAIRS):
        shards, n = plan[f]
        for r in range(shards * k):
            out.append(Task("t_event", pair=i, shard=r, n=n * mult // k))
    for sh in range(8 * k):
        out.append(Task("t_given", clause="sweep", shard=sh, n=2500 * mult // k))
    out.append(Task("t_given", clause="defaults", shard=0, n=600 * mult))
    ys = dates_years(tier, seed)
    nsh = 4 if tier == "quick" else 32
    for i in range(nsh):
        out.append(Task("t_dates", years=ys[i::nsh]))
    return out


def t_given(rec, clause, shard, n):
    rec.given(clause, STRATS[clause](), n, shard=shard)


def t_event(rec, pair, shard, n):
    rec.given("event", event_cases_for(PAIRS[pair]), n, shard="%d-%d" % (pair, shard))


def t_dates(rec, years):
    for y in years:
        for f, t in PAIRS:
            rec.case("dates", {"year": y, "finder": f, "target": t})
