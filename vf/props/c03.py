"""C03 - Angle: canonical range, congruence mod 360 and closed arithmetic.

Oracle: exact rational arithmetic (fractions.Fraction).  A float *is* a rational, so the
"exact input" and the "real-number result of the operation on the operands' values"
are computed without rounding (pi as a 60-digit rational for the radian clauses;
non-integer powers through decimal with 60 digits).
"""
import decimal
import math
import operator
from fractions import Fraction as F

from hypothesis import strategies as st

from pymeeus.Angle import Angle

from ..core import Violation, Task
from .. import strategies as S

PROPERTY = "C03"
LEVEL = "exploration"
MANIFEST = {
    "level_text": "Randomised search (Hypothesis, boundary-aware generators, ~40k cases quick / 1.5M thorough) over constructors, all operator x variant x operand-type combinations and the views, against an exact-rational oracle. Finds violations; does not prove absence.",
    "level_note": "Trusts fractions.Fraction / decimal arithmetic and a 60-digit rational pi. Tolerances as stated in the property.",
    "technique": "property-based testing (Hypothesis) with exact-rational reference model",
}
RULE = ("Hypothesis-generated cases, three clauses. ctor: one scalar (int or float up to "
        "1e15: uniform, k*360/180/90 +- {0, 1 ulp, 1e-12..1e-3}, +-0.0, denormals, "
        "+-(360 -+ ulp)) given as degrees, radians or RA hours, as scalar, 1-list or copy; or "
        "sexagesimal pieces (separate args, tuple, list; 2, 3 or 4 pieces; fractional and "
        "overflowing minutes/seconds; minus sign on any one non-zero piece or on the 4th sign "
        "piece), also as RA. op: operator in {+,-,*,/,%,**} x variant {plain, reflected, "
        "in-place} x other operand {Angle, int, float}, plus unary -, abs, round, float, int. "
        "view: to_positive, rad, get_ra. Oracle: exact rationals. Non-trivial: |input| >= 360, "
        "or within 1e-6 of a multiple of 360, or a sexagesimal input with a negative, "
        "fractional or overflowing piece, or a reflected/in-place operator, or a division "
        "by zero; distinct = distinct canonical case.")
ASSUMPTIONS = [
    "tolerance of the congruence is 1e-9 deg * max(1, |exact value|) as the property states",
    "-0.0 is not treated as a sign carrier (Python's -0.0 < 0 is False; the docs say 'negative')",
    "divisors are 0 or |b| >= 1e-9: an Angle divisor inside the documented equality tolerance "
    "of zero may raise or not; quotients are kept below float overflow",
    "** is asserted only where the real result is finite and real (non-negative base or integer "
    "exponent) and |result| <= 1e15",
    "for % the documented meaning sign(a)*(|a| mod b) is asserted for positive divisors; for "
    "negative divisors with |b| <= 360 only congruence modulo b",
]

PI = F("3.14159265358979323846264338327950288419716939937510582097494")
TOL = F(1, 10 ** 9)


def circ_diff(val, exact, mod=360):
    d = (F(val) - exact) % mod
    if d > F(mod) / 2:
        d -= mod
    return d


def check_value(val, exact, what, site, check_sign, case_data=None):
    if not isinstance(val, float):
        raise Violation("%s: value %r is not a float" % (what, val), site=site, kind="type")
    if not (-360.0 < val < 360.0):
        raise Violation("%s: value %r is outside (-360, 360); exact %s" % (what, val, float(exact)),
                        site=site, kind="range", val=val, exact=float(exact))
    tol = TOL * max(1, abs(exact))
    d = circ_diff(val, exact)
    if abs(d) > tol:
        raise Violation("%s: value %r is not congruent mod 360 to the exact %r (off by %.3e deg)"
                        % (what, val, float(exact), float(d)), site=site, kind="congruence",
                        val=val, exact=float(exact), off=float(d))
    if check_sign and val != 0.0 and exact != 0:
        # sign of the input, unless the reduced value is within tolerance of a multiple of 360
        r = abs(exact) % 360
        if tol < r < 360 - tol and (val > 0) != (exact > 0):
            raise Violation("%s: value %r has not the sign of the input %r" % (what, val, float(exact)),
                            site=site, kind="sign", val=val, exact=float(exact))


# --------------------------------------------------------------------- ctor clause

def _sexa_exact(pieces):
    mag = abs(F(pieces[0])) + abs(F(pieces[1])) / 60
    if len(pieces) >= 3:
        mag += abs(F(pieces[2])) / 3600
    neg = any(p < 0 for p in pieces[:4])
    return -mag if neg else mag


def build_angle(case):
    kind = case["kind"]
    form = case["form"]
    ra = case.get("ra", False)
    kw = {"ra": True} if ra else {}
    if kind == "scalar":
        x = case["x"]
        if case.get("radians"):
            kw = {"radians": True}
        if form == "plain":
            a = Angle(x, **kw)
        elif form == "list1":
            arg = [x]
            a = Angle(arg, **kw)
            if arg != [x] or type(arg[0]) is not type(x):
                raise Violation("Angle([%r], %r) changed the caller's list to %r" % (x, kw, arg),
                                site="Angle.set", kind="argument_mutated")
        elif form == "copy":
            a = Angle(Angle(x, **kw))
        elif form == "set":
            a = Angle(123.0)
            a.set(x, **kw)
        elif form == "setter":
            a = Angle(123.0)
            if case.get("radians"):
                a.set_radians(x)
            elif ra:
                a.set_ra(x)
            else:
                a.set(x)
        else:
            raise AssertionError(form)
        if case.get("radians"):
            exact = F(x) * 180 / PI
        elif ra:
            exact = F(x) * 15
        else:
            exact = F(x)
        return a, exact
    pieces = case["pieces"]
    if form == "args":
        a = Angle(*pieces, **kw)
    elif form == "tuple":
        a = Angle(tuple(pieces), **kw)
    elif form == "list":
        arg = list(pieces)
        a = Angle(arg, **kw)
        if arg != list(pieces):
            raise Violation("Angle(%r) changed the caller's list to %r" % (pieces, arg),
                            site="Angle.set", kind="argument_mutated")
    elif form == "set":
        a = Angle(-77.0)
        a.set(*pieces, **kw)
    else:
        raise AssertionError(form)
    exact = _sexa_exact(pieces)
    if ra:
        exact *= 15
    return a, exact


def body_ctor(case):
    arg_before = None
    a, exact = build_angle(case)
    val = a()
    what = "Angle(%s)" % ", ".join("%s=%r" % kv for kv in sorted(case.items()))
    check_value(val, exact, what, "Angle.set", check_sign=True)
    labels = [case["kind"] + ":" + case["form"]]
    nontrivial = False
    if case.get("ra"):
        labels.append("ra")
    if case.get("radians"):
        labels.append("radians")
    if abs(exact) >= 360:
        labels.append("abs>=360")
        nontrivial = True
    r = abs(exact) % 360
    if r < F(1, 10 ** 6) or r > 360 - F(1, 10 ** 6):
        labels.append("near_multiple_of_360")
        nontrivial = True
    if case["kind"] == "sexa":
        p = case["pieces"]
        if any(x < 0 for x in p):
            labels.append("negative_piece")
            nontrivial = True
        if any(x != int(x) for x in p[:3]):
            labels.append("fractional_piece")
            nontrivial = True
        if any(abs(x) >= 60 for x in p[1:3]):
            labels.append("overflowing_piece")
            nontrivial = True
    return {"labels": labels, "nontrivial": nontrivial, "show": {"value": val}}


# --------------------------------------------------------------------- op clause

BINOPS = {"add": operator.add, "sub": operator.sub, "mul": operator.mul,
          "div": operator.truediv, "mod": operator.mod, "pow": operator.pow}
IOPS = {"add": operator.iadd, "sub": operator.isub, "mul": operator.imul,
        "div": operator.itruediv, "mod": operator.imod, "pow": operator.ipow}


def _exact_pow(base, ex):
    """Real-number base**ex as a Fraction (to 50 digits for non-integer exponents);
    None where it is not a finite real or too large."""
    if ex == int(ex):
        n = int(ex)
        if base == 0 and n < 0:
            return "zerodiv"
        if abs(n) > 64:
            return None
        if base != 0 and abs(n) * abs(math.log10(abs(float(base)) + 1e-320)) > 18:
            return None
        return F(base) ** n
    if base < 0:
        return None
    if base == 0:
        return F(0) if ex > 0 else "zerodiv"
    if abs(float(ex)) * abs(math.log10(float(base))) > 18:
        return None
    with decimal.localcontext() as ctx:
        ctx.prec = 60
        d = decimal.Decimal(base.numerator) / decimal.Decimal(base.denominator)
        e = decimal.Decimal(ex.numerator) / decimal.Decimal(ex.denominator)
        return F(d ** e)


def body_op(case):
    op = case["op"]
    variant = case["variant"]
    a = Angle(case["a"])
    av0 = a()
    bform = case["bform"]
    if bform == "angle":
        b = Angle(case["b"])
        bv0 = b()
    else:
        b = case["b"]
        bv0 = b
    alias = a
    av, bv = F(av0), F(bv0)
    labels = ["%s:%s:%s" % (op, variant, bform)]
    nontrivial = variant != "plain"
    site = "Angle.__%s%s__" % ({"plain": "", "reflected": "r", "inplace": "i"}[variant], op)

    # operands as the operator sees them
    if variant == "reflected":
        left, right, lv, rv = b, a, bv, av
    else:
        left, right, lv, rv = a, b, av, bv

    # a divisor inside the documented equality tolerance of zero may raise or not
    if op in ("div", "mod") and rv != 0 and abs(rv) < 1e-9:
        return {"labels": ["divisor_within_tolerance_of_zero"], "refused": "divisor within tolerance of zero: not asserted"}
    # exact expectation
    expect_zero_div = False
    mod_b = None
    if op == "add":
        exact = lv + rv
    elif op == "sub":
        exact = lv - rv
    elif op == "mul":
        exact = lv * rv
    elif op == "div":
        if rv == 0:
            expect_zero_div = True
            exact = None
        else:
            exact = lv / rv
    elif op == "mod":
        if rv == 0:
            expect_zero_div = True
            exact = None
        elif rv > 0:
            exact = (abs(lv) % rv) * (1 if lv >= 0 else -1)
        else:
            exact = None
            mod_b = abs(rv)
    elif op == "pow":
        exact = _exact_pow(lv, rv)
        if exact == "zerodiv":
            expect_zero_div = True
            exact = None
        elif exact is None or abs(exact) > 10 ** 15:
            return {"labels": ["pow:out_of_asserted_domain"], "refused": "pow outside real/finite domain"}
    try:
        if variant == "inplace":
            res = IOPS[op](a, b)
        else:
            res = BINOPS[op](left, right)
    except ZeroDivisionError:
        if expect_zero_div:
            labels.append("zero_division_raised")
            _operands_unchanged(alias, av0, b, bform, bv0, site)
            return {"labels": labels, "nontrivial": True}
        raise Violation("%s raised ZeroDivisionError for operands %r, %r" % (site, lv, rv),
                        site=site, kind="exception:ZeroDivisionError")
    if expect_zero_div:
        raise Violation("%s with a zero divisor returned %r instead of raising ZeroDivisionError"
                        % (site, res), site=site, kind="no_zero_division")
    if not isinstance(res, Angle):
        raise Violation("%s returned %r, not an Angle" % (site, type(res)), site=site, kind="type")
    what = "%s(%r, %r)" % (site, float(lv), float(rv))
    if exact is not None:
        check_value(res(), exact, what, site, check_sign=False)
    else:
        val = res()
        if not (-360.0 < val < 360.0):
            raise Violation("%s: value %r outside (-360, 360)" % (what, val), site=site, kind="range")
        if mod_b is not None and mod_b <= 360:
            d = circ_diff(val, lv, mod_b)
            if abs(d) > TOL:
                raise Violation("%s: %r is not congruent to %r modulo %r" % (what, val, float(lv), float(mod_b)),
                                site=site, kind="congruence")
    _operands_unchanged(alias, av0, b, bform, bv0, site)
    if variant == "inplace" and res is alias and res() != av0:
        raise AssertionError("unreachable")
    return {"labels": labels, "nontrivial": nontrivial, "show": {"result": res()}}


def _operands_unchanged(alias, av0, b, bform, bv0, site):
    if alias() != av0 or math.copysign(1, alias()) != math.copysign(1, av0):
        raise Violation("%s changed its left operand from %r to %r" % (site, av0, alias()),
                        site=site, kind="operand_mutated")
    if bform == "angle" and (b() != bv0):
        raise Violation("%s changed its right operand from %r to %r" % (site, bv0, b()),
                        site=site, kind="operand_mutated")


def body_unary(case):
    x = case["a"]
    a = S.angle_with_tolerance(x)
    v0 = a()
    u = case["u"]
    fv = F(v0)
    if u == "neg":
        res, exact = -a, -fv
    elif u == "abs":
        res, exact = abs(a), abs(fv)
    elif u == "round":
        n = case["n"]
        res, exact = round(a, n), F(round(v0, n))
    elif u == "float":
        res = float(a)
        if res != v0 or not isinstance(res, float):
            raise Violation("float(Angle(%r)) = %r, value is %r" % (x, res, v0), site="Angle.__float__", kind="view")
        return {"labels": ["float"]}
    elif u == "int":
        res = int(a)
        if res != int(v0) or not isinstance(res, int):
            raise Violation("int(Angle(%r)) = %r, value is %r" % (x, res, v0), site="Angle.__int__", kind="view")
        return {"labels": ["int"]}
    site = "Angle.__%s__" % u
    if not isinstance(res, Angle):
        raise Violation("%s returned %r" % (site, type(res)), site=site, kind="type")
    check_value(res(), exact, "%s(%r)" % (site, v0), site, check_sign=False)
    if a() != v0:
        raise Violation("%s changed its operand" % site, site=site, kind="operand_mutated")
    return {"labels": [u], "nontrivial": abs(F(x)) >= 360}


# --------------------------------------------------------------------- views

def body_view(case):
    a, exact = build_angle(case["angle"])
    v = a()
    labels = []
    r = a.rad()
    want = v * math.pi / 180.0
    if abs(r - want) > 4 * S.ULP * abs(want) + 5e-324:
        raise Violation("Angle(%r).rad() = %r, value*pi/180 = %r" % (v, r, want), site="Angle.rad", kind="view")
    h = a.get_ra()
    if abs(h - v / 15.0) > 2 * S.ULP * abs(v / 15.0):
        raise Violation("Angle(%r).get_ra() = %r, value/15 = %r" % (v, h, v / 15.0), site="Angle.get_ra", kind="view")
    b = Angle(a)
    tol = S.ANGLE_TOLS[(int(abs(v) * 7919.0) + len(str(case))) % len(S.ANGLE_TOLS)]
    if tol is not None:
        b.set_tolerance(tol)    # the comparison tolerance is no part of the value
    b.rad(), b.get_ra()         # views taken before the in-place change must not stick to it
    ret = b.to_positive()
    if ret is not b:
        raise Violation("to_positive() did not return the object itself", site="Angle.to_positive", kind="view")
    p = b()
    if not (0.0 <= p < 360.0):
        raise Violation("Angle(%r).to_positive() = %r, not in [0, 360)" % (v, p),
                        site="Angle.to_positive", kind="range", val=v, got=p)
    d = circ_diff(p, F(v))
    if abs(d) > TOL:
        raise Violation("Angle(%r).to_positive() = %r is not congruent" % (v, p),
                        site="Angle.to_positive", kind="congruence")
    rp = b.rad()
    wantp = p * math.pi / 180.0
    if abs(rp - wantp) > 4 * S.ULP * abs(wantp) + 5e-324:
        raise Violation("Angle(%r): after to_positive() the value is %r but rad() = %r (value*pi/180 = %r)"
                        % (v, p, rp, wantp), site="Angle.rad", kind="view_after_to_positive")
    if abs(b.get_ra() - p / 15.0) > 2 * S.ULP * abs(p / 15.0):
        raise Violation("Angle(%r): after to_positive() the value is %r but get_ra() = %r"
                        % (v, p, b.get_ra()), site="Angle.get_ra", kind="view_after_to_positive")
    if a() != v:
        raise Violation("copy shares state: to_positive on the copy changed the source",
                        site="Angle.set", kind="copy_shares_state")
    nontrivial = v < 0
    if v < 0:
        labels.append("negative_value")
    if -1e-9 < v < 0:
        labels.append("tiny_negative")
    return {"labels": labels or ["non_negative"], "nontrivial": nontrivial, "show": {"value": v, "positive": p}}


CLAUSES = {"ctor": body_ctor, "op": body_op, "unary": body_unary, "view": body_view}


# --------------------------------------------------------------------- strategies

def scalars():
    big = st.one_of(
        st.floats(-1e15, 1e15),
        st.floats(-1000, 1000),
        st.floats(-360, 360),
        S.near_multiples(360.0, -5, 5),
        S.near_multiples(180.0, -9, 9),
        S.near_multiples(90.0, -17, 17),
        S.near_multiples(360.0, -10 ** 12, 10 ** 12, deltas=[0.0, 0.5, -0.25]),
        st.sampled_from([0.0, -0.0, 5e-324, -5e-324, 1e-300, -1e-300, 2.2250738585072014e-308,
                         1e-20, -1e-20, 1e-16, -1e-16,
                         359.99999999999994, -359.99999999999994, 360.0, -360.0,
                         360.00000000000006, -360.00000000000006, 720.0, -720.0,
                         1e15, -1e15, 123456789012345.67, 999999999999999.9]),
        st.integers(-10 ** 15, 10 ** 15),
        st.integers(-2000, 2000),
        st.integers(-6, 6).map(lambda k: k * 360),
    )
    return big


def small_scalars():
    return st.one_of(st.floats(-1000, 1000), st.floats(-360, 360), S.near_multiples(360.0, -3, 3),
                     S.near_multiples(90.0, -8, 8), st.integers(-1000, 1000),
                     st.sampled_from([0.0, -0.0, 1e-20, -1e-20, 5e-324, 359.99999999999994,
                                      -359.99999999999994, 1e-11, -1e-11]))


def radian_scalars():
    return st.one_of(st.floats(-1e15, 1e15), st.floats(-20, 20),
                     S.near_multiples(math.pi, -8, 8), S.near_multiples(math.pi / 2, -16, 16),
                     st.integers(-1000, 1000),
                     st.sampled_from([0.0, -0.0, 5e-324, -1e-300, 2 * math.pi, -2 * math.pi]))


def hour_scalars():
    return st.one_of(st.floats(-1e13, 1e13), st.floats(-48, 48), S.near_multiples(24.0, -4, 4),
                     S.near_multiples(12.0, -8, 8), st.integers(-100, 100),
                     st.sampled_from([0.0, 24.0, 25.0, -25.0, 23.999999999999996, 1e-20, -1e-20]))


def scalar_cases():
    deg = st.builds(lambda x, f: {"kind": "scalar", "x": x, "form": f},
                    scalars(), st.sampled_from(["plain", "plain", "list1", "copy", "set", "setter"]))
    rad = st.builds(lambda x, f: {"kind": "scalar", "x": x, "form": f, "radians": True},
                    radian_scalars(), st.sampled_from(["plain", "list1", "copy", "set", "setter"]))
    ra = st.builds(lambda x, f: {"kind": "scalar", "x": x, "form": f, "ra": True},
                   hour_scalars(), st.sampled_from(["plain", "list1", "copy", "set", "setter"]))
    return st.one_of(deg, deg, rad, ra)


def _piece(maxv, frac_ok=True):
    ints = st.integers(0, maxv)
    parts = [ints, st.integers(0, 59), st.sampled_from([0, 0, 59, 60, 61, 1])]
    if frac_ok:
        parts += [st.floats(0, maxv), st.floats(0, 60),
                  st.sampled_from([59.99999999999, 59.9999999, 0.5, 1e-9, 60.0, 59.999999999999993])]
    return st.one_of(*parts)


def sexa_cases():
    def build(d, m, s, npieces, neg, form, ra, sign4):
        pieces = [d, m, s][:npieces] if npieces < 4 else [d, m, s, sign4]
        if neg is not None and neg < len(pieces) and neg < 3:
            if pieces[neg] != 0:
                pieces[neg] = -pieces[neg]
        c = {"kind": "sexa", "pieces": pieces, "form": form}
        if ra:
            c["ra"] = True
        return c
    return st.builds(build,
                     st.one_of(st.integers(0, 1000), st.integers(0, 359), st.floats(0, 1000),
                               st.sampled_from([0, 359, 360, 719])),
                     _piece(10000), _piece(100000),
                     st.sampled_from([2, 3, 3, 3, 4]),
                     st.sampled_from([None, None, 0, 1, 2]),
                     st.sampled_from(["args", "tuple", "list", "set"]),
                     st.booleans(),
                     st.sampled_from([1, 1.0, -1, -1.0]))


def ctor_cases():
    return st.one_of(scalar_cases(), sexa_cases())


def op_cases():
    def other(bform):
        if bform == "int":
            return st.one_of(st.integers(-1000, 1000), st.integers(-10 ** 15, 10 ** 15),
                             st.sampled_from([0, 1, -1, 2, 360, -360, 720]))
        if bform == "float":
            return st.one_of(small_scalars(), st.floats(-1e15, 1e15), st.sampled_from([0.0, -0.0]))
        return small_scalars()

    def build(op, variant, bform, a, b):
        if variant == "reflected" and bform == "angle":
            variant = "plain"
        if op in ("div", "mod"):
            # divisor is the Angle for the reflected form, else b
            div = a if variant == "reflected" else b
            if div != 0 and abs(div) < 1e-9:
                if variant == "reflected":
                    a = 0.0
                else:
                    b = 0 if bform == "int" else 0.0
        if op == "pow":
            # keep exponents small
            if variant == "reflected":
                a = math.fmod(a, 8.0)
            else:
                b = math.fmod(b, 8.0) if bform != "int" else int(math.fmod(b, 8))
        return {"op": op, "variant": variant, "bform": bform, "a": a, "b": b}
    return st.sampled_from(["angle", "int", "float"]).flatmap(
        lambda bf: st.builds(build, st.sampled_from(list(BINOPS)),
                             st.sampled_from(["plain", "reflected", "inplace"]),
                             st.just(bf), small_scalars(), other(bf)))


def unary_cases():
    return st.builds(lambda a, u, n: {"a": a, "u": u, "n": n}, small_scalars(),
                     st.sampled_from(["neg", "abs", "round", "float", "int"]), st.integers(0, 9))


def view_cases():
    return st.builds(lambda c: {"angle": c}, st.one_of(
        scalar_cases(), scalar_cases(), sexa_cases(),
        st.builds(lambda x: {"kind": "scalar", "x": x, "form": "plain"},
                  st.sampled_from([-1e-20, -5e-324, -1e-16, -1e-15, -3e-14, -1e-13, -1e-300, -0.0,
                                   -359.99999999999994, -1e-12]))))


STRATS = {"ctor": ctor_cases, "op": op_cases, "unary": unary_cases, "view": view_cases}


def tasks(tier, seed):
    mult = 1 if tier == "quick" else 40
    plan = {"ctor": (6, 2500), "op": (7, 2500), "unary": (1, 2000), "view": (2, 2500)}
    out = []
    for clause, (shards, n) in plan.items():
        for sh in range(shards if tier == "quick" else shards * 2):
            out.append(Task("t_given", clause=clause, shard=sh, n=n * mult // (1 if tier == "quick" else 2)))
    return out


def t_given(rec, clause, shard, n):
    rec.given(clause, STRATS[clause](), n, shard=shard)
