"""C07 - VSOP87 heliocentric positions are physical, continuous and self-consistent.

Clauses (each its own generator / sweep):
  bounds       longitude in [0, 360), |B| <= i + 0.05 deg, q(1-1%) <= R <= Q(1+1%), and the
               position agrees with the one propagated from the library's mean elements by
               vf/oracles/twobody.py within the planet's perturbation amplitude
  rate         L(t + 1 d) - L(t) > 0 and within 3 % of the Keplerian extremes
  orbit        sweep: one whole orbit from a generated start in daily steps (Mercury-Mars)
               or 1/400-orbit steps plus 200 daily steps (Jupiter-Neptune): bounds + rate at
               every step
  second       sweep: 3600 one-second steps from a generated start: 0 < dL < 2 x the fastest
               Keplerian rate, |dR| < 1e-6 AU
  seam         the library's own 0/360 crossing is located by bisection and every position
               function is evaluated on a grid of offsets around it: longitude in [0, 360)
  evaluator    vsop_pos against a direct term-by-term summation of the module's tables
               (math.fsum inside a series, exact rationals across powers of t)
  corrections  FK5: geometric(tofk5=True) - geometric(tofk5=False) equals the two documented
               formulae and is bounded; aberration: apparent - geometric longitude equals
               nutation - 20.4898"/R
  meanrate     secular rate of the L series == rate of the element table's mean longitude
  kepler3      n^2 a^3 = k^2 (1 + m) with n the sidereal rate of orbital_elements_j2000
"""
import importlib
import math
from fractions import Fraction as F

from hypothesis import strategies as st

from pymeeus.Angle import Angle
from pymeeus.Epoch import Epoch
from pymeeus.Coordinates import vsop_pos, nutation_longitude

from ..core import Violation, Task
from .. import strategies as S
from ..oracles import twobody as tb

PROPERTY = "C07"
LEVEL = "exploration"
MANIFEST = {
    "level_text": "Randomised search (Hypothesis) over 8 planets x epochs -2000..4000 x tofk5/nutation options with era ends over-weighted, plus deterministic walks from generated starts (whole orbits in daily steps, one-second steps over an hour, a grid around every located 0/360 longitude crossing), against stated bounds, an independent two-body propagation of the library's mean elements, and an exact-summation reference evaluator over the same tables. Finds violations; does not prove absence.",
    "level_note": "Trusts vf/oracles/twobody.py (self-tested each run), math.fsum / fractions for the reference summation, the IAU 1976 planetary masses and the Gaussian constant. Tolerances as stated in the property.",
    "technique": "property-based testing (Hypothesis) + generated-start sweeps; differential oracle (two-body model, exact series summation) and stated bounds",
}
RULE = ("Hypothesis-generated (planet in Mercury..Neptune, fractional year in [-2000, 4000] with "
        "the era ends, 1900-2100 and the exact end points over-weighted, option in {tofk5 True/"
        "False, apparent, Earth: apparent without nutation}). Sweeps are deterministic walks "
        "from a Hypothesis-generated (planet, start year): orbit = one full revolution in daily "
        "steps (Mercury-Mars) or 400 steps of 1/400 revolution followed by 200 daily steps "
        "(Jupiter-Neptune); second = 3600 one-second steps; seam = the next 0/360 crossing of "
        "the library's longitude after the start, located by bisection, then 16 offsets from "
        "-0.03 d to +0.03 d (plus one generated offset) in every position function. "
        "Non-trivial: |year - 2000| > 1000, or a sweep step, or an option other than the "
        "default; distinct = distinct canonical case, sweep steps are distinct by construction.")
ASSUMPTIONS = [
    "epoch of a fractional year y is JDE 2451545 + (y - 2000) * 365.25; sweeps that would leave "
    "[-2000, 4000] are started earlier so that they end inside",
    "perihelion/aphelion distance, inclination and the Keplerian rate extremes n sqrt(1-e^2)/"
    "(1 +- e)^2 use a, e, i of orbital_elements_mean_equinox at the same epoch and n = k a^-1.5",
    "perturbation amplitudes: 0.1 deg Mercury-Mars, 1.0 deg Jupiter, 2.5 deg Saturn-Neptune "
    "(angular separation on the sphere), 1 % in distance; compared on the geometric position "
    "only (the apparent one is displaced by up to 68 arcsec of aberration)",
    "daily rate: (L(t+1d) - L(t)) mod 360 against [0.97 vmin, 1.03 vmax]; for the 1/400-orbit "
    "steps of the outer planets the mean rate over the step is held to the same interval",
    "evaluator: 1e-11 rad on B, 1e-11 AU on R, against exact summation; on L 1e-11 rad plus the "
    "a-priori rounding bound of a double-precision summation of the same tables at that epoch "
    "(the unreduced longitude reaches 1e5 rad, where one ulp is 1.5e-11 rad, so neither the "
    "library nor any 'direct term-by-term summation' in doubles can do better; bound <= 2e-8 rad)",
    "FK5: dL = -0.09033\" + 0.03916\" (cos L' + sin L') tan B, dB = 0.03916\" (cos L' - sin L'), "
    "L' = L - 1.397 T - 0.00031 T^2, to 1e-9 deg; bounded by 0.03916 sqrt(2) = 0.05539\"; "
    "aberration -20.4898\"/R and the library's own nutation in longitude, to 1e-9 deg",
    "Kepler III: n from a +-10 day central difference of the mean longitude of "
    "orbital_elements_j2000 (sidereal); reciprocal masses IAU 1976: 6023600, 408523.5, 328900.5 "
    "(Earth+Moon), 3098710, 1047.355, 3498.5, 22869, 19314; 0.1 % (1 % Saturn-Neptune)",
    "mean-longitude rate: sum k A_k0 t^(k-1) of the constant terms of the L series against a "
    "+-0.5 day central difference of the mean longitude of orbital_elements_mean_equinox, 1e-6 "
    "relative, at every generated epoch",
]

PLANETS = ["Mercury", "Venus", "Earth", "Mars", "Jupiter", "Saturn", "Uranus", "Neptune"]
INNER = PLANETS[:4]
AMP = {"Mercury": 0.1, "Venus": 0.1, "Earth": 0.1, "Mars": 0.1, "Jupiter": 1.0,
       "Saturn": 2.5, "Uranus": 2.5, "Neptune": 2.5}
K3TOL = {"Mercury": 1e-3, "Venus": 1e-3, "Earth": 1e-3, "Mars": 1e-3, "Jupiter": 1e-3,
         "Saturn": 1e-2, "Uranus": 1e-2, "Neptune": 1e-2}
RMASS = {"Mercury": 6023600.0, "Venus": 408523.5, "Earth": 328900.5, "Mars": 3098710.0,
         "Jupiter": 1047.355, "Saturn": 3498.5, "Uranus": 22869.0, "Neptune": 19314.0}
PERIOD_D = {"Mercury": 87.969, "Venus": 224.701, "Earth": 365.256, "Mars": 686.980,
            "Jupiter": 4332.59, "Saturn": 10759.2, "Uranus": 30688.5, "Neptune": 60182.0}
OPTS = ["fk5", "nofk5", "apparent", "apparent_nonut"]
PI = F("3.14159265358979323846264338327950288419716939937510582097494")
U = 2.0 ** -53
Y_LO, Y_HI = -2000.0, 4000.0

_MOD = {}


def planet_mod(name):
    if name not in _MOD:
        m = importlib.import_module("pymeeus." + name)
        _MOD[name] = (m, getattr(m, name))
    return _MOD[name]


def self_test():
    tb.self_test()
    # reference evaluator on a hand-made table: 3 cos(1 + 2t) + t * 5 cos(0), t = 0.5
    got = ref_series([[[3.0, 1.0, 2.0]], [[5.0, 0.0, 0.0]]], 0.5)
    want = (F(3.0 * math.cos(2.0)) + F(5, 2)) / 10 ** 8
    if got != want:
        raise AssertionError("reference evaluator")
    if abs(circ(359.9999, 0.0001) + 0.0002) > 1e-12:
        raise AssertionError("circ")


# --------------------------------------------------------------------- helpers

def jde_of(year):
    return S.jde_from_year(year)


def circ(a, b):
    """a - b reduced to [-180, 180)."""
    return (a - b + 180.0) % 360.0 - 180.0


def era_label(year):
    if year < -1000:
        return "era:-2000..-1000"
    if year < 1000:
        return "era:-1000..1000"
    if year <= 3000:
        return "era:1000..3000"
    return "era:3000..4000"


def position(name, j, opt):
    mod, P = planet_mod(name)
    e = Epoch(j)
    if opt == "fk5":
        return P.geometric_heliocentric_position(e)
    if opt == "nofk5":
        return P.geometric_heliocentric_position(e, tofk5=False)
    if opt == "apparent":
        return P.apparent_heliocentric_position(e)
    if opt == "apparent_nonut":
        return P.apparent_heliocentric_position(e, nutation=False)
    raise AssertionError(opt)


def site_of(name, opt):
    return "%s.%s" % (name, "apparent_heliocentric_position" if opt.startswith("apparent")
                      else "geometric_heliocentric_position")


def elements(name, j):
    mod, P = planet_mod(name)
    if int(abs(j) * 3.0) % 2 == 0:
        # the two element routines share the module's tables: asking for the J2000 elements
        # first must not change what the mean-equinox routine returns afterwards
        P.orbital_elements_j2000(Epoch(j))
    L, a, e, i, om, arg = P.orbital_elements_mean_equinox(Epoch(j))
    return L(), a, e, i(), om(), arg()


def rate_extremes(a, e):
    """(vmin, vmax) in degrees/day of the Keplerian angular speed."""
    n = math.degrees(tb.mean_motion(a))
    s = math.sqrt(1.0 - e * e)
    return n * s / (1.0 + e) ** 2, n * s / (1.0 - e) ** 2


def check_range(name, j, opt, lon, lat, r):
    site = site_of(name, opt)
    if not (isinstance(lon, Angle) and isinstance(lat, Angle) and isinstance(r, float)):
        raise Violation("%s(JDE %r) returned types %r" % (site, j, (type(lon), type(lat), type(r))),
                        site=site, kind="type")
    L = lon()
    if not (0.0 <= L < 360.0):
        # all eight planets share the two Coordinates functions: name the shared site
        root = "Coordinates.%s_vsop_pos" % ("apparent" if opt.startswith("apparent") else "geometric")
        raise Violation("%s(JDE %r, %s): heliocentric longitude %r is outside [0, 360)"
                        % (site, j, opt, L), site=root, kind="lon_range", lon=L, opt=opt,
                        planet=name)
    if not (math.isfinite(lat()) and math.isfinite(r)):
        raise Violation("%s(JDE %r): non-finite latitude/radius" % (site, j), site=site,
                        kind="nonfinite")


def check_bounds(name, j, opt, lon, lat, r, el):
    site = site_of(name, opt)
    Lm, a, e, inc, om, arg = el
    if abs(lat()) > inc + 0.05:
        raise Violation("%s(JDE %r): |latitude| %r exceeds the inclination %r by more than 0.05 deg"
                        % (site, j, abs(lat()), inc), site=site, kind="lat_bound", lat=lat(), inc=inc)
    q, Q = a * (1.0 - e), a * (1.0 + e)
    if not (q * 0.99 <= r <= Q * 1.01):
        raise Violation("%s(JDE %r): radius vector %r outside [q, Q] = [%r, %r] of the mean orbit "
                        "(1 %% slack)" % (site, j, r, q, Q), site=site, kind="radius_bound", r=r)


def kepler_position(el):
    """(lon, lat, r) of the mean orbit at its mean longitude, via twobody."""
    Lm, a, e, inc, om, arg = el
    M = math.radians(Lm - om - arg)
    E = tb.kepler_E(e, M)
    v = 2.0 * math.atan2(math.sqrt(1.0 + e) * math.sin(E / 2.0),
                         math.sqrt(1.0 - e) * math.cos(E / 2.0))
    r = a * (1.0 - e * math.cos(E))
    vec = tb.perifocal_to_ecliptic(r, v, math.radians(inc), math.radians(om), math.radians(arg))
    lon, lat, _ = S.from_vector(vec)
    return lon, lat, r


# --------------------------------------------------------------------- bounds

def body_bounds(case):
    name, year, opt = case["planet"], case["year"], case["opt"]
    j = jde_of(year)
    lon, lat, r = position(name, j, opt)
    check_range(name, j, opt, lon, lat, r)
    el = elements(name, j)
    check_bounds(name, j, opt, lon, lat, r, el)
    show = {"lon": lon(), "lat": lat(), "r": r}
    if not opt.startswith("apparent"):
        lk, bk, rk = kepler_position(el)
        sep = S.sep_deg(lon(), lat(), lk, bk)
        site = site_of(name, opt)
        if sep > AMP[name]:
            raise Violation("%s(JDE %r) = (%.5f, %.5f) is %.4f deg from the position of the "
                            "library's mean elements (%.5f, %.5f); amplitude allowed %.1f"
                            % (site, j, lon(), lat(), sep, lk, bk, AMP[name]), site=site,
                            kind="differential_direction", sep=sep)
        if abs(r - rk) > 0.01 * rk:
            raise Violation("%s(JDE %r): radius %r differs from the mean-element radius %r by "
                            "more than 1 %%" % (site, j, r, rk), site=site,
                            kind="differential_radius", r=r, rk=rk)
        show["sep_to_kepler_deg"] = sep
        show["dr_rel"] = abs(r - rk) / rk
    nontrivial = abs(year - 2000.0) > 1000.0 or opt != "fk5"
    return {"labels": ["planet:" + name, "opt:" + opt, era_label(year)], "nontrivial": nontrivial,
            "show": show}


# --------------------------------------------------------------------- rate

def check_rate(name, site, j, dl, dt_days, el, what):
    vmin, vmax = rate_extremes(el[1], el[2])
    if not (0.0 < dl < 180.0):
        raise Violation("%s: longitude does not increase over %s from JDE %r: change %r deg"
                        % (site, what, j, dl if dl < 180 else dl - 360.0), site=site,
                        kind="not_increasing", dl=dl, step=dt_days)
    rate = dl / dt_days
    if not (0.97 * vmin <= rate <= 1.03 * vmax):
        raise Violation("%s: mean longitude rate over %s from JDE %r is %r deg/d, Keplerian "
                        "extremes are [%r, %r] (3 %% slack)" % (site, what, j, rate, vmin, vmax),
                        site=site, kind="rate", rate=rate, vmin=vmin, vmax=vmax)
    return rate / vmax, rate / vmin


def body_rate(case):
    name, year, opt = case["planet"], case["year"], case["opt"]
    j = jde_of(min(year, Y_HI - 0.01))
    l1, b1, r1 = position(name, j, opt)
    l2, b2, r2 = position(name, j + 1.0, opt)
    dl = (l2() - l1()) % 360.0
    hi, lo = check_rate(name, site_of(name, opt), j, dl, 1.0, elements(name, j), "1 day")
    return {"n": 2, "labels": ["planet:" + name, "opt:" + opt, era_label(year)],
            "nontrivial": abs(year - 2000.0) > 1000.0 or opt != "fk5",
            "show": {"deg_per_day": dl, "rate/vmax": hi, "rate/vmin": lo}}


# --------------------------------------------------------------------- sweeps

def body_orbit(case):
    name, year = case["planet"], case["year"]
    opt = "fk5"
    P = PERIOD_D[name]
    if name in INNER:
        steps = [1.0] * (int(P) + 2)
    else:
        steps = [P / 400.0] * 400 + [1.0] * 200
    span = sum(steps)
    j = min(jde_of(year), jde_of(Y_HI) - span - 1.0)
    site = site_of(name, opt)
    lon, lat, r = position(name, j, opt)
    n = 1
    total = 0.0
    worst_hi, worst_lo = 0.0, 9.0
    for k, dt in enumerate(steps):
        el = elements(name, j)
        check_range(name, j, opt, lon, lat, r)
        check_bounds(name, j, opt, lon, lat, r, el)
        j2 = j + dt
        lon2, lat2, r2 = position(name, j2, opt)
        dl = (lon2() - lon()) % 360.0
        hi, lo = check_rate(name, site, j, dl, dt, el, "a step of %.4g d" % dt)
        worst_hi, worst_lo = max(worst_hi, hi), min(worst_lo, lo)
        if k < (len(steps) if name in INNER else 400):
            total += dl
        j, lon, lat, r = j2, lon2, lat2, r2
        n += 1
    # a whole revolution was walked: the increments add up to about 360 degrees
    want = 360.0 * (sum(steps[:len(steps) if name in INNER else 400]) / P)
    if abs(total - want) > 0.05 * want:
        raise Violation("%s: longitude advanced %r deg over a walk of one revolution from JDE %r "
                        "(expected about %r)" % (site, total, j, want), site=site,
                        kind="revolution", total=total)
    return {"n": n, "nt": n, "labels": {"sweep_orbit:" + name: 1, "sweep_orbit_steps": n,
                                        era_label(year): 1},
            "show": {"steps": n, "max rate/vmax": worst_hi, "min rate/vmin": worst_lo,
                     "advance_deg": total}}


def body_second(case):
    name, year = case["planet"], case["year"]
    opt = case.get("opt", "fk5")
    nsteps = case.get("steps", 3600)
    j0 = min(jde_of(year), jde_of(Y_HI) - 0.05)
    site = site_of(name, opt)
    el = elements(name, j0)
    vmin, vmax = rate_extremes(el[1], el[2])
    cap = 2.0 * vmax / 86400.0
    lon, lat, r = position(name, j0, opt)
    L, R = lon(), r
    max_dl = 0.0
    for k in range(1, nsteps + 1):
        j = j0 + k / 86400.0
        lon, lat, r = position(name, j, opt)
        dl = circ(lon(), L)
        if not (0.0 < dl < cap):
            raise Violation("%s: one-second step ending at JDE %r (step %d from %r) changes the "
                            "longitude by %r deg; allowed (0, %r)" % (site, j, k, j0, dl, cap),
                            site=site, kind="second_step_lon", dl=dl, cap=cap)
        if abs(r - R) >= 1e-6:
            raise Violation("%s: one-second step ending at JDE %r changes R by %r AU"
                            % (site, j, r - R), site=site, kind="second_step_radius", dr=r - R)
        max_dl = max(max_dl, dl)
        L, R = lon(), r
    return {"n": nsteps + 1, "nt": nsteps, "labels": {"sweep_second:" + name: 1,
                                                      "sweep_second_steps": nsteps,
                                                      era_label(year): 1},
            "show": {"steps": nsteps, "max_dl_deg": max_dl, "cap_deg": cap}}


SEAM_OFFSETS = [-3e-2, -1e-2, -1e-3, -1e-5, -1e-7, 0.0, 1e-8, 1e-7, 1e-6, 1e-5, 1e-4, 1e-3,
                3e-3, 1e-2, 2e-2, 3e-2]


def find_crossing(name, j):
    """Next epoch after j at which the library's geometric longitude (no FK5) wraps from
    near 360 to near 0; bracket by stepping, then bisection down to the float grid."""
    def lon(jj):
        lo, la_, r_ = position(name, jj, "nofk5")
        check_range(name, jj, "nofk5", lo, la_, r_)
        return lo()
    step = PERIOD_D[name] / 36.0
    a, la = j, lon(j)
    n = 1
    for _ in range(80):
        b = a + step
        lb = lon(b)
        n += 1
        if lb < la:
            break
        a, la = b, lb
    else:
        raise Violation("%s: the heliocentric longitude did not pass through 360 -> 0 within %.1f "
                        "revolutions after JDE %r" % (site_of(name, "nofk5"), 80 / 36.0, j),
                        site="Coordinates.vsop_pos", kind="no_wrap")
    for _ in range(64):
        m = 0.5 * (a + b)
        if m == a or m == b:
            break
        lm = lon(m)
        n += 1
        if lm >= la:
            a, la = m, lm
        else:
            b = m
    return b, n


def body_seam(case):
    name, year = case["planet"], case["year"]
    j = min(jde_of(year), jde_of(Y_HI) - PERIOD_D[name] * 1.1)
    jc, n = find_crossing(name, j)
    opts = OPTS if name == "Earth" else OPTS[:3]
    for off in SEAM_OFFSETS + [case.get("off", 0.0)]:
        for opt in opts:
            lon, lat, r = position(name, jc + off, opt)
            n += 1
            check_range(name, jc + off, opt, lon, lat, r)
    return {"n": n, "nt": n - 1, "labels": {"seam:" + name: 1, era_label(year): 1},
            "show": {"crossing_jde": jc}}


# --------------------------------------------------------------------- evaluator

def ref_series(table, t):
    """sum_k t^k * sum_i A cos(B + C t), inner sums by fsum (correctly rounded), outer
    combination in exact rationals; scaled by 1e-8."""
    tf = F(t)
    tot = F(0)
    p = F(1)
    for series in table:
        s = math.fsum(a * math.cos(b + c * t) for a, b, c in series)
        tot += F(s) * p
        p *= tf
    return tot / 10 ** 8


def rounding_bound(table, t, total_abs):
    """A-priori bound of the double-precision error of summing the series recursively,
    nesting in t, dividing by 1e8 and passing through degrees."""
    b = 0.0
    at = abs(t)
    for k, series in enumerate(table):
        sa = math.fsum(abs(a) for a, _, _ in series)
        b += (len(series) + 2 * k + 8) * U * sa * at ** k
    return b * 1e-8 + 6 * U * max(total_abs, 2 * math.pi)


def body_evaluator(case):
    name, year = case["planet"], case["year"]
    mod, P = planet_mod(name)
    j = jde_of(year)
    e = Epoch(j)
    lon, lat, r = vsop_pos(e, mod.VSOP87_L, mod.VSOP87_B, mod.VSOP87_R)
    t = (e.jde() - 2451545.0) / 365250.0
    site = "Coordinates.vsop_pos"
    Bx = ref_series(mod.VSOP87_B, t)
    Rx = ref_series(mod.VSOP87_R, t)
    db = abs(float(F(lat.rad()) - Bx))
    dr = abs(float(F(r) - Rx))
    if db > 1e-11:
        raise Violation("vsop_pos(%s, JDE %r): latitude differs from the direct summation of the "
                        "B tables by %.3e rad" % (name, j, db), site=site, kind="evaluator",
                        coord="B", dev=db, rounding_bound=rounding_bound(mod.VSOP87_B, t, abs(float(Bx))))
    if dr > 1e-11:
        raise Violation("vsop_pos(%s, JDE %r): radius vector differs from the direct summation "
                        "of the R tables by %.3e AU" % (name, j, dr), site=site, kind="evaluator",
                        coord="R", dev=dr, rounding_bound=rounding_bound(mod.VSOP87_R, t, abs(float(Rx))))
    Lx = ref_series(mod.VSOP87_L, t)
    d = (F(lon.rad()) - Lx) % (2 * PI)
    if d > PI:
        d -= 2 * PI
    dl = abs(float(d))
    labels = ["planet:" + name, era_label(year)]
    # The longitude before reduction reaches 1e5 rad at the era ends, where one double ulp is
    # 1.5e-11 rad: no evaluation in double precision (the library's nested one, or a literal
    # term-by-term loop) can agree with the exact sum to 1e-11 rad there.  The comparison
    # therefore allows, on top of the stated 1e-11 rad, the a-priori rounding bound of the
    # double-precision summation at that epoch (1e-12 rad near J2000, a few 1e-10 rad at |t| = 4,
    # never more than 2e-8 rad; far below the effect of a dropped term or a changed nesting).
    rb = min(rounding_bound(mod.VSOP87_L, t, abs(float(Lx))), 2e-8)
    if rb > 1e-11:
        labels.append("longitude_tolerance_widened_by_rounding_bound")
    if dl > 1e-11 + rb:
        raise Violation("vsop_pos(%s, JDE %r): longitude differs from the direct (exact) summation "
                        "of the L tables by %.3e rad (> 1e-11); unreduced longitude %.1f rad, "
                        "a-priori double-precision rounding bound %.2e rad"
                        % (name, j, dl, float(Lx), rb), site=site, kind="evaluator", coord="L",
                        dev=dl, rounding_bound=rb, t=t)
    # the same evaluation a fraction of a millisecond later (an ulp-neighbour of the epoch, not a
    # new random one): the result must again be the direct sum *at that epoch*
    dt = (1e-9, 5e-9, 2e-8, 1e-8)[int(abs(year) * 977.0) % 4]
    e2 = Epoch(e.jde() + dt)
    if e2.jde() != e.jde():
        lon2, lat2, r2 = vsop_pos(e2, mod.VSOP87_L, mod.VSOP87_B, mod.VSOP87_R)
        t2 = (e2.jde() - 2451545.0) / 365250.0
        L2 = ref_series(mod.VSOP87_L, t2)
        d2 = (F(lon2.rad()) - L2) % (2 * PI)
        if d2 > PI:
            d2 -= 2 * PI
        if abs(float(d2)) > 1e-11 + rb:
            raise Violation("vsop_pos(%s, JDE %r), evaluated right after JDE %r: longitude differs from the "
                            "direct summation at that epoch by %.3e rad (the first evaluation was within %.1e)"
                            % (name, e2.jde(), e.jde(), float(d2), dl), site=site, kind="evaluator_neighbour",
                            dev=abs(float(d2)))
        labels.append("neighbour_epoch_evaluated")
    return {"labels": labels, "nontrivial": abs(year - 2000.0) > 1000.0,
            "show": {"dL_rad": dl, "dB_rad": db, "dR_au": dr}}


# --------------------------------------------------------------------- corrections

ASEC = 1.0 / 3600.0


def body_corrections(case):
    name, year = case["planet"], case["year"]
    j = jde_of(year)
    l0, b0, r0 = position(name, j, "nofk5")
    l1, b1, r1 = position(name, j, "fk5")
    la, ba, ra = position(name, j, "apparent")
    T = (Epoch(j).jde() - 2451545.0) / 36525.0
    lp = math.radians(l0() - 1.397 * T - 0.00031 * T * T)
    tanb = math.tan(math.radians(b0()))
    dl_doc = (-0.09033 + 0.03916 * (math.cos(lp) + math.sin(lp)) * tanb) * ASEC
    db_doc = 0.03916 * (math.cos(lp) - math.sin(lp)) * ASEC
    dl = circ(l1(), l0())
    db = b1() - b0()
    site = "Coordinates.geometric_vsop_pos"
    if abs(dl - dl_doc) > 1e-9 or abs(db - db_doc) > 1e-9 or r1 != r0:
        raise Violation("%s FK5 correction at JDE %r: dL = %.9f\", dB = %.9f\" (documented formulae "
                        "give %.9f\", %.9f\"), dR = %r" % (name, j, dl * 3600, db * 3600,
                                                           dl_doc * 3600, db_doc * 3600, r1 - r0),
                        site=site, kind="fk5", dl=dl, db=db, dl_doc=dl_doc, db_doc=db_doc)
    amp = 0.03916 * math.sqrt(2.0) * ASEC
    if abs(dl + 0.09033 * ASEC) > amp * abs(tanb) + 1e-12 or abs(db) > amp + 1e-12:
        raise Violation("%s FK5 correction at JDE %r exceeds its documented size: dL = %.6f\", "
                        "dB = %.6f\"" % (name, j, dl * 3600, db * 3600), site=site, kind="fk5_size")
    site = "Coordinates.apparent_vsop_pos"
    dpsi = nutation_longitude(Epoch(j))()
    want = dpsi - 20.4898 * ASEC / r1
    got = circ(la(), l1())
    if abs(got - want) > 1e-9 or ba() != b1() or ra != r1:
        raise Violation("%s apparent - geometric longitude at JDE %r is %.9f\", expected nutation "
                        "%.6f\" - 20.4898\"/R = %.9f\" (dB = %r, dR = %r)"
                        % (name, j, got * 3600, dpsi * 3600, want * 3600, ba() - b1(), ra - r1),
                        site=site, kind="aberration", got=got, want=want)
    n = 3
    labels = ["planet:" + name, era_label(year)]
    if name == "Earth":
        ln, bn, rn = position(name, j, "apparent_nonut")
        n = 4
        got = circ(ln(), l1())
        want = -20.4898 * ASEC / r1
        if abs(got - want) > 1e-9 or bn() != b1() or rn != r1:
            raise Violation("Earth apparent(nutation=False) - geometric longitude at JDE %r is "
                            "%.9f\", expected -20.4898\"/R = %.9f\"" % (j, got * 3600, want * 3600),
                            site=site, kind="aberration_nonut", got=got, want=want)
        labels.append("opt:apparent_nonut")
        # the J2000-referred Earth series has the same tofk5 option: whatever the series gives
        # (it has a known defect, C08), the documented FK5 step must separate its two option values
        mod, P = planet_mod("Earth")
        lj0, bj0, rj0 = P.geometric_heliocentric_position_j2000(Epoch(j), tofk5=False)
        lj1, bj1, rj1 = P.geometric_heliocentric_position_j2000(Epoch(j), tofk5=True)
        lpj = math.radians(lj0() - 1.397 * T - 0.00031 * T * T)
        tbj = math.tan(math.radians(bj0()))
        dlj_doc = (-0.09033 + 0.03916 * (math.cos(lpj) + math.sin(lpj)) * tbj) * ASEC
        dbj_doc = 0.03916 * (math.cos(lpj) - math.sin(lpj)) * ASEC
        dlj, dbj = circ(lj1(), lj0()), bj1() - bj0()
        if abs(dlj - dlj_doc) > 1e-9 or abs(dbj - dbj_doc) > 1e-9 or rj1 != rj0:
            raise Violation("Earth.geometric_heliocentric_position_j2000 at JDE %r: tofk5=True minus tofk5=False is "
                            "dL = %.9f\", dB = %.9f\" (documented FK5 formulae give %.9f\", %.9f\")"
                            % (j, dlj * 3600, dbj * 3600, dlj_doc * 3600, dbj_doc * 3600),
                            site="Earth.geometric_heliocentric_position_j2000", kind="fk5_j2000")
        n = 5
        labels.append("opt:j2000_tofk5")
    return {"n": n, "labels": labels, "nontrivial": True,
            "show": {"fk5_dL_arcsec": dl * 3600, "fk5_dB_arcsec": db * 3600,
                     "app_minus_geo_arcsec": circ(la(), l1()) * 3600}}


# --------------------------------------------------------------------- element tables

def series_secular_rate(mod, t):
    """d/dt of the non-periodic part of the L series, degrees/day."""
    rate = 0.0
    for k, series in enumerate(mod.VSOP87_L):
        if k == 0:
            continue
        c = math.fsum(a for a, b, cc in series if cc == 0.0 and b == 0.0)
        rate += k * c * t ** (k - 1)
    return math.degrees(rate * 1e-8) / 365250.0


def body_meanrate(case):
    name, year = case["planet"], case["year"]
    mod, P = planet_mod(name)
    j = jde_of(year)
    t = (j - 2451545.0) / 365250.0
    rs = series_secular_rate(mod, t)
    h = 0.5
    la = P.orbital_elements_mean_equinox(Epoch(j - h))[0]()
    lb = P.orbital_elements_mean_equinox(Epoch(j + h))[0]()
    re = ((lb - la) % 360.0) / (2 * h)
    rel = abs(rs - re) / re
    if not rel <= 1e-6:
        raise Violation("%s: secular rate of the VSOP87 L series at JDE %r is %.10f deg/d, the "
                        "mean longitude of orbital_elements_mean_equinox moves %.10f deg/d "
                        "(relative difference %.2e > 1e-6)" % (name, j, rs, re, rel),
                        site=name + ".orbital_elements_mean_equinox", kind="mean_rate", rel=rel)
    return {"labels": ["planet:" + name, era_label(year)],
            "nontrivial": abs(year - 2000.0) > 1000.0, "show": {"rel": rel, "deg_per_day": re}}


def body_kepler3(case):
    name, year = case["planet"], case["year"]
    mod, P = planet_mod(name)
    j = jde_of(year)
    h = 10.0
    la = P.orbital_elements_j2000(Epoch(j - h))[0]()
    lb = P.orbital_elements_j2000(Epoch(j + h))[0]()
    a = P.orbital_elements_j2000(Epoch(j))[1]
    n = math.radians((lb - la) % 360.0) / (2 * h)
    ratio = n * n * a ** 3 / (tb.K ** 2 * (1.0 + 1.0 / RMASS[name]))
    if not abs(ratio - 1.0) <= K3TOL[name]:
        raise Violation("%s at JDE %r: n^2 a^3 / (k^2 (1 + m)) = %.6f with the sidereal mean motion "
                        "%.10f deg/d and a = %r (tolerance %g)"
                        % (name, j, ratio, math.degrees(n), a, K3TOL[name]),
                        site=name + ".orbital_elements_j2000", kind="kepler3", ratio=ratio)
    return {"labels": ["planet:" + name, era_label(year)],
            "nontrivial": abs(year - 2000.0) > 1000.0, "show": {"ratio": ratio}}


CLAUSES = {"bounds": body_bounds, "rate": body_rate, "orbit": body_orbit, "second": body_second,
           "seam": body_seam, "evaluator": body_evaluator, "corrections": body_corrections,
           "meanrate": body_meanrate, "kepler3": body_kepler3}


# --------------------------------------------------------------------- known findings

KNOWN_SIGNATURES = {}


# --------------------------------------------------------------------- strategies

def years():
    return st.one_of(S.years(Y_LO, Y_HI), st.floats(Y_LO, Y_HI),
                     st.sampled_from([Y_LO, Y_HI, 2000.0, 1992.0, 0.0, 1582.79, -1999.999, 3999.999]))


def planets():
    return st.sampled_from(PLANETS)


def _opt_case(p, y, o):
    if o == "apparent_nonut" and p != "Earth":
        o = "apparent"
    return {"planet": p, "year": y, "opt": o}


def point_cases():
    return st.builds(_opt_case, planets(), years(),
                     st.sampled_from(["fk5", "fk5", "nofk5", "nofk5", "apparent", "apparent_nonut"]))


def rate_cases():
    return st.builds(_opt_case, planets(), years(),
                     st.sampled_from(["fk5", "fk5", "nofk5", "apparent", "apparent_nonut"]))


def plain_cases():
    return st.builds(lambda p, y: {"planet": p, "year": y}, planets(), years())


def planet_year(name):
    return st.builds(lambda y: {"planet": name, "year": y}, years())


def second_cases(name):
    return st.builds(lambda y, o: _opt_case(name, y, o), years(),
                     st.sampled_from(["fk5", "nofk5", "apparent"]))


def seam_cases(name):
    return st.builds(lambda y, off: {"planet": name, "year": y, "off": off}, years(),
                     st.one_of(st.floats(-0.05, 0.05),
                               st.floats(-7, -1).map(lambda x: 10.0 ** x),
                               st.floats(-7, -1).map(lambda x: -10.0 ** x)))


# evaluations per sweep case, used to balance the tasks
ORBIT_STEPS = {"Mercury": 90, "Venus": 227, "Earth": 368, "Mars": 689, "Jupiter": 601,
               "Saturn": 601, "Uranus": 601, "Neptune": 601}


def tasks(tier, seed):
    mult = 1 if tier == "quick" else 10
    k = 1 if tier == "quick" else 2
    out = []
    for clause, shards, n in (("bounds", 12, 3000), ("rate", 6, 2000), ("evaluator", 8, 1200),
                              ("corrections", 6, 1500), ("meanrate", 1, 3000),
                              ("kepler3", 1, 3000)):
        for sh in range(shards * k):
            out.append(Task("t_given", clause=clause, shard=sh, n=n * mult // k))
    for name in PLANETS:
        # about 5000 evaluations of one planet's series per orbit task, 7200 per second task
        n_orbit = max(4, 5000 // ORBIT_STEPS[name])
        for sh in range(2 * mult):
            out.append(Task("t_sweep", clause="orbit", planet=name, shard=sh, n=n_orbit))
            out.append(Task("t_sweep", clause="second", planet=name, shard=sh, n=2))
            out.append(Task("t_sweep", clause="seam", planet=name, shard=sh, n=30))
    return out


STRATS = {"bounds": point_cases, "rate": rate_cases, "evaluator": plain_cases,
          "corrections": plain_cases, "meanrate": plain_cases, "kepler3": plain_cases}


def t_given(rec, clause, shard, n):
    rec.given(clause, STRATS[clause](), n, shard=shard)


def t_sweep(rec, clause, planet, shard, n):
    strat = {"orbit": planet_year, "second": second_cases, "seam": seam_cases}[clause](planet)
    rec.given(clause, strat, n, shard="%s-%d" % (planet, shard))
