"""API inventory and argument registry for C20 (side-effect free and total).

Every public callable of every pymeeus module gets a Spec: how to build `self` (for
instance methods), a Hypothesis strategy of JSON-encodable well-typed in-domain
arguments (domains from the docstrings), the documented refusals, and whether it is a
documented mutator of `self`.

JSON value encoding (decoded by `dec`):
  {"$A": deg} Angle      {"$E": jde} Epoch       {"$T": [...]} tuple
  {"$fn": name} basis function   {"$tbl": "Module.NAME"} module-level table
  {"$ell": [a, f, omega]} Ellipsoid   {"$o": cls, "a": [...]} object built by cls(*a)
  {"$date": [y, m, d]} datetime.date   {"$dt": [y, m, d, h, mi, s]} datetime.datetime
"""
import datetime
import importlib
import inspect
import math
import re

from hypothesis import strategies as st

from pymeeus.Angle import Angle
from pymeeus.Epoch import Epoch
from pymeeus.Interpolation import Interpolation
from pymeeus.CurveFitting import CurveFitting
from pymeeus.Earth import Earth, Ellipsoid
from pymeeus.Minor import Minor

from .. import strategies as S

MODULES = ["base", "Angle", "Epoch", "Coordinates", "Interpolation", "CurveFitting", "Earth",
           "Sun", "Moon", "Minor", "Pluto", "JupiterMoons", "Mercury", "Venus", "Mars",
           "Jupiter", "Saturn", "Uranus", "Neptune"]
PLANETS = ["Mercury", "Venus", "Mars", "Jupiter", "Saturn", "Uranus", "Neptune"]

FUNCS = {
    "one": lambda x: 1.0, "x": lambda x: x, "x2": lambda x: x * x,
    "sin": math.sin, "cos": math.cos, "sin2": lambda x: math.sin(2 * x),
    "exp": lambda x: math.exp(x / 100.0),
}


def mod(name):
    return importlib.import_module("pymeeus." + name)


def dec(v):
    if isinstance(v, dict):
        if "$A" in v:
            # Angle(-0.0) and Angle.set(-0.0) may keep different zeros; the reuse relation compares a
            # constructed object with a re-loaded one bit for bit, so Angles are entered with +0.0
            # (the sign of a zero angle is C03's and C04's subject)
            return Angle(v["$A"] + 0.0 if v["$A"] == 0 else v["$A"])
        if "$E" in v:
            return Epoch(v["$E"])
        if "$T" in v:
            return tuple(dec(x) for x in v["$T"])
        if "$fn" in v:
            return FUNCS[v["$fn"]]
        if "$tbl" in v:
            m, n = v["$tbl"].split(".")
            return getattr(mod(m), n)
        if "$ell" in v:
            return Ellipsoid(*v["$ell"])
        if "$date" in v:
            return datetime.date(*v["$date"])
        if "$dt" in v:
            return datetime.datetime(*v["$dt"])
        if "$o" in v:
            cls = {"Angle": Angle, "Epoch": Epoch, "Interpolation": Interpolation,
                   "CurveFitting": CurveFitting, "Earth": Earth, "Minor": Minor,
                   "Ellipsoid": Ellipsoid, "Sun": mod("Sun").Sun}[v["$o"]]
            a = [dec(x) for x in v["a"]]
            if v["$o"] == "Angle":
                a = [x + 0.0 if isinstance(x, float) and x == 0 else x for x in a]
            return cls(*a)
        return {k: dec(x) for k, x in v.items()}
    if isinstance(v, list):
        return [dec(x) for x in v]
    return v


def _fr(x):
    """repr of a float for snapshots; the two zeros are equal values (-0.0 == 0.0) and compare so."""
    return repr(x + 0.0) if x == 0 else repr(x)


def freeze(o, depth=0):
    """Canonical deep snapshot (hashable, comparable with ==)."""
    # library objects are observed through their public API, so that a hidden (correctly
    # invalidated) cache attribute is not mistaken for a change of the object's value
    if isinstance(o, Angle):
        return ("Angle", _fr(o()), repr(o.get_tolerance()))
    if isinstance(o, Epoch):
        return ("Epoch", _fr(o.jde()))
    if isinstance(o, Interpolation):
        return ("Interpolation", repr(o), repr(o.get_tolerance()))
    if isinstance(o, (CurveFitting, Earth, Ellipsoid)):
        return (type(o).__name__, repr(o))
    if isinstance(o, float):
        return ("f", _fr(o))
    if isinstance(o, (bool, int, str, type(None), complex)):
        return (type(o).__name__, o)
    if isinstance(o, (list, tuple)):
        return (type(o).__name__,) + tuple(freeze(x, depth + 1) for x in o)
    if isinstance(o, dict):
        return ("dict",) + tuple(sorted((repr(k), freeze(x, depth + 1)) for k, x in o.items()))
    if isinstance(o, (datetime.date, datetime.datetime)):
        return ("date", o.isoformat())
    if callable(o) and not hasattr(o, "__dict__"):
        return ("callable", repr(o))
    if inspect.isfunction(o) or inspect.isbuiltin(o):
        return ("function", getattr(o, "__name__", "?"))
    if hasattr(o, "__dict__") and depth < 6:
        return (type(o).__name__,) + tuple(sorted((k, freeze(x, depth + 1))
                                                  for k, x in vars(o).items()))
    return ("repr", repr(o))


def floats_in(o, out=None):
    out = [] if out is None else out
    if isinstance(o, Angle):
        out.append(o._deg)
    elif isinstance(o, Epoch):
        out.append(o._jde)
    elif isinstance(o, float):
        out.append(o)
    elif isinstance(o, (list, tuple)):
        for x in o:
            floats_in(x, out)
    elif isinstance(o, dict):
        for x in o.values():
            floats_in(x, out)
    return out


# ---------------------------------------------------------------------------------
# module-level state snapshot

_PLAIN = (int, float, str, list, tuple, dict)


def _module_items():
    for m in MODULES:
        mo = mod(m)
        for name, obj in list(vars(mo).items()):
            if name.startswith("__") or inspect.ismodule(obj) or inspect.isfunction(obj) \
                    or inspect.isbuiltin(obj):
                continue
            if inspect.isclass(obj):
                if obj.__module__ != mo.__name__:
                    continue
                for k, v in list(vars(obj).items()):
                    if k.startswith("__") or callable(v) or isinstance(v, (staticmethod, classmethod, property)):
                        continue
                    yield "%s.%s.%s" % (m, name, k), obj, k, v
                continue
            if isinstance(obj, _PLAIN) or isinstance(obj, (Angle, Epoch, Ellipsoid)):
                yield "%s.%s" % (m, name), mo, name, obj


class ModuleState(object):
    """Reference copy of every module-level table/constant and class attribute; check()
    returns the names that were rebound or changed in place."""

    def __init__(self):
        import copy
        self.ref = []
        for qual, holder, name, obj in _module_items():
            if obj is None or (isinstance(obj, (list, dict)) and len(obj) == 0):
                # a container that is empty at import time is not a table or a constant (it can
                # only be a cache or a registry filled at run time); what such a cache does to
                # results is judged by behaviour (repeat / reuse / fresh-object relations)
                continue
            if isinstance(obj, _PLAIN):
                self.ref.append((qual, holder, name, obj, copy.deepcopy(obj), None))
            else:
                self.ref.append((qual, holder, name, obj, None, freeze(obj)))

    def check(self):
        changed = []
        for qual, holder, name, obj, cp, fz in self.ref:
            cur = getattr(holder, name, None)
            if cur is not obj:
                changed.append(qual + " (rebound)")
            elif cp is not None:
                if obj != cp:
                    changed.append(qual)
            elif freeze(obj) != fz:
                changed.append(qual)
        return changed


# ---------------------------------------------------------------------------------
# strategies of encoded values

def _angle_vals(lo, hi):
    sp = [x for x in (0.0, -0.0, 90.0, -90.0, 180.0, -180.0, 270.0, 359.99999999999994,
                      -359.99999999999994, 1e-12, -1e-12, 89.99999999999999, -89.99999999999999,
                      23.4392911, 45.0) if lo <= x <= hi]
    return st.one_of(st.floats(lo, hi), st.floats(lo, hi), st.sampled_from(sp + [lo, hi]))


def A(lo=-359.999999, hi=359.999999):
    return _angle_vals(lo, hi).map(lambda x: {"$A": x})


def A_open(lo, hi, margin=1e-6):
    """Angle strictly inside (lo, hi): for documented open domains."""
    return st.floats(lo + margin, hi - margin).map(lambda x: {"$A": x})


A_ANY = A()
A_LAT = A(-90.0, 90.0)
A_LAT_OPEN = A_open(-90.0, 90.0, 1e-3)
A_OBL = A(0.0, 30.0)
A_SMALL = st.floats(-0.003, 0.003).map(lambda x: {"$A": x})     # proper motions, deg/yr
A_POS = A(0.0, 359.999999)


def E(y0=-2000.0, y1=4000.0):
    lo, hi = S.jde_from_year(y0) + 2.0, S.jde_from_year(y1) - 2.0
    return st.one_of(st.floats(lo, hi), st.floats(max(lo, 2415020.0), min(hi, 2488070.0)),
                     st.integers(int(lo) + 1, int(hi) - 1).map(lambda n: n + 0.5)
                     ).map(lambda j: {"$E": j})


E_ANY = E()
E_MODERN = E(1900.0, 2100.0)
E_PLUTO = E(1885.5, 2098.5)
E_FULL = st.one_of(st.floats(0.0, 5.4e6), st.integers(0, 5400000).map(lambda n: n + 0.5)
                   ).map(lambda j: {"$E": j})
BOOL = st.booleans()
DIST = st.one_of(st.floats(0.05, 60.0), S.log_uniform(1e-3, 1e3))
POSF = st.floats(0.1, 50.0)


def F(lo, hi):
    return st.floats(lo, hi)


def I(lo, hi):
    return st.integers(lo, hi)


def civil_ymd(y0=-4712, y1=6000):
    from ..oracles import calendar as cal

    def fix(y, m, d):
        L = cal.month_len(y, m)
        d = min(d, L)
        if y == 1582 and m == 10 and 5 <= d <= 14:
            d = 15
        return [y, m, d]
    return st.builds(fix, st.integers(y0, y1), st.integers(1, 12), st.integers(1, 31))


def interp_tables(minn=3, maxn=7):
    def build(n, x0, h, ys):
        xs = [x0 + h * i for i in range(n)]
        return [xs, ys[:n]]
    return st.builds(build, st.shared(st.integers(minn, maxn), key="n_interp"),
                     st.floats(-10, 10), st.sampled_from([0.5, 1.0, 2.0, 0.25]),
                     st.lists(st.floats(-50, 50), min_size=maxn, max_size=maxn))


def fit_tables():
    def build(n, xs, ys):
        xs = sorted(set(round(x, 3) for x in xs))[:n]
        while len(xs) < 4:
            xs.append((xs[-1] if xs else 0.0) + 1.0)
        ys = [round(y, 3) + 0.37 * i * i for i, y in enumerate(ys[:len(xs)])]   # never constant/collinear by accident
        return [xs, ys]
    return st.builds(build, st.integers(4, 12), st.lists(st.floats(-100, 100), min_size=12, max_size=12),
                     st.lists(st.floats(-100, 100), min_size=12, max_size=12))


SELF_ANGLE = st.floats(-359.999999, 359.999999).map(lambda x: {"$o": "Angle", "a": [x]})
def _year_start_offsets():
    """Instants within a few minutes after/before 0h of 1 January / first of a month (TT), where
    the UTC read-back crosses a year or month boundary."""
    from ..oracles import calendar as cal
    return st.builds(lambda y, m, sec: cal.jdn(y, m, 1) - 0.5 + sec / 86400.0,
                     st.one_of(st.integers(1972, 2100), st.integers(-2000, 4000)),
                     st.sampled_from([1, 1, 1, 3, 7, 12]),
                     st.one_of(st.floats(-120.0, 120.0), st.sampled_from([0.0, 30.0, 60.0, 69.0, -1.0])))


SELF_EPOCH = st.one_of(st.floats(625000.0, 3180000.0), st.floats(2415020.0, 2488070.0),
                       _year_start_offsets(),
                       st.integers(625000, 3180000).map(lambda n: n + 0.5)
                       ).map(lambda j: {"$o": "Epoch", "a": [j]})
SELF_INTERP = interp_tables().map(lambda t: {"$o": "Interpolation", "a": t})
SELF_FIT = fit_tables().map(lambda t: {"$o": "CurveFitting", "a": t})
ELL = st.one_of(st.just({"$tbl": "Earth.IAU76"}), st.just({"$tbl": "Earth.WGS84"}),
                st.builds(lambda a, f: {"$ell": [a, f, 7.292115e-5]}, st.floats(6.3e6, 6.4e6),
                          st.floats(0.0, 0.01)))
SELF_EARTH = st.one_of(st.just({"$o": "Earth", "a": []}), ELL.map(lambda e: {"$o": "Earth", "a": [e]}))
SELF_ELL = st.builds(lambda a, f: {"$o": "Ellipsoid", "a": [a, f, 7.292115e-5]},
                     st.floats(6.3e6, 6.4e6), st.floats(0.0, 0.01))


def minor_args():
    return st.tuples(S.log_uniform(0.2, 30.0),
                     st.one_of(st.floats(0.0, 0.97), st.sampled_from([0.0, 0.5, 0.9])),
                     A(0.0, 180.0), A_POS, A_POS, E_MODERN).map(list)


SELF_MINOR = minor_args().map(lambda a: {"$o": "Minor", "a": a})
# tables used only to "warm" an object before it is re-loaded through set(): degenerate ones too
WARM_FIT = st.one_of(fit_tables(), st.builds(lambda x, ys: [[x] * len(ys), ys], st.floats(-100, 100),
                                             st.lists(st.floats(-10, 10), min_size=3, max_size=5)),
                     st.builds(lambda x, ys: [[x, x + 1.0] * 2, ys], st.floats(-100, 100),
                               st.lists(st.floats(-10, 10), min_size=4, max_size=4))
                     ).map(lambda t: {"$o": "CurveFitting", "a": t})
LATNUM = st.one_of(A_LAT, st.floats(-90, 90), st.integers(-90, 90))
LONNUM = st.one_of(A_ANY, st.floats(-180, 180), st.integers(-180, 180))


def angle_lists(n=5, lat=False):
    base = st.floats(-80, 80) if lat else st.floats(10, 340)

    def build(x0, steps):
        out, x = [], x0
        for s in steps:
            out.append({"$A": x})
            x += s
        return out
    return st.builds(build, base, st.lists(st.floats(0.05, 1.5), min_size=n, max_size=n))


def conj_tables(k):
    """k parallel lists of Angles of one common length 3..8 (odd and even), given as lists or
    as tuples (both documented)."""
    def build(n, as_tuple, cols):
        cols = [c[:n] for c in cols]
        return [({"$T": c} if as_tuple else c) for c in cols]
    cols = [angle_lists(8, lat=(i % 2 == 1)) for i in range(k)]
    return st.builds(build, st.integers(3, 8), st.booleans(), st.tuples(*cols))


class Spec(object):
    def __init__(self, qual, params=(), self_st=None, kwargs=None, mutator=False,
                 refusals=(), getter=None, opt=0, allow_none=False):
        self.allow_none = allow_none
        self.qual = qual
        self.params = list(params)
        self.self_st = self_st
        self.kwargs = kwargs or {}
        self.mutator = mutator
        self.refusals = list(refusals)
        self.getter = getter
        self.opt = opt          # number of trailing params that may be omitted

    def resolve(self):
        parts = self.qual.split(".")
        o = mod(parts[0])
        for p in parts[1:]:
            o = getattr(o, p)
        return o

    def doc(self):
        f = self.resolve()
        return inspect.getdoc(f) or ""

    def case_strategy(self):
        ps = st.tuples(*self.params) if self.params else st.just(())
        kw = st.fixed_dictionaries(self.kwargs) if self.kwargs else st.just({})
        se = self.self_st if self.self_st is not None else st.just(None)
        nopt = st.integers(0, self.opt)
        return st.builds(lambda a, k, s, n: {"f": self.qual, "self": s,
                                             "args": list(a)[:len(a) - n] if n else list(a),
                                             "kwargs": k}, ps, kw, se, nopt)


API = {}


def add(qual, *params, **kw):
    API[qual] = Spec(qual, params, **kw)


NOCONV = [("ValueError", "No convergence")]

# ---- base
add("base.iint", st.one_of(F(-1e9, 1e9), I(-10 ** 9, 10 ** 9)))
add("base.get_ordinal_suffix", I(0, 100000))
add("base.machine_accuracy")

# ---- Angle
NUM = st.one_of(F(-1e6, 1e6), I(-10 ** 6, 10 ** 6), F(-360, 360))
add("Angle.Angle", st.one_of(NUM, A_ANY, st.lists(NUM, min_size=1, max_size=3),
                             st.lists(NUM, min_size=1, max_size=3).map(lambda l: {"$T": l})))
add("Angle.Angle.reduce_deg", st.one_of(NUM, A_ANY))
add("Angle.Angle.reduce_dms", NUM, F(0, 1000), F(0, 10000), opt=1)
add("Angle.Angle.deg2dms", NUM)
add("Angle.Angle.dms2deg", NUM, F(0, 1000), F(0, 10000), opt=1)
for name in ("get_tolerance", "__call__", "get_ra", "rad", "dms_tuple", "ra_tuple", "__float__",
             "__int__", "__neg__", "__abs__", "__str__", "__repr__"):
    add("Angle.Angle." + name, self_st=SELF_ANGLE)
add("Angle.Angle.to_positive", self_st=SELF_ANGLE, mutator=True)
add("Angle.Angle.set_tolerance", F(1e-14, 1e-3), self_st=SELF_ANGLE, mutator=True)
add("Angle.Angle.set", st.one_of(NUM, A_ANY), self_st=SELF_ANGLE, mutator=True)
add("Angle.Angle.set_radians", F(-100, 100), self_st=SELF_ANGLE, mutator=True)
add("Angle.Angle.set_ra", F(-48, 48), self_st=SELF_ANGLE, mutator=True)
add("Angle.Angle.dms_str", BOOL, I(-1, 10), self_st=SELF_ANGLE, opt=2)
add("Angle.Angle.ra_str", BOOL, I(-1, 10), self_st=SELF_ANGLE, opt=2)
add("Angle.Angle.__round__", I(0, 10), self_st=SELF_ANGLE, opt=1)
OTHER = st.one_of(A_ANY, F(-1000, 1000), I(-1000, 1000))
OTHER_NZ = st.one_of(st.floats(0.5, 359.0).map(lambda x: {"$A": x}), F(0.5, 1000), I(1, 1000),
                     F(-1000, -0.5))
for op in ("add", "sub", "mul", "radd", "rsub", "rmul", "iadd", "isub", "imul",
           "eq", "ne", "lt", "le", "gt", "ge"):
    add("Angle.Angle.__%s__" % op, OTHER, self_st=SELF_ANGLE)
for op in ("truediv", "mod", "itruediv", "imod", "div", "idiv"):
    add("Angle.Angle.__%s__" % op, OTHER_NZ, self_st=SELF_ANGLE)
SELF_ANGLE_NZ = st.one_of(st.floats(0.5, 359.0), st.floats(-359.0, -0.5)).map(lambda x: {"$o": "Angle", "a": [x]})
for op in ("rtruediv", "rmod", "rdiv"):
    add("Angle.Angle.__%s__" % op, OTHER, self_st=SELF_ANGLE_NZ)
SELF_ANGLE_POS = st.floats(0.5, 20.0).map(lambda x: {"$o": "Angle", "a": [x]})
for op in ("pow", "ipow"):
    add("Angle.Angle.__%s__" % op, st.one_of(I(0, 4), F(0.0, 3.0)), self_st=SELF_ANGLE_POS)
add("Angle.Angle.__rpow__", st.one_of(I(1, 5), F(0.5, 3.0)), self_st=st.floats(-5, 5).map(lambda x: {"$o": "Angle", "a": [x]}))

# ---- Epoch
YMD = civil_ymd()
HMS = st.tuples(I(0, 23), I(0, 59), st.one_of(I(0, 59), F(0, 59.999)))


def epoch_args():
    ymd = YMD
    return st.one_of(
        ymd,
        st.builds(lambda d, h: d + list(h), ymd, HMS),
        st.builds(lambda d, fr: d[:2] + [d[2] + fr], ymd, F(0, 0.999)),
        ymd.map(lambda d: [{"$T": d}]),
        ymd.map(lambda d: [d]),
        civil_ymd(1, 9999).map(lambda d: [{"$date": d}]),
        st.builds(lambda d, h: [{"$dt": d + [h[0], h[1], int(h[2])]}], civil_ymd(1, 9999), HMS),
        E_FULL.map(lambda e: [e]),
        st.floats(0.0, 5.4e6).map(lambda j: [j]),
        st.builds(lambda d, k: [d[0], [S_SHORT, S_LONG][k][d[1] - 1], d[2]], ymd, I(0, 1)),
    )


S_SHORT = ["Jan", "Feb", "Mar", "Apr", "May", "Jun", "Jul", "Aug", "Sep", "Oct", "Nov", "Dec"]
S_LONG = ["January", "February", "March", "April", "May", "June", "July", "August",
          "September", "October", "November", "December"]


class VarSpec(Spec):
    """Callable taking *args: the strategy yields the whole argument list."""

    def __init__(self, qual, args_st, **kw):
        Spec.__init__(self, qual, (), **kw)
        self.args_st = args_st

    def case_strategy(self):
        kw = st.fixed_dictionaries(self.kwargs) if self.kwargs else st.just({})
        se = self.self_st if self.self_st is not None else st.just(None)
        return st.builds(lambda a, k, s: {"f": self.qual, "self": s, "args": list(a), "kwargs": k},
                         self.args_st, kw, se)


API["Epoch.Epoch"] = VarSpec("Epoch.Epoch", epoch_args())
API["Epoch.Epoch:utc"] = VarSpec("Epoch.Epoch", st.builds(lambda d, h: d + list(h), civil_ymd(1900, 2100), HMS),
                                 kwargs={"utc": st.just(True)})
API["Epoch.Epoch:leap_seconds"] = VarSpec("Epoch.Epoch", st.builds(lambda d, h: d + list(h), civil_ymd(1900, 2100), HMS),
                                          kwargs={"leap_seconds": st.one_of(I(0, 60), F(0, 60))})
API["Epoch.Epoch.set"] = VarSpec("Epoch.Epoch.set", epoch_args(), self_st=SELF_EPOCH, mutator=True)
API["Epoch.Epoch.check_input_date"] = VarSpec("Epoch.Epoch.check_input_date", st.one_of(
    YMD, YMD.map(lambda d: [{"$T": d}]), YMD.map(lambda d: [d]), E_FULL.map(lambda e: [e]),
    civil_ymd(1, 9999).map(lambda d: [{"$date": d}])))
add("Epoch.Epoch.is_julian", I(-4712, 6000), I(1, 12), I(1, 31))
add("Epoch.Epoch.get_month", st.one_of(I(1, 12), F(1, 12.9), st.sampled_from(S_SHORT + S_LONG + ["FEB", "august"])),
    BOOL, opt=1)
add("Epoch.Epoch.is_leap", st.one_of(I(-4712, 6000), F(-4712, 6000)))
API["Epoch.Epoch.get_doy"] = VarSpec("Epoch.Epoch.get_doy", st.one_of(
    YMD, st.builds(lambda d, fr: d[:2] + [d[2] + fr], YMD, F(0, 0.999))))
add("Epoch.Epoch.doy2date", I(-4712, 6000), st.one_of(I(1, 365), F(1, 365.999)))
add("Epoch.Epoch.leap_seconds", I(1950, 2100), I(1, 12))
add("Epoch.Epoch.get_last_leap_second")
add("Epoch.Epoch.easter", I(-4712, 10000))
add("Epoch.Epoch.jewish_pesach", I(1, 3000))
add("Epoch.Epoch.moslem2gregorian", I(1, 2500), I(1, 12), I(1, 29))
API["Epoch.Epoch.gregorian2moslem"] = VarSpec("Epoch.Epoch.gregorian2moslem", civil_ymd(623, 3000))
add("Epoch.Epoch.tt2ut", st.one_of(I(-2000, 3000), F(-2000, 3000)), st.one_of(I(1, 12), F(1, 12)))
for name in ("julian", "leap", "doy", "get_date", "get_full_date", "mean_sidereal_time", "mjd",
             "jde", "year", "__call__", "__float__", "__int__", "__hash__", "__str__", "__repr__"):
    add("Epoch.Epoch." + name, self_st=SELF_EPOCH)
add("Epoch.Epoch.get_date:utc", self_st=SELF_EPOCH, kwargs={"utc": st.just(True)})
API["Epoch.Epoch.get_date:utc"].qual = "Epoch.Epoch.get_date"
add("Epoch.Epoch.get_full_date:utc", self_st=SELF_EPOCH, kwargs={"utc": st.just(True)})
API["Epoch.Epoch.get_full_date:utc"].qual = "Epoch.Epoch.get_full_date"
add("Epoch.Epoch.dow", BOOL, self_st=SELF_EPOCH, opt=1)
add("Epoch.Epoch.apparent_sidereal_time", st.one_of(A(22.0, 25.0), F(22.0, 25.0)),
    st.one_of(F(-20, 20), I(-20, 20), st.floats(-0.006, 0.006).map(lambda x: {"$A": x})), self_st=SELF_EPOCH)
# |latitude| <= 60: closer to the polar circles the Sun may really not rise/set at the standard
# altitude (refraction + dip of an elevated observer), which rise_set reports as ValueError; that
# physical criterion is C14's subject
add("Epoch.Epoch.rise_set", A(-60.0, 60.0), A(-180.0, 180.0),
    st.one_of(F(0, 5000), I(0, 5000)), self_st=st.floats(2415021.0, 2488069.0).map(lambda j: {"$o": "Epoch", "a": [j]}), opt=1)
DAYS = st.one_of(F(-1e5, 1e5), I(-10 ** 5, 10 ** 5))
for op in ("add", "radd", "iadd", "isub"):
    add("Epoch.Epoch.__%s__" % op, DAYS, self_st=SELF_EPOCH)
add("Epoch.Epoch.__sub__", st.one_of(DAYS, E_ANY), self_st=SELF_EPOCH)
for op in ("eq", "ne", "lt", "le", "gt", "ge"):
    add("Epoch.Epoch.__%s__" % op, st.one_of(E_ANY, F(0, 5.4e6), I(0, 5400000)), self_st=SELF_EPOCH)

# ---- Coordinates
C = "Coordinates."
for fn in ("mean_obliquity", "true_obliquity", "nutation_longitude", "nutation_obliquity"):
    API[C + fn] = VarSpec(C + fn, st.one_of(
        E_ANY.map(lambda e: [e]), civil_ymd(-2000, 4000),
        civil_ymd(-2000, 4000).map(lambda d: [{"$T": d}]), civil_ymd(-2000, 4000).map(lambda d: [d]),
        civil_ymd(1, 4000).map(lambda d: [{"$date": d}])))
add(C + "true_obliquity:utc", E_MODERN, kwargs={"utc": st.just(True)})
API[C + "true_obliquity:utc"].qual = C + "true_obliquity"
VT = st.sampled_from(PLANETS + ["Earth"])


def vsop_case(qual, extra=(), kw=None):
    sp = Spec(qual)

    def cs():
        return st.builds(lambda e, p, x: {"f": qual, "self": None,
                                          "args": [e, {"$tbl": p + ".VSOP87_L"}, {"$tbl": p + ".VSOP87_B"},
                                                   {"$tbl": p + ".VSOP87_R"}] + list(x), "kwargs": {}},
                         E_ANY, VT, st.tuples(*extra) if extra else st.just(()))
    sp.case_strategy = cs
    return sp


API[C + "vsop_pos"] = vsop_case(C + "vsop_pos")
API[C + "geometric_vsop_pos"] = vsop_case(C + "geometric_vsop_pos", (BOOL,))
API[C + "apparent_vsop_pos"] = vsop_case(C + "apparent_vsop_pos", (BOOL,))


def elem_case():
    sp = Spec(C + "orbital_elements")

    def cs():
        return st.builds(lambda e, p, j: {"f": C + "orbital_elements", "self": None,
                                          "args": [e, {"$tbl": p + ".ORBITAL_ELEM"},
                                                   {"$tbl": p + (".ORBITAL_ELEM_J2000" if j else ".ORBITAL_ELEM")}],
                                          "kwargs": {}}, E_ANY, VT, BOOL)
    sp.case_strategy = cs
    return sp


API[C + "orbital_elements"] = elem_case()
add(C + "equatorial2ecliptical", A_ANY, A_LAT, A_OBL)
add(C + "ecliptical2equatorial", A_ANY, A_LAT, A_OBL)
add(C + "equatorial2horizontal", A_ANY, A_LAT, A_LAT)
add(C + "horizontal2equatorial", A_ANY, A_LAT, A_LAT)
add(C + "equatorial2galactic", A_ANY, A_LAT)
add(C + "galactic2equatorial", A_ANY, A_LAT)
add(C + "parallactic_angle", A_ANY, A_LAT, A_LAT, allow_none=True)   # None at the zenith is documented
add(C + "ecliptic_horizon", A_ANY, A_LAT, A_OBL)
add(C + "ecliptic_equator", A_ANY, A_LAT, A_OBL)
API[C + "diurnal_path_horizon"] = VarSpec(C + "diurnal_path_horizon", st.builds(
    lambda lat, u: [{"$A": u * (90.0 - abs(lat)) * 0.999}, {"$A": lat}], F(-89.0, 89.0), F(-1.0, 1.0)))
add(C + "angular_separation", A_ANY, A_LAT, A_ANY, A_LAT)
add(C + "relative_position_angle", A_ANY, A_LAT, A_ANY, A_LAT)
add(C + "circle_diameter", A(100, 101), A(10, 15), A(102, 103), A(10, 15), A(104, 105), A(10, 15))
add(C + "straight_line", A(100, 101), A(10, 15), A(102, 103), A(10, 15), A(104, 105), A(10, 15))
add(C + "refraction_apparent2true", A(0.0, 90.0), F(900, 1100), F(-30, 40), opt=2)
add(C + "refraction_true2apparent", A(0.0, 90.0), F(900, 1100), F(-30, 40), opt=2)
add(C + "precession_equatorial", E_ANY, E_ANY, A_ANY, A_LAT, A_SMALL, A_SMALL, opt=2)
add(C + "precession_ecliptical", E_ANY, E_ANY, A_ANY, A_LAT, A_SMALL, A_SMALL, opt=2)
add(C + "precession_newcomb", E(1800, 2100), E(1800, 2100), A_ANY, A_LAT, A_SMALL, A_SMALL, opt=2)
add(C + "p_motion_equa2eclip", A_SMALL, A_SMALL, A_ANY, A(-85, 85), A(-85, 85), A(20, 25))
add(C + "apparent_position", E_ANY, A_ANY, A(-85, 85), A_POS)
add(C + "motion_in_space", A_ANY, A(-85, 85), F(1.0, 1000.0), F(-100, 100), A_SMALL, A_SMALL, F(-10000, 10000))
add(C + "orbital_equinox2equinox", E_ANY, E_ANY, A(0.0, 180.0), A_POS, A_POS)
add(C + "kepler_equation", st.one_of(F(0.0, 0.99), st.sampled_from([0.0, 0.5, 0.9, 0.99, 0]), I(0, 0)),
    A_ANY)
API[C + "velocity"] = VarSpec(C + "velocity", st.builds(
    lambda a, e, u: [a * (1.0 + e * u), a], F(0.3, 60.0), F(0.0, 0.99), F(-1.0, 1.0)))
add(C + "velocity_perihelion", F(0.0, 0.99), F(0.3, 60.0))
add(C + "velocity_aphelion", F(0.0, 0.99), F(0.3, 60.0))
add(C + "length_orbit", F(0.0, 0.99), F(0.3, 60.0))
add(C + "passage_nodes_elliptic", A_POS, F(0.0, 0.97), F(0.3, 60.0), E_MODERN, BOOL, opt=1)
# the node at true anomaly +-180 deg of a parabola is at infinity: keep |v| <= 150 deg
API[C + "passage_nodes_parabolic"] = VarSpec(C + "passage_nodes_parabolic", st.builds(
    lambda v, asc, q, t: [{"$A": ((360.0 if asc else 180.0) - v) % 360.0}, q, t, asc],
    F(-150.0, 150.0), BOOL, F(0.1, 5.0), E_MODERN))


def triangle():
    # three distances satisfying the triangle inequality: built from two sides and an angle
    def build(a, b, g):
        c = math.sqrt(a * a + b * b - 2 * a * b * math.cos(g))
        return [a, c, b]
    return st.builds(build, F(0.3, 40.0), F(0.3, 40.0), F(0.01, 3.13))


API[C + "phase_angle"] = VarSpec(C + "phase_angle", triangle())
API[C + "illuminated_fraction"] = VarSpec(C + "illuminated_fraction", triangle())
API[C + "planetary_conjunction"] = VarSpec(C + "planetary_conjunction", conj_tables(4),
                                           refusals=[("ValueError", "")])
API[C + "planet_star_conjunction"] = VarSpec(C + "planet_star_conjunction", st.builds(
    lambda t, a, d: t + [a, d], conj_tables(2), A(10, 340), A(-80, 80)), refusals=[("ValueError", "")])
API[C + "planet_stars_in_line"] = VarSpec(C + "planet_stars_in_line", st.builds(
    lambda t, a, d, a2, d2: t + [a, d, a2, d2], conj_tables(2), A(10, 340), A(-80, 80), A(10, 340), A(-80, 80)),
    refusals=[("ValueError", "")])
# two bodies that pass close to each other inside the tabulated interval (the documented use:
# Meeus ch. 18); body 2 = body 1 shifted by a small offset that changes sign across the table
def _close_pass():
    def build(a0, d0, sa, sd, oa, od, ra, rd):
        out = []
        for i in range(3):
            out += [{"$A": a0 + sa * i}, {"$A": d0 + sd * i}]
        for i in range(3):
            out += [{"$A": a0 + sa * i + oa + ra * (i - 1)}, {"$A": d0 + sd * i + od + rd * (i - 1)}]
        return out
    return st.builds(build, F(10, 340), F(-60, 60), F(0.2, 1.0), F(-0.3, 0.3), F(-0.2, 0.2), F(-0.2, 0.2),
                     F(0.3, 0.8), F(0.3, 0.8))


API[C + "minimum_angular_separation"] = VarSpec(C + "minimum_angular_separation", _close_pass())
add(C + "times_rise_transit_set", A(-180, 180), A(-89, 89), A(40, 41), A(-60, 60), A(41, 42), A(-60, 60),
    A(42, 43), A(-60, 60), A(-1, 0), F(0, 100), A_POS)

# ---- Interpolation / CurveFitting
add("Interpolation.Interpolation", interp_tables().map(lambda t: t[0]), interp_tables().map(lambda t: t[1]))
def interp_tables_any():
    """Numeric tables, and tables whose abscissae and/or ordinates are Angle objects (documented;
    negative values included)."""
    def angles(t, ax, ay):
        xs, ys = t
        if ax:
            xs = [{"$A": max(-359.0, min(359.0, x * 3.0))} for x in xs]
        if ay:
            ys = [{"$A": max(-359.0, min(359.0, y))} for y in ys]
        return [xs, ys]
    return st.builds(angles, interp_tables(), st.booleans(), st.booleans())


API["Interpolation.Interpolation"] = VarSpec("Interpolation.Interpolation", interp_tables_any())
for name in ("get_tolerance", "__str__", "__repr__", "__len__"):
    add("Interpolation.Interpolation." + name, self_st=SELF_INTERP)
add("Interpolation.Interpolation.set_tolerance", F(1e-14, 1e-3), self_st=SELF_INTERP, mutator=True)


def interp_call(qual):
    sp = Spec(qual)

    def cs():
        return st.builds(lambda t, u: {"f": qual, "self": {"$o": "Interpolation", "a": t},
                                       "args": [t[0][0] + u * (t[0][-1] - t[0][0])], "kwargs": {}},
                         interp_tables(), F(0.0, 1.0))
    sp.case_strategy = cs
    return sp


API["Interpolation.Interpolation.__call__"] = interp_call("Interpolation.Interpolation.__call__")
API["Interpolation.Interpolation.derivative"] = interp_call("Interpolation.Interpolation.derivative")
add("Interpolation.Interpolation.root", self_st=SELF_INTERP, refusals=[("ValueError", "")])
add("Interpolation.Interpolation.minmax", self_st=SELF_INTERP, refusals=[("ValueError", "")])
API["Interpolation.Interpolation.set"] = VarSpec("Interpolation.Interpolation.set", interp_tables(),
                                                 self_st=SELF_INTERP, mutator=True)
API["CurveFitting.CurveFitting"] = VarSpec("CurveFitting.CurveFitting", fit_tables())
API["CurveFitting.CurveFitting.set"] = VarSpec("CurveFitting.CurveFitting.set", fit_tables(),
                                               self_st=SELF_FIT, mutator=True)
for name in ("correlation_coeff", "linear_fitting", "quadratic_fitting", "__str__", "__repr__", "__len__"):
    add("CurveFitting.CurveFitting." + name, self_st=SELF_FIT)
FN = st.sampled_from(["x2", "x", "one", "sin", "cos"]).map(lambda n: {"$fn": n})
API["CurveFitting.CurveFitting.general_fitting"] = VarSpec(
    "CurveFitting.CurveFitting.general_fitting",
    st.sampled_from([["x2", "x", "one"], ["sin", "x", "one"], ["sin", "cos", "one"], ["x", "one"],
                     ["sin", "one"], ["x"], ["sin"]]).map(lambda l: [{"$fn": n} for n in l]),
    self_st=SELF_FIT)

# ---- Earth
add("Earth.Ellipsoid", F(6.3e6, 6.4e6), F(0.0, 0.01), F(7e-5, 8e-5))
add("Earth.Ellipsoid.b", self_st=SELF_ELL)
add("Earth.Ellipsoid.e", self_st=SELF_ELL)
add("Earth.Earth", ELL, opt=1)
add("Earth.Earth.set", ELL, self_st=SELF_EARTH, mutator=True)
for name in ("rho", "rp", "linear_velocity", "rm"):
    add("Earth.Earth." + name, LATNUM, self_st=SELF_EARTH)
add("Earth.Earth.rho_sinphi", LATNUM, st.one_of(F(-500, 9000), I(-500, 9000)), self_st=SELF_EARTH)
add("Earth.Earth.rho_cosphi", LATNUM, st.one_of(F(-500, 9000), I(-500, 9000)), self_st=SELF_EARTH)
add("Earth.Earth.distance", LONNUM, LATNUM, LONNUM, LATNUM, self_st=SELF_EARTH)
add("Earth.Earth.parallax_correction", A_ANY, A_LAT, A_LAT, DIST, A_ANY, F(-500, 9000), opt=1)
add("Earth.Earth.parallax_ecliptical", A_ANY, A_LAT, A(0.0, 1.0), A_LAT, A_OBL, A_ANY, DIST, F(-500, 9000), opt=1)
add("Earth.Earth.__str__", self_st=SELF_EARTH)
add("Earth.Earth.__repr__", self_st=SELF_EARTH)


def planet_api(p, has):
    q = "%s.%s." % (p, p)
    add(q + "geometric_heliocentric_position", E_ANY, BOOL, opt=1)
    add(q + "apparent_heliocentric_position", E_ANY)
    add(q + "orbital_elements_mean_equinox", E_ANY)
    add(q + "orbital_elements_j2000", E_ANY)
    if "geocentric_position" in has:
        add(q + "geocentric_position", E_ANY)
    for fn in ("inferior_conjunction", "superior_conjunction", "western_elongation", "eastern_elongation",
               "station_longitude_1", "station_longitude_2", "conjunction", "opposition"):
        if fn in has:
            add(q + fn, E(-1990, 3990))
    if "perihelion_aphelion" in has:
        add(q + "perihelion_aphelion", E_ANY, BOOL, opt=1)
    if "passage_nodes" in has:
        add(q + "passage_nodes", E_ANY, BOOL, opt=1)


for p in PLANETS + ["Earth"]:
    cls = getattr(mod(p), p)
    planet_api(p, set(vars(cls)))
add("Earth.Earth.apparent_heliocentric_position", E_ANY, BOOL, opt=1)
add("Earth.Earth.geometric_heliocentric_position_j2000", E_ANY, BOOL, opt=1)
for p in ("Mercury", "Venus", "Mars"):
    add("%s.%s.magnitude" % (p, p), F(0.3, 2.0), F(0.3, 3.0), st.one_of(F(0, 180), A(0, 180)))
for p in ("Jupiter", "Uranus", "Neptune"):
    add("%s.%s.magnitude" % (p, p), F(4.0, 31.0), F(3.0, 32.0))
add("Saturn.Saturn.magnitude", F(9.0, 10.1), F(8.0, 11.1), st.one_of(F(0, 6.5), A(0, 6.5)), st.one_of(F(-27, 27), A(-27, 27)))
add("Saturn.Saturn.ring_inclination", E_ANY)
add("Saturn.Saturn.ring_logitude_ascending_node", E_ANY)
add("Saturn.Saturn.ring_parameters", E_ANY)
add("Venus.Venus.illuminated_fraction", E_ANY)

# ---- Sun / Moon / Pluto / Minor / JupiterMoons
Q = "Sun.Sun."
for fn in ("true_longitude_coarse", "apparent_longitude_coarse", "apparent_rightascension_declination_coarse",
           "rectangular_coordinates_mean_equinox", "rectangular_coordinates_j2000",
           "rectangular_coordinates_b1950", "equation_of_time", "ephemeris_physical_observations"):
    add(Q + fn, E_ANY)
add(Q + "geometric_geocentric_position", E_ANY, BOOL, opt=1)
add(Q + "apparent_geocentric_position", E_ANY, BOOL, opt=1)
add(Q + "rectangular_coordinates_equinox", E_ANY, E(1700, 2300))
add(Q + "get_equinox_solstice", I(-1000, 3000), st.sampled_from(["spring", "summer", "autumn", "winter"]), opt=1)
add(Q + "beginning_synodic_rotation", I(-1000, 5000))
add("Sun.Sun")
Q = "Moon.Moon."
for fn in ("geocentric_ecliptical_pos", "apparent_ecliptical_pos", "apparent_equatorial_pos",
           "longitude_mean_ascending_node", "longitude_true_ascending_node", "longitude_mean_perigee",
           "illuminated_fraction_disk", "position_bright_limb", "moon_librations", "moon_position_angle_axis"):
    add(Q + fn, E_ANY)
add(Q + "moon_phase", E_ANY, st.sampled_from(["new", "first", "full", "last"]), opt=1)
add(Q + "moon_perigee_apogee", E_ANY, st.sampled_from(["perigee", "apogee"]), opt=1)
add(Q + "moon_passage_nodes", E_ANY, st.sampled_from(["ascending", "descending"]), opt=1)
add(Q + "moon_maximum_declination", E_ANY, st.sampled_from(["northern", "southern"]), opt=1)
add("Pluto.Pluto.geometric_heliocentric_position", E_PLUTO)
add("Pluto.Pluto.geocentric_position", E_PLUTO)
API["Minor.Minor"] = VarSpec("Minor.Minor", minor_args())
API["Minor.Minor.set"] = VarSpec("Minor.Minor.set", minor_args(), self_st=SELF_MINOR, mutator=True)
add("Minor.Minor.geocentric_position", E_MODERN, self_st=SELF_MINOR, refusals=NOCONV)
add("Minor.Minor.heliocentric_ecliptical_position", E_MODERN, self_st=SELF_MINOR, refusals=NOCONV)
Q = "JupiterMoons.JupiterMoons."
add(Q + "jupiter_system_angles", E_MODERN)
add(Q + "rectangular_positions_jovian_equatorial", E_MODERN, BOOL, BOOL, BOOL, opt=3)
add(Q + "calculate_delta", E_MODERN)
add(Q + "check_phenomena", E_MODERN)
add(Q + "is_phenomena", E_MODERN)
add(Q + "check_coordinates", F(-30, 30), F(-30, 30))
add(Q + "check_occultation", F(-30, 30), F(-30, 30), F(-30, 30))
add(Q + "check_eclipse", F(-30, 30), F(-30, 30), F(-30, 30))
# satellite coordinates in Jupiter radii: inside the satellite's orbit radius (|X, Y, Z| <= R)
add(Q + "correct_rectangular_positions", F(5.9, 26.4), I(1, 4), F(4, 6.5), F(-3, 3), F(-3, 3), F(-3, 3))

# callables deliberately outside every generator
EXCLUDED = {
    "Earth.Ellipsoid.__repr__": "covered through Earth.__repr__",
    "Earth.Ellipsoid.__str__": "covered through Earth.__str__",

    "Epoch.Epoch.utc2local": "reads the wall clock / local time zone",
    "Epoch.Epoch(local=True)": "local= keyword depends on the time zone of the machine",
    "*.main": "demonstration functions that print",
    "JupiterMoons.JupiterMoons.apparent_rectangular_coordinates": "internal helper of rectangular_positions_jovian_equatorial taking 10 coupled intermediate quantities with no documented domain",
}


def inventory():
    """All public callables found by introspection (qualified names)."""
    out = []
    for m in MODULES:
        mo = mod(m)
        for name, obj in vars(mo).items():
            if inspect.isclass(obj) and obj.__module__ == mo.__name__:
                out.append("%s.%s" % (m, name))
                for k, v in vars(obj).items():
                    f = v.__func__ if isinstance(v, (staticmethod, classmethod)) else v
                    if not inspect.isfunction(f):
                        continue
                    if k.startswith("_") and not (k.startswith("__") and k.endswith("__")):
                        continue
                    if k in ("__init__",):
                        continue
                    out.append("%s.%s.%s" % (m, name, k))
            elif inspect.isfunction(obj) and obj.__module__ == mo.__name__ and not name.startswith("_"):
                out.append("%s.%s" % (m, name))
    return sorted(out)


def uncovered():
    have = set(s.qual for s in API.values())
    miss = []
    for q in inventory():
        if q in have or q.endswith(".main") or q in EXCLUDED:
            continue
        if q.count(".") == 1 and q.split(".")[0] in PLANETS + ["Moon", "Pluto", "JupiterMoons"]:
            continue        # classes holding only static methods: no constructor documented
        miss.append(q)
    return miss


def param_types(spec):
    """Documented types per parameter name, from the docstring."""
    doc = spec.doc()
    if spec.qual.count(".") == 1 and inspect.isclass(spec.resolve()):
        doc = inspect.getdoc(spec.resolve().__init__) or ""
    return dict(re.findall(r":type (\w+): ([^\n]+)", doc)), (":raises" in doc)
