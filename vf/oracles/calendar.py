"""Integer-only civil calendar model (Julian to 1582-10-04, Gregorian from 1582-10-15).

Written from the definitions (Fliegel - Van Flandern style integer arithmetic with
floor division), not from pymeeus.  Self-tested against datetime.date.toordinal().
"""
import datetime

MONTH_LEN = [31, 28, 31, 30, 31, 30, 31, 31, 30, 31, 30, 31]
SHORT = ["Jan", "Feb", "Mar", "Apr", "May", "Jun", "Jul", "Aug", "Sep", "Oct", "Nov", "Dec"]
LONG = ["January", "February", "March", "April", "May", "June", "July", "August",
        "September", "October", "November", "December"]

REFORM_JDN = 2299161          # JDN of 1582-10-15 (Gregorian)


def jdn_julian(y, m, d):
    a = (14 - m) // 12
    yy = y + 4800 - a
    mm = m + 12 * a - 3
    return d + (153 * mm + 2) // 5 + 365 * yy + yy // 4 - 32083


def jdn_gregorian(y, m, d):
    a = (14 - m) // 12
    yy = y + 4800 - a
    mm = m + 12 * a - 3
    return d + (153 * mm + 2) // 5 + 365 * yy + yy // 4 - yy // 100 + yy // 400 - 32045


def is_julian_date(y, m, d):
    return (y, m, d) < (1582, 10, 15)


def jdn(y, m, d):
    """Julian Day Number (the integer that names the civil day; JD at noon)."""
    return jdn_julian(y, m, d) if is_julian_date(y, m, d) else jdn_gregorian(y, m, d)


def is_leap(y):
    """Leap rule in force in civil year y (Julian through 1582, Gregorian after)."""
    if y <= 1582:
        return y % 4 == 0
    return y % 4 == 0 and (y % 100 != 0 or y % 400 == 0)


def month_len(y, m):
    if m == 2 and is_leap(y):
        return 29
    return MONTH_LEN[m - 1]


def days_of_year(y):
    """All civil (m, d) of year y in order (5-14 Oct 1582 do not exist)."""
    out = []
    for m in range(1, 13):
        for d in range(1, month_len(y, m) + 1):
            if y == 1582 and m == 10 and 5 <= d <= 14:
                continue
            out.append((m, d))
    return out


def from_jdn(n):
    """Inverse of jdn(): civil (y, m, d) of Julian Day Number n (table walk from a
    year estimate; independent of the closed-form inverse used by the library)."""
    if n >= REFORM_JDN:
        y = (n - 1721426) * 400 // 146097 + 1
        while jdn_gregorian(y + 1, 1, 1) <= n:
            y += 1
        while jdn(y, 1, 1) > n and not (y == 1582):
            y -= 1
        if y == 1582 and jdn(1582, 1, 1) > n:
            y -= 1
    else:
        y = (n - 1721424) * 4 // 1461 + 1
        while jdn_julian(y + 1, 1, 1) <= n:
            y += 1
        while jdn_julian(y, 1, 1) > n:
            y -= 1
    for m in range(12, 0, -1):
        first = jdn(y, m, 1) if not (y == 1582 and m == 10) else jdn_julian(1582, 10, 1)
        if first <= n:
            d = n - first + 1
            if y == 1582 and m == 10 and n >= REFORM_JDN:
                d = n - REFORM_JDN + 15
            return (y, m, d)
    raise AssertionError(n)


def weekday(n):
    """0 = Sunday ... 6 = Saturday, from the JDN."""
    return (n + 1) % 7


def day_of_year(y, m, d):
    return jdn(y, m, d) - jdn(y, 1, 1) + 1


def self_test():
    # Gregorian arithmetic against datetime for 1583..9999 (sampled densely)
    for y in list(range(1583, 2500)) + list(range(2500, 9999, 7)) + [9999]:
        for m, d in ((1, 1), (2, 28), (3, 1), (12, 31), (7, 15)):
            o = datetime.date(y, m, d).toordinal()
            if jdn(y, m, d) != o + 1721425:
                raise AssertionError("calendar oracle self-test failed at %r" % ((y, m, d),))
            if weekday(jdn(y, m, d)) != (datetime.date(y, m, d).weekday() + 1) % 7:
                raise AssertionError("weekday self-test")
    # anchors (Meeus ch. 7 and the usual epochs)
    assert jdn(-4712, 1, 1) == 0
    assert jdn(1858, 11, 17) == 2400001
    assert jdn(2000, 1, 1) == 2451545
    assert jdn(1582, 10, 4) + 1 == jdn(1582, 10, 15) == REFORM_JDN
    assert jdn(1957, 10, 4) == 2436116 and jdn(333, 1, 27) == 1842713
    assert jdn(-1000, 7, 12) == 1356001 and jdn(-4712, 1, 1) == 0
    # inverse is an inverse, consecutive days
    import itertools
    for n in itertools.chain(range(0, 4000), range(2298000, 2300500, 1),
                             range(1721000, 1722500), range(2451000, 2452000),
                             range(0, 3900000, 997)):
        y, m, d = from_jdn(n)
        if jdn(y, m, d) != n or not (1 <= d <= month_len(y, m)):
            raise AssertionError("from_jdn self-test failed at %d -> %r" % (n, (y, m, d)))
