"""Event search on the library's own VSOP87 positions (property C13).

Nothing here uses a finder of the library.  The only library calls are
``<Planet>.geometric_heliocentric_position(Epoch(jde))`` of the planet and of the Earth
(the position theory the property names as the reference).  On top of them:

* generic numerics: bracketing bisection, golden-section maximiser, central difference;
* the geocentric ecliptic direction of a planet (light-time corrected) and of the Sun
  (minus the Earth's heliocentric vector), their longitude difference, the elongation
  (angle between the two geocentric vectors) and the distances;
* the event functions whose sign change *is* the event (``event_function``) and a
  locator ``locate`` that reports where, relative to a claimed instant, the event of the
  demanded kind and direction really is.
"""
import importlib
import math

from pymeeus.Epoch import Epoch

LIGHT_TIME = 0.0057755183      # days per astronomical unit

PLANETS = ["Mercury", "Venus", "Earth", "Mars", "Jupiter", "Saturn", "Uranus", "Neptune"]

# mean synodic periods (days), from the sidereal periods below: 1/(1/P_earth - 1/P)
SIDEREAL = {"Mercury": 87.9693, "Venus": 224.7008, "Earth": 365.2564, "Mars": 686.9796,
            "Jupiter": 4332.589, "Saturn": 10759.22, "Uranus": 30685.4, "Neptune": 60189.0}
SYNODIC = dict((p, abs(1.0 / (1.0 / SIDEREAL["Earth"] - 1.0 / SIDEREAL[p])))
               for p in SIDEREAL if p != "Earth")

_CLS = {}


def planet_class(name):
    if name not in _CLS:
        _CLS[name] = getattr(importlib.import_module("pymeeus." + name), name)
    return _CLS[name]


# ------------------------------------------------------------------ generic numerics

def wrap180(x):
    """x reduced to [-180, 180)."""
    return (x + 180.0) % 360.0 - 180.0


def sign(x):
    return (x > 0) - (x < 0)


def bisect(f, a, b, fa=None, fb=None, n=40):
    """Root of a continuous f in [a, b] given a sign change; None if there is none.
    Returns the midpoint of the final bracket (width (b-a)/2**n)."""
    if fa is None:
        fa = f(a)
    if fb is None:
        fb = f(b)
    if fa == 0.0:
        return a
    if fb == 0.0:
        return b
    if (fa > 0) == (fb > 0):
        return None
    for _ in range(n):
        m = 0.5 * (a + b)
        fm = f(m)
        if fm == 0.0:
            return m
        if (fm > 0) == (fa > 0):
            a, fa = m, fm
        else:
            b, fb = m, fm
    return 0.5 * (a + b)


_G = (math.sqrt(5.0) - 1.0) / 2.0


def golden_max(f, a, b, n=40):
    """Golden-section search for the maximum of a unimodal f on [a, b];
    returns (x, f(x))."""
    c = b - _G * (b - a)
    d = a + _G * (b - a)
    fc, fd = f(c), f(d)
    for _ in range(n):
        if fc > fd:
            b, d, fd = d, c, fc
            c = b - _G * (b - a)
            fc = f(c)
        else:
            a, c, fc = c, d, fd
            d = a + _G * (b - a)
            fd = f(d)
    return (c, fc) if fc > fd else (d, fd)


def cdiff(f, t, h):
    """Central difference (f(t+h) - f(t-h)) / 2h."""
    return (f(t + h) - f(t - h)) / (2.0 * h)


# ------------------------------------------------------------------ positions

def helio(name, jde):
    """Heliocentric geometric position from the library's VSOP87 series:
    ((x, y, z), latitude in degrees, radius vector in AU)."""
    l, b, r = planet_class(name).geometric_heliocentric_position(Epoch(jde))
    lr, br = math.radians(float(l)), math.radians(float(b))
    cb = math.cos(br)
    return (r * cb * math.cos(lr), r * cb * math.sin(lr), r * math.sin(br)), float(b), r


def helio_lat(name, jde):
    return helio(name, jde)[1]


def helio_r(name, jde):
    return helio(name, jde)[2]


def geocentric(name, jde):
    """Geocentric ecliptic view at jde: planet taken at jde - light time (one
    iteration of the light time is exact to 1e-7 d), Sun = -Earth at jde.
    Returns dict(lam, lam_sun, dlam, elong, delta, r_earth): longitudes in degrees,
    dlam = lam - lam_sun in [-180, 180), elongation = angle between the vectors."""
    e, _, re = helio("Earth", jde)
    p, _, _ = helio(name, jde)
    d = math.sqrt(sum((a - b) ** 2 for a, b in zip(p, e)))
    p, _, _ = helio(name, jde - LIGHT_TIME * d)
    g = (p[0] - e[0], p[1] - e[1], p[2] - e[2])
    s = (-e[0], -e[1], -e[2])
    lam = math.degrees(math.atan2(g[1], g[0])) % 360.0
    lam_sun = math.degrees(math.atan2(s[1], s[0])) % 360.0
    ng = math.sqrt(g[0] * g[0] + g[1] * g[1] + g[2] * g[2])
    cx = g[1] * s[2] - g[2] * s[1]
    cy = g[2] * s[0] - g[0] * s[2]
    cz = g[0] * s[1] - g[1] * s[0]
    elong = math.degrees(math.atan2(math.sqrt(cx * cx + cy * cy + cz * cz),
                                    g[0] * s[0] + g[1] * s[1] + g[2] * s[2]))
    return {"lam": lam, "lam_sun": lam_sun, "dlam": wrap180(lam - lam_sun),
            "elong": elong, "delta": ng, "r_earth": re}


# ------------------------------------------------------------------ event functions
#
# kind        event                      function g whose sign change is the event
# conj        lam - lam_sun = 0          g = wrap180(lam - lam_sun)
# opp         lam - lam_sun = 180        g = wrap180(lam - lam_sun - 180)
# elong       elongation maximal         g = d(elong)/dt        (+ -> -)
# station     d(lam)/dt = 0              g = d(lam)/dt          (station 1: + -> -, 2: - -> +)
# apsis       dR/dt = 0                  g = dR/dt              (perihelion - -> +)
# node        B = 0                      g = B                  (ascending - -> +)

def _h_for(kind, period):
    # half-step of the central differences: small against the curvature scale of the
    # differentiated quantity, large against the float noise of the series
    if kind in ("elong", "station"):
        return 0.02
    return max(0.02, period / 4000.0)


def event_function(name, kind, period):
    h = _h_for(kind, period)
    if kind == "conj":
        return lambda t: geocentric(name, t)["dlam"]
    if kind == "opp":
        return lambda t: wrap180(geocentric(name, t)["dlam"] - 180.0)
    if kind == "elong":
        return lambda t: (geocentric(name, t + h)["elong"] - geocentric(name, t - h)["elong"]) / (2 * h)
    if kind == "station":
        return lambda t: wrap180(geocentric(name, t + h)["lam"] - geocentric(name, t - h)["lam"]) / (2 * h)
    if kind == "apsis":
        return lambda t: (helio_r(name, t + h) - helio_r(name, t - h)) / (2 * h)
    if kind == "node":
        return lambda t: helio_lat(name, t)
    raise ValueError(kind)


def locate(name, kind, direction, t, tol, wide, period, refine=10, bound=None):
    """Where is the event of `kind` with sign change `direction` (+1: g goes - -> +,
    -1: + -> -, 0: either) relative to the claimed instant t?

    Returns dict(status, err, dir, t_event):
      status "ok"      a sign change of the demanded direction lies in [t-tol, t+tol]
             "far"     none there, but one lies in [t-wide, t+wide]; err = t_event - t
             "wrong"   the only sign change found (in either bracket) has the other direction
             "none"    g has the same sign at both ends of both brackets
    err is located to tol/2**refine ("ok") or wide/2**(refine+6) ("far").
    `bound`: |g| must stay below it at the bracket ends (guards the 360-degree seam of
    the wrapped longitude differences); a bracket violating it is treated as no bracket.
    """
    g = event_function(name, kind, period)

    def try_bracket(w, nref):
        a, b = t - w, t + w
        ga, gb = g(a), g(b)
        if bound is not None and (abs(ga) > bound or abs(gb) > bound):
            return None
        if ga == 0.0 or gb == 0.0 or (ga > 0) != (gb > 0):
            d = sign(gb - ga)
            root = bisect(g, a, b, ga, gb, nref)
            return {"dir": d, "t_event": root, "err": root - t}
        return None

    r = try_bracket(tol, refine)
    if r is not None and (direction == 0 or r["dir"] == direction):
        r["status"] = "ok"
        return r
    narrow = r
    r = try_bracket(wide, refine + 6)
    if r is not None and (direction == 0 or r["dir"] == direction):
        r["status"] = "far"
        return r
    r = r or narrow
    if r is not None:
        r["status"] = "wrong"
        return r
    return {"status": "none", "err": None, "dir": 0, "t_event": None}


def elongation_max(name, t, tol, n=14):
    """Maximum of the elongation on [t - tol, t + tol] by golden section: (t_max, E_max)."""
    return golden_max(lambda x: geocentric(name, x)["elong"], t - tol, t + tol, n)


# ------------------------------------------------------------------ self-test

def self_test():
    # numerics on analytic functions
    r = bisect(math.sin, 3.0, 3.3)
    assert abs(r - math.pi) < 1e-10, r
    assert bisect(math.sin, 0.5, 1.0) is None
    x, fx = golden_max(lambda u: -(u - 0.3) ** 2 + 2.0, -1.0, 2.0, 60)
    assert abs(x - 0.3) < 1e-6 and abs(fx - 2.0) < 1e-12, (x, fx)
    assert abs(cdiff(math.sin, 0.7, 1e-4) - math.cos(0.7)) < 1e-8
    assert wrap180(190.0) == -170.0 and wrap180(-180.0) == -180.0 and wrap180(540.0) == -180.0
    assert abs(SYNODIC["Venus"] - 583.92) < 0.05 and abs(SYNODIC["Jupiter"] - 398.88) < 0.05
    # geometry against dates from the almanacs (not from the library's finders):
    #   Mars opposition 2003 Aug 28 17:58 UT, Venus inferior conjunction (transit)
    #   2004 Jun 8 08:43 UT, Earth perihelion 2003 Jan 4 05:02 UT.
    for name, kind, direction, jd, tol in (
            ("Mars", "opp", 0, 2452880.249, 0.05),
            ("Venus", "conj", 0, 2453164.863, 0.05),
            ("Earth", "apsis", +1, 2452643.710, 0.1)):
        r = locate(name, kind, direction, jd, tol, 5.0, SIDEREAL[name], refine=6)
        assert r["status"] == "ok", (name, kind, r)
    g = geocentric("Venus", 2453164.863)
    assert g["delta"] < g["r_earth"] and g["elong"] < 1.0, g
    g = geocentric("Mars", 2452880.249)
    assert g["elong"] > 170.0, g
