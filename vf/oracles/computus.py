"""Integer-only reference models for the calendar recipes of C19.

Written from the definitions, not from pymeeus and not from Meeus' float recipes:

* Easter (Computus): golden number, tabular epact (with the Gregorian solar and lunar
  corrections), ecclesiastical paschal full moon, the Sunday strictly after it.  The
  Julian paschal full moons are the literal 19-entry Dionysian table.
* Arithmetic Hebrew calendar: molad of Tishri in halakim (1 day = 25920 parts, lunation
  29 d 12 h 793 p), the four dehiyyot; Pesach (15 Nisan) is 163 days before the
  following 1 Tishri.
* Arithmetic (tabular, civil) Islamic calendar: epoch Friday 16 July 622 Julian
  (JD 1948439.5), 11 leap years in every 30 (years 2, 5, 7, 10, 13, 16, 18, 21, 24, 26, 29).

Days are named by their Julian Day Number (vf/oracles/calendar.py).
"""
from . import calendar as cal

# ----------------------------------------------------------------------------- Easter

# Dionysian table: golden number -> paschal full moon (month, day), Julian calendar
JULIAN_PFM = {1: (4, 5), 2: (3, 25), 3: (4, 13), 4: (4, 2), 5: (3, 22), 6: (4, 10),
              7: (3, 30), 8: (4, 18), 9: (4, 7), 10: (3, 27), 11: (4, 15), 12: (4, 4),
              13: (3, 24), 14: (4, 12), 15: (4, 1), 16: (3, 21), 17: (4, 9), 18: (3, 29),
              19: (4, 17)}


def golden_number(year):
    return year % 19 + 1


def _sunday_after(n):
    """JDN of the first Sunday strictly after day n."""
    n += 1
    while cal.weekday(n) != 0:
        n += 1
    return n


def _md_julian(n, year):
    d0 = cal.jdn_julian(year, 3, 1)
    k = n - d0            # 0 = 1 March
    return (3, k + 1) if k < 31 else (4, k - 30)


def _md_gregorian(n, year):
    d0 = cal.jdn_gregorian(year, 3, 1)
    k = n - d0
    return (3, k + 1) if k < 31 else (4, k - 30)


def easter_julian(year):
    """(month, day) of Easter in the Julian calendar."""
    m, d = JULIAN_PFM[golden_number(year)]
    pfm = cal.jdn_julian(year, m, d)
    return _md_julian(_sunday_after(pfm), year)


def gregorian_epact(year):
    """Tabular Gregorian epact (age of the ecclesiastical moon on 1 January, 0..29, with
    the two exceptional shifts 24 -> 25 and 25 -> 26 for golden numbers > 11)."""
    g = golden_number(year)
    c = year // 100 + 1                   # century
    solar = 3 * c // 4 - 12               # dropped leap days (centurial years not leap)
    lunar = (8 * c + 5) // 25 - 5         # lunar-orbit correction, 8 days in 2500 years
    e = (11 * g + 20 + lunar - solar) % 30
    if e == 24 or (e == 25 and g > 11):
        e += 1
    return e


def easter_gregorian(year):
    """(month, day) of Easter in the Gregorian calendar."""
    e = gregorian_epact(year)
    # paschal full moon: 14th day of the lunation whose new moon follows 7 March;
    # as a March day number it is 44 - epact, taken in 21 March .. 18 April
    n = 44 - e
    if n < 21:
        n += 30
    pfm = cal.jdn_gregorian(year, 3, 1) + n - 1
    return _md_gregorian(_sunday_after(pfm), year)


def easter(year):
    """Easter in the calendar in force: Julian to 1582, Gregorian from 1583."""
    return easter_gregorian(year) if year >= 1583 else easter_julian(year)


def easter_jdn(year):
    m, d = easter(year)
    return cal.jdn_gregorian(year, m, d) if year >= 1583 else cal.jdn_julian(year, m, d)


# ----------------------------------------------------------------------------- Hebrew

PARTS_DAY = 25920                      # 24 h x 1080 halakim
LUNATION = 29 * PARTS_DAY + 12 * 1080 + 793
# Molad of Tishri AM 1 ("BaHaRaD"): Hebrew Monday, 5 h 204 p after its start (18:00 of
# the civil Sunday).  The daytime of that Hebrew Monday is civil Monday 7 October 3761 BC.
MOLAD0_DAY = cal.jdn_julian(-3760, 10, 7)
MOLAD0_PARTS = 5 * 1080 + 204


def hebrew_leap(hy):
    return (7 * hy + 1) % 19 < 7        # years 3, 6, 8, 11, 14, 17, 19 of the cycle


def months_before(hy):
    """Lunar months elapsed from Tishri AM 1 to Tishri of year hy."""
    full, rem = divmod(hy - 1, 19)
    n = 235 * full
    for k in range(1, rem + 1):
        n += 13 if hebrew_leap(k) else 12
    return n


def molad_tishri(hy):
    """(JDN of the civil day matching the Hebrew day of the molad, parts since the start
    of that Hebrew day at 18:00)."""
    p = MOLAD0_PARTS + LUNATION * months_before(hy)
    return MOLAD0_DAY + p // PARTS_DAY, p % PARTS_DAY


def rosh_hashanah(hy):
    """JDN of 1 Tishri of Hebrew year hy (four dehiyyot)."""
    day, tod = molad_tishri(hy)
    wd = cal.weekday(day)              # 0 = Sunday
    if tod >= 18 * 1080:
        day += 1                       # molad zaken: at or after noon
    elif wd == 2 and tod >= 9 * 1080 + 204 and not hebrew_leap(hy):
        day += 2                       # GaTaRaD: common year, Tuesday 9h 204p -> Thursday
    elif wd == 1 and tod >= 15 * 1080 + 589 and hebrew_leap(hy - 1):
        day += 1                       # BeTUTeKaPoT: after a leap year, Monday 15h 589p
    if cal.weekday(day) in (0, 3, 5):
        day += 1                       # lo ADU rosh: never Sunday, Wednesday, Friday
    return day


def pesach_jdn(year):
    """JDN of 15 Nisan falling in civil year `year`: 163 days before the 1 Tishri that
    follows it (Hebrew year year + 3761 begins in the autumn of civil year `year`)."""
    return rosh_hashanah(year + 3761) - 163


def pesach(year):
    y, m, d = cal.from_jdn(pesach_jdn(year))
    return y, m, d


# ----------------------------------------------------------------------------- Islamic

ISLAMIC_EPOCH = cal.jdn_julian(622, 7, 16)       # 1 Muharram AH 1 (JD 1948439.5 at 0h)
ISLAMIC_LEAP_YEARS = (2, 5, 7, 10, 13, 16, 18, 21, 24, 26, 29)


def islamic_leap(h):
    r = h % 30
    return (r if r else 30) in ISLAMIC_LEAP_YEARS


def islamic_month_len(h, m):
    if m == 12:
        return 30 if islamic_leap(h) else 29
    return 30 if m % 2 == 1 else 29


def islamic_year_len(h):
    return 355 if islamic_leap(h) else 354


_CYCLE_STARTS = [0]
for _k in range(1, 31):
    _CYCLE_STARTS.append(_CYCLE_STARTS[-1] + (355 if _k in ISLAMIC_LEAP_YEARS else 354))
CYCLE_DAYS = _CYCLE_STARTS[30]                   # 10631


def islamic_year_start(h):
    """JDN of 1 Muharram of year h (h >= 1)."""
    full, rem = divmod(h - 1, 30)
    return ISLAMIC_EPOCH + full * CYCLE_DAYS + _CYCLE_STARTS[rem]


def islamic_to_jdn(h, m, d):
    n = islamic_year_start(h)
    for k in range(1, m):
        n += islamic_month_len(h, k)
    return n + d - 1


def islamic_from_jdn(n):
    k = n - ISLAMIC_EPOCH
    if k < 0:
        raise ValueError("before the Islamic epoch")
    full, r = divmod(k, CYCLE_DAYS)
    y = 0
    while y < 29 and _CYCLE_STARTS[y + 1] <= r:
        y += 1
    h = full * 30 + y + 1
    r -= _CYCLE_STARTS[y]
    m = 1
    while r >= islamic_month_len(h, m):
        r -= islamic_month_len(h, m)
        m += 1
    return h, m, r + 1


# ----------------------------------------------------------------------------- self-test

def self_test():
    cal.self_test()
    # --- Easter, Gregorian (well-known dates, including both epact exceptions and the
    # extreme dates)
    greg = {1583: (4, 10), 1700: (4, 11), 1818: (3, 22), 1886: (4, 25), 1900: (4, 15),
            1943: (4, 25), 1954: (4, 18), 1961: (4, 2), 1981: (4, 19), 1991: (3, 31),
            2000: (4, 23), 2008: (3, 23), 2011: (4, 24), 2019: (4, 21), 2024: (3, 31),
            2025: (4, 20), 2038: (4, 25), 2100: (3, 28), 2285: (3, 22)}
    for y, md in greg.items():
        if easter_gregorian(y) != md:
            raise AssertionError("computus self-test: Gregorian Easter %d = %r, want %r"
                                 % (y, easter_gregorian(y), md))
    # --- Easter, Julian (Meeus' examples; Orthodox Easter 2000 = 30 April Gregorian =
    # 17 April Julian, 2024 = 5 May Gregorian = 22 April Julian, 2010/2011 common dates)
    jul = {179: (4, 12), 711: (4, 12), 1243: (4, 12), 2000: (4, 17), 2024: (4, 22),
           2010: (3, 22), 2011: (4, 11), 1582: (4, 15), 532: (4, 11)}
    for y, md in jul.items():
        if easter_julian(y) != md:
            raise AssertionError("computus self-test: Julian Easter %d = %r, want %r"
                                 % (y, easter_julian(y), md))
    assert cal.jdn_julian(2024, 4, 22) == cal.jdn_gregorian(2024, 5, 5)
    # the Julian table repeats every 532 years; the Gregorian every 5 700 000
    for y in (-4712, -1, 0, 1, 100, 1000):
        assert easter_julian(y) == easter_julian(y + 532)
    # Gregorian paschal full moon in 21 March .. 18 April, Easter 22 March .. 25 April
    for y in range(1583, 10001):
        m, d = easter_gregorian(y)
        assert (3, 22) <= (m, d) <= (4, 25)
        assert cal.weekday(cal.jdn_gregorian(y, m, d)) == 0

    # --- Hebrew calendar
    assert cal.weekday(MOLAD0_DAY) == 1 and MOLAD0_DAY == 347998
    rh = {5708: (1947, 9, 15), 5751: (1990, 9, 20), 5761: (2000, 9, 30),
          5766: (2005, 10, 4), 5776: (2015, 9, 14), 5781: (2020, 9, 19),
          5784: (2023, 9, 16), 5785: (2024, 10, 3), 5786: (2025, 9, 23)}
    for hy, ymd in rh.items():
        if cal.from_jdn(rosh_hashanah(hy)) != ymd:
            raise AssertionError("computus self-test: 1 Tishri %d = %r, want %r"
                                 % (hy, cal.from_jdn(rosh_hashanah(hy)), ymd))
    pes = {1990: (4, 10), 2000: (4, 20), 2016: (4, 23), 2023: (4, 6), 2024: (4, 23),
           2025: (4, 13), 1948: (4, 24)}
    for y, md in pes.items():
        if pesach(y)[1:] != md or pesach(y)[0] != y:
            raise AssertionError("computus self-test: Pesach %d = %r, want %r"
                                 % (y, pesach(y), md))
    for hy in range(3760, 6765):
        L = rosh_hashanah(hy + 1) - rosh_hashanah(hy)
        want = (383, 384, 385) if hebrew_leap(hy) else (353, 354, 355)
        if L not in want:
            raise AssertionError("computus self-test: Hebrew year %d has %d days" % (hy, L))
        if cal.weekday(rosh_hashanah(hy)) in (0, 3, 5):
            raise AssertionError("computus self-test: 1 Tishri %d on a forbidden weekday" % hy)
    assert months_before(20) == 235 and months_before(1) == 0
    assert sum(1 for k in range(1, 20) if hebrew_leap(k)) == 7
    assert [k for k in range(1, 20) if hebrew_leap(k)] == [3, 6, 8, 11, 14, 17, 19]

    # --- Islamic calendar
    assert ISLAMIC_EPOCH == 1948440 and cal.weekday(ISLAMIC_EPOCH) == 5
    assert CYCLE_DAYS == 10631
    assert cal.from_jdn(islamic_to_jdn(1421, 1, 1)) == (2000, 4, 6)
    assert islamic_from_jdn(cal.jdn(1991, 8, 13)) == (1412, 2, 2)
    assert islamic_from_jdn(cal.jdn(622, 7, 16)) == (1, 1, 1)
    assert cal.from_jdn(islamic_to_jdn(1430, 1, 1)) == (2008, 12, 29)
    assert cal.from_jdn(islamic_to_jdn(1400, 1, 1)) == (1979, 11, 21)
    n = ISLAMIC_EPOCH
    for h in range(1, 91):
        for m in range(1, 13):
            for d in range(1, islamic_month_len(h, m) + 1):
                if islamic_to_jdn(h, m, d) != n or islamic_from_jdn(n) != (h, m, d):
                    raise AssertionError("computus self-test: Islamic %r" % ((h, m, d),))
                n += 1
    for h in (2500, 2501, 1421, 30, 31, 60):
        n = islamic_to_jdn(h, 12, islamic_month_len(h, 12))
        assert islamic_from_jdn(n) == (h, 12, islamic_month_len(h, 12))
        assert islamic_from_jdn(n + 1) == (h + 1, 1, 1)
