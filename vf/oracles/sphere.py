"""Vector geometry of the celestial sphere, written from the definitions (not from
pymeeus formulas).

Float layer (forward error of every result below ~1e-13 degree on the sphere):
  unit(lon, lat), lonlat(v), sep(a, b) = atan2(|a x b|, a . b), north/east tangent
  vectors, and the three frame changes as explicit 3x3 rotations:

  * ecliptic  <- equator : rotation about the common x axis (the equinox) by the obliquity
  * horizon   <- equator : hour-angle frame (x to the meridian point of the equator, y to
    the west, z to the celestial pole) turned about the west axis by the colatitude
    90 - phi; horizontal frame x south, y west, z zenith, azimuth measured from the
    SOUTH, westward (docstring of equatorial2horizontal)
  * galactic  <- equator (B1950): IAU 1958 definition, galactic north pole at
    alpha = 192.25, delta = +27.4 degrees, galactic longitude of the north celestial
    pole 123 degrees (Meeus ch. 13; equivalently ascending node l = 33).

High-precision layer (decimal, 50 digits): sin/cos by Taylor series, atan2 by Newton
steps from the float value.  It is used where the dot/cross-product value is
ill-conditioned in double precision (position angle at separations down to 1e-7
degree) and to self-test the float layer.
"""
import decimal
import math
from decimal import Decimal as D
from fractions import Fraction as F

# ---------------------------------------------------------------------------- floats


def unit(lon, lat):
    lo, la = math.radians(lon), math.radians(lat)
    c = math.cos(la)
    return (c * math.cos(lo), c * math.sin(lo), math.sin(la))


def lonlat(v):
    """(longitude in [0, 360), latitude) of a vector; latitude by atan2 (no asin)."""
    x, y, z = v
    lat = math.degrees(math.atan2(z, math.hypot(x, y)))
    lon = math.degrees(math.atan2(y, x))
    if lon < 0.0:
        lon += 360.0
    if lon >= 360.0:
        lon = 0.0
    return lon, lat


def dot(a, b):
    return a[0] * b[0] + a[1] * b[1] + a[2] * b[2]


def cross(a, b):
    return (a[1] * b[2] - a[2] * b[1], a[2] * b[0] - a[0] * b[2], a[0] * b[1] - a[1] * b[0])


def norm(a):
    return math.sqrt(dot(a, a))


def sep(a, b):
    """Angle between two vectors in degrees, atan2(|a x b|, a . b)."""
    return math.degrees(math.atan2(norm(cross(a, b)), dot(a, b)))


def sep_ll(lon1, lat1, lon2, lat2):
    return sep(unit(lon1, lat1), unit(lon2, lat2))


def matvec(m, v):
    return tuple(m[i][0] * v[0] + m[i][1] * v[1] + m[i][2] * v[2] for i in range(3))


def transpose(m):
    return tuple(tuple(m[j][i] for j in range(3)) for i in range(3))


def rot_x(angle_deg):
    """Matrix giving the components, in a frame turned by +angle about x, of a vector
    given in the original frame."""
    a = math.radians(angle_deg)
    c, s = math.cos(a), math.sin(a)
    return ((1.0, 0.0, 0.0), (0.0, c, s), (0.0, -s, c))


def rot_y(angle_deg):
    a = math.radians(angle_deg)
    c, s = math.cos(a), math.sin(a)
    return ((c, 0.0, -s), (0.0, 1.0, 0.0), (s, 0.0, c))


def m_ecl_from_equ(eps_deg):
    return rot_x(eps_deg)


def m_hor_from_equ(phi_deg):
    """Hour-angle frame -> (south, west, zenith).  The zenith has declination phi on the
    meridian: turning the frame about the west axis by the colatitude takes the pole
    axis z to the zenith."""
    return rot_y(90.0 - phi_deg)


GAL_POLE_RA = 192.25
GAL_POLE_DEC = 27.4
GAL_LON_NCP = 123.0


def _gal_matrix():
    p = unit(GAL_POLE_RA, GAL_POLE_DEC)          # galactic north pole: z axis
    zc = (0.0, 0.0, 1.0)                          # north celestial pole
    k = dot(zc, p)
    u = tuple(zc[i] - k * p[i] for i in range(3))  # NCP projected on the galactic plane
    n = norm(u)
    u = tuple(c / n for c in u)                   # galactic longitude 123 in the plane
    w = cross(p, u)                               # longitude 123 + 90
    a = math.radians(GAL_LON_NCP)
    ca, sa = math.cos(a), math.sin(a)
    x = tuple(ca * u[i] - sa * w[i] for i in range(3))
    y = tuple(sa * u[i] + ca * w[i] for i in range(3))
    return (x, y, p)


M_GAL_FROM_EQU = _gal_matrix()


def frame_matrix(frame, par):
    """Matrix target <- equatorial for frame in ecl / hor / gal."""
    if frame == "ecl":
        return m_ecl_from_equ(par)
    if frame == "hor":
        return m_hor_from_equ(par)
    if frame == "gal":
        return M_GAL_FROM_EQU
    raise ValueError(frame)


def north_east(lon, lat):
    lo, la = math.radians(lon), math.radians(lat)
    north = (-math.sin(la) * math.cos(lo), -math.sin(la) * math.sin(lo), math.cos(la))
    east = (-math.sin(lo), math.cos(lo), 0.0)
    return north, east


def offset(lon, lat, dist, bearing):
    """Point at angular distance dist from (lon, lat) in the direction bearing (from
    north through east); used only to *construct* partners, the asserted separation is
    always recomputed from the float coordinates actually handed to the library."""
    p = unit(lon, lat)
    n, e = north_east(lon, lat)
    b = math.radians(bearing)
    t = tuple(math.cos(b) * n[i] + math.sin(b) * e[i] for i in range(3))
    d = math.radians(dist)
    q = tuple(math.cos(d) * p[i] + math.sin(d) * t[i] for i in range(3))
    return lonlat(q)


# ------------------------------------------------------------------- high precision

PREC = 50
_CTX = decimal.Context(prec=PREC + 10)
PI_D = D("3.14159265358979323846264338327950288419716939937510582097494459230781640628620899")
HALF_PI_D = _CTX.divide(PI_D, D(2))
TWO_PI_D = _CTX.multiply(PI_D, D(2))
PI_D = _CTX.plus(PI_D)


def _hp(fn):
    """Run fn under the 60-digit context (unary minus, comparisons and any operator
    arithmetic inside then use it too)."""
    def wrapped(*a):
        with decimal.localcontext(_CTX):
            return fn(*a)
    wrapped.__name__ = fn.__name__
    wrapped.__doc__ = fn.__doc__
    return wrapped


def _dec(x):
    """Exact Decimal value of a float / int / Fraction (to working precision)."""
    if isinstance(x, D):
        return x
    if isinstance(x, float):
        return D(x)                  # exact
    if isinstance(x, int):
        return D(x)
    f = F(x)
    return _CTX.divide(D(f.numerator), D(f.denominator))


@_hp
def hp_sincos(x):
    """(sin x, cos x) of a Decimal angle in radians."""
    c = _CTX
    x = c.remainder_near(x, TWO_PI_D) if abs(x) > 7 else x
    # reduce to |r| <= pi/4 by quadrant
    q = int(c.divide(x, HALF_PI_D).to_integral_value(rounding=decimal.ROUND_HALF_EVEN))
    r = c.subtract(x, c.multiply(D(q), HALF_PI_D))
    r2 = c.multiply(r, r)
    # Taylor
    s, t, k = r, r, 1
    eps = D(10) ** (-(PREC + 8))
    while True:
        t = c.divide(c.multiply(t, -r2), D((2 * k) * (2 * k + 1)))
        s = c.add(s, t)
        k += 1
        if abs(t) < eps:
            break
    co, t, k = D(1), D(1), 1
    while True:
        t = c.divide(c.multiply(t, -r2), D((2 * k - 1) * (2 * k)))
        co = c.add(co, t)
        k += 1
        if abs(t) < eps:
            break
    q %= 4
    if q == 0:
        return s, co
    if q == 1:
        return co, -s
    if q == 2:
        return -s, -co
    return -co, s


@_hp
def hp_atan2(y, x):
    """atan2 of two Decimals, in radians (Decimal)."""
    c = _CTX
    if x == 0 and y == 0:
        return D(0)
    m = max(abs(x), abs(y))
    xs, ys = c.divide(x, m), c.divide(y, m)
    h = c.sqrt(c.add(c.multiply(xs, xs), c.multiply(ys, ys)))
    xs, ys = c.divide(xs, h), c.divide(ys, h)         # unit vector (cos t, sin t)
    t = D(math.atan2(float(ys), float(xs)))
    for _ in range(3):
        s, co = hp_sincos(t)
        # sin(theta - t) = ys*co - xs*s ; cos(theta - t) = xs*co + ys*s
        ds = c.subtract(c.multiply(ys, co), c.multiply(xs, s))
        dc = c.add(c.multiply(xs, co), c.multiply(ys, s))
        # theta - t = atan(ds/dc) ~ u - u^3/3 (u tiny after the first step)
        u = c.divide(ds, dc)
        t = c.add(t, c.subtract(u, c.divide(c.multiply(c.multiply(u, u), u), D(3))))
    return t


@_hp
def hp_rad(deg):
    return _CTX.divide(_CTX.multiply(_dec(deg), PI_D), D(180))


@_hp
def hp_deg(rad):
    return _CTX.divide(_CTX.multiply(rad, D(180)), PI_D)


@_hp
def hp_unit(lon, lat):
    so, co = hp_sincos(hp_rad(lon))
    sa, ca = hp_sincos(hp_rad(lat))
    c = _CTX
    return (c.multiply(ca, co), c.multiply(ca, so), sa)


def hp_dot(a, b):
    c = _CTX
    return c.add(c.add(c.multiply(a[0], b[0]), c.multiply(a[1], b[1])), c.multiply(a[2], b[2]))


def hp_cross(a, b):
    c = _CTX
    return (c.subtract(c.multiply(a[1], b[2]), c.multiply(a[2], b[1])),
            c.subtract(c.multiply(a[2], b[0]), c.multiply(a[0], b[2])),
            c.subtract(c.multiply(a[0], b[1]), c.multiply(a[1], b[0])))


@_hp
def hp_sep(lon1, lat1, lon2, lat2):
    """Separation in degrees (float) of two directions given as floats, computed with
    50-digit arithmetic from atan2(|a x b|, a . b)."""
    a, b = hp_unit(lon1, lat1), hp_unit(lon2, lat2)
    cr = hp_cross(a, b)
    n = _CTX.sqrt(hp_dot(cr, cr))
    return float(hp_deg(hp_atan2(n, hp_dot(a, b))))


@_hp
def hp_position_angle(lon1, lat1, lon2, lat2):
    """Position angle of body 1 as seen from body 2, from north through east, in
    (-180, 180] degrees: atan2(v1 . east2, v1 . north2) with the local north and east
    unit vectors at body 2."""
    v1 = hp_unit(lon1, lat1)
    so, co = hp_sincos(hp_rad(lon2))
    sa, ca = hp_sincos(hp_rad(lat2))
    c = _CTX
    north = (-c.multiply(sa, co), -c.multiply(sa, so), ca)
    east = (-so, co, D(0))
    return float(hp_deg(hp_atan2(hp_dot(v1, east), hp_dot(v1, north))))


def self_test():
    with decimal.localcontext(_CTX):
        _self_test()


def _self_test():
    # high-precision trig against known values
    s, co = hp_sincos(PI_D / 6)
    assert abs(s - D("0.5")) < D("1e-48") and abs(co * co + s * s - 1) < D("1e-48")
    for xf in (100.0, -7.25, 0.1, 1e-9, 3.0, -1.5707963):
        s, co = hp_sincos(D(xf))
        assert abs(float(s) - math.sin(xf)) < 2e-16 and abs(float(co) - math.cos(xf)) < 2e-16
        assert abs(co * co + s * s - 1) < D("1e-48")
        s2, c2 = hp_sincos(D(xf) * 2)            # duplication formulas
        assert abs(s2 - 2 * s * co) < D("1e-47") and abs(c2 - (co * co - s * s)) < D("1e-47")
    s, co = hp_sincos(PI_D / 4)
    assert abs(s * s * 2 - 1) < D("1e-48") and abs(s - co) < D("1e-48")
    assert abs(hp_atan2(D(1), D(1)) - PI_D / 4) < D("1e-48")
    assert abs(hp_atan2(D("1e-30"), D(-1)) - (PI_D - D("1e-30"))) < D("1e-48")
    assert abs(hp_atan2(D(-3), D(0)) + HALF_PI_D) < D("1e-48")
    for (y, x) in [(0.3, -0.7), (-1e-9, 1.0), (5.0, 1e-12), (-2.0, -3.0)]:
        assert abs(float(hp_atan2(D(y), D(x))) - math.atan2(y, x)) < 1e-15
    # float layer against the high-precision layer on hard pairs
    hard = [(10.0, 20.0, 10.0 + 1e-7, 20.0), (0.0, 89.9999999, 180.0, 89.9999999),
            (359.9999999, -45.0, 1e-7, -45.0), (33.0, 12.0, 213.0, -12.0 + 1e-3),
            (120.0, 90.0, 300.0, 89.0), (77.0, -3.0, 200.0, 41.0)]
    for a in hard:
        assert abs(sep_ll(*a) - hp_sep(*a)) < 1e-12, (a, sep_ll(*a), hp_sep(*a))
    # rotations are orthonormal and do what the definitions say
    for m in (m_ecl_from_equ(23.4), m_hor_from_equ(38.9), M_GAL_FROM_EQU):
        for i in range(3):
            for j in range(3):
                want = 1.0 if i == j else 0.0
                assert abs(dot(m[i], m[j]) - want) < 1e-15
        assert abs(dot(cross(m[0], m[1]), m[2]) - 1.0) < 1e-15      # proper rotation
    # ecliptic pole has RA 270, dec 90 - eps
    lo, la = lonlat(matvec(m_ecl_from_equ(23.0), unit(270.0, 67.0)))
    assert abs(la - 90.0) < 1e-12
    # summer solstice point: RA 90, dec eps  <->  lon 90, lat 0
    lo, la = lonlat(matvec(m_ecl_from_equ(23.0), unit(90.0, 23.0)))
    assert abs(lo - 90.0) < 1e-12 and abs(la) < 1e-12
    # horizon: the pole has elevation phi and azimuth 180 (north, measured from south);
    # a body on the meridian south of the zenith has azimuth 0; H = 90, dec = 0 is due west
    lo, la = lonlat(matvec(m_hor_from_equ(40.0), unit(0.0, 90.0)))
    assert abs(la - 40.0) < 1e-12 and abs(lo - 180.0) < 1e-12
    lo, la = lonlat(matvec(m_hor_from_equ(40.0), unit(0.0, 10.0)))
    assert abs(la - 60.0) < 1e-12 and (lo < 1e-12 or lo > 360 - 1e-12)
    lo, la = lonlat(matvec(m_hor_from_equ(40.0), unit(90.0, 0.0)))
    assert abs(la) < 1e-12 and abs(lo - 90.0) < 1e-12
    # galactic: pole -> b = 90; NCP -> l = 123, b = 27.4; Meeus example 13.b
    lo, la = lonlat(matvec(M_GAL_FROM_EQU, unit(GAL_POLE_RA, GAL_POLE_DEC)))
    assert abs(la - 90.0) < 1e-12
    lo, la = lonlat(matvec(M_GAL_FROM_EQU, (0.0, 0.0, 1.0)))
    assert abs(lo - 123.0) < 1e-12 and abs(la - 27.4) < 1e-12
    ra = 15.0 * (17 + 48 / 60.0 + 59.74 / 3600.0)
    de = -(14 + 43 / 60.0 + 8.2 / 3600.0)
    lo, la = lonlat(matvec(M_GAL_FROM_EQU, unit(ra, de)))
    assert abs(lo - 12.9593) < 5e-5 and abs(la - 6.0463) < 5e-5, (lo, la)
    # position angle: due north -> 0, due east -> +90
    assert abs(hp_position_angle(50.0, 11.0, 50.0, 10.0)) < 1e-12
    assert abs(hp_position_angle(50.001, 0.0, 50.0, 0.0) - 90.0) < 1e-12
    assert abs(hp_position_angle(49.999, 0.0, 50.0, 0.0) + 90.0) < 1e-12
