"""Event location on the library's own lunar (and solar) positions, for C15.

Nothing here re-implements the lunar theory: the property asks that the finders agree
with the *library's own positions*.  This module supplies the numerical side --
central differences, sign-change tests for extrema inside a window, bracketing bisection
and golden-section search -- plus the Sun-Earth-Moon triangle from vectors.
"""
import math

AU_KM = 149597870.7
EARTH_RADIUS_KM = 6378.14

# mean lengths (days) of the four months the finders step by
SYNODIC = 29.530588861
ANOMALISTIC = 27.55454989
DRACONIC = 27.212220817
TROPICAL = 27.321582247


def wrap180(x):
    return (x + 180.0) % 360.0 - 180.0


def central_diff(f, x, h):
    return (f(x + h) - f(x - h)) / (2.0 * h)


def bisect_root(f, a, b, n=40):
    """Root of f in [a, b] by bisection; None when f(a), f(b) have the same sign."""
    fa, fb = f(a), f(b)
    if fa == 0.0:
        return a
    if fb == 0.0:
        return b
    if (fa > 0) == (fb > 0):
        return None
    for _ in range(n):
        m = 0.5 * (a + b)
        fm = f(m)
        if fm == 0.0:
            return m
        if (fm > 0) == (fa > 0):
            a, fa = m, fm
        else:
            b, fb = m, fm
    return 0.5 * (a + b)


def golden_max(f, a, b, tol=1e-4):
    """Abscissa of the maximum of a unimodal f on [a, b] by golden-section search."""
    g = (math.sqrt(5.0) - 1.0) / 2.0
    c = b - g * (b - a)
    d = a + g * (b - a)
    fc, fd = f(c), f(d)
    while abs(b - a) > tol:
        if fc > fd:
            b, d, fd = d, c, fc
            c = b - g * (b - a)
            fc = f(c)
        else:
            a, c, fc = c, d, fd
            d = a + g * (b - a)
            fd = f(d)
    return 0.5 * (a + b)


def extremum_in_window(f, t, half, kind, h=0.01):
    """Is there an extremum of the wanted kind ('min' or 'max') of f within t +- half?
    Decided by the signs of the central-difference derivative at the two window ends
    (a continuous derivative that goes from - to + encloses a minimum).  Returns
    (ok, derivative_before, derivative_after)."""
    d0 = central_diff(f, t - half, h)
    d1 = central_diff(f, t + half, h)
    if kind == "min":
        return (d0 < 0.0 < d1), d0, d1
    return (d0 > 0.0 > d1), d0, d1


def locate_extremum(f, t, half, h=0.01):
    """Zero of the derivative inside t +- half (None if no sign change)."""
    return bisect_root(lambda x: central_diff(f, x, h), t - half, t + half, 30)


def vec(lon, lat, r):
    lo, la = math.radians(lon), math.radians(lat)
    c = math.cos(la)
    return (r * c * math.cos(lo), r * c * math.sin(lo), r * math.sin(la))


def angle_between(a, b):
    cx = a[1] * b[2] - a[2] * b[1]
    cy = a[2] * b[0] - a[0] * b[2]
    cz = a[0] * b[1] - a[1] * b[0]
    return math.degrees(math.atan2(math.sqrt(cx * cx + cy * cy + cz * cz),
                                   a[0] * b[0] + a[1] * b[1] + a[2] * b[2]))


def phase_angle(moon_lon, moon_lat, moon_km, sun_lon, sun_lat, sun_au):
    """Angle Sun - Moon - Earth in degrees (selenocentric elongation of the Earth from
    the Sun), from the two geocentric vectors."""
    m = vec(moon_lon, moon_lat, moon_km)
    s = vec(sun_lon, sun_lat, sun_au * AU_KM)
    to_earth = (-m[0], -m[1], -m[2])
    to_sun = (s[0] - m[0], s[1] - m[1], s[2] - m[2])
    return angle_between(to_earth, to_sun)


def self_test():
    r = bisect_root(lambda x: x * x - 2.0, 0.0, 2.0, 50)
    assert abs(r - math.sqrt(2.0)) < 1e-12
    assert bisect_root(lambda x: x * x + 1.0, -1.0, 1.0) is None
    x = golden_max(lambda x: -(x - 0.3) ** 2, -1.0, 2.0, 1e-9)
    assert abs(x - 0.3) < 1e-6
    ok, d0, d1 = extremum_in_window(lambda x: (x - 5.1) ** 2, 5.0, 0.25, "min")
    assert ok and d0 < 0 < d1
    ok, _, _ = extremum_in_window(lambda x: (x - 5.3) ** 2, 5.0, 0.25, "min")
    assert not ok
    ok, _, _ = extremum_in_window(lambda x: -(x - 5.1) ** 2, 5.0, 0.25, "min")
    assert not ok
    ok, _, _ = extremum_in_window(lambda x: -(x - 5.1) ** 2, 5.0, 0.25, "max")
    assert ok
    z = locate_extremum(lambda x: math.cos(x - 1.0), 1.1, 0.25)
    assert abs(z - 1.0) < 1e-6
    # full moon geometry: Sun and Moon opposite -> phase angle 0; new moon -> 180
    assert abs(phase_angle(180.0, 0.0, 384400.0, 0.0, 0.0, 1.0)) < 1e-9
    assert abs(phase_angle(0.0, 0.0, 384400.0, 0.0, 0.0, 1.0) - 180.0) < 1e-9
    # quarter: elongation 90 deg -> phase angle = 90 - atan(d/R)
    i = phase_angle(90.0, 0.0, 384400.0, 0.0, 0.0, 1.0)
    assert abs(i - (90.0 - math.degrees(math.atan(384400.0 / AU_KM)))) < 1e-9
