"""Vector / rotation helpers for the precession and frame properties (C06, C08).

Written from the definitions; nothing here imports pymeeus.  Angles are degrees at the
interface, radians inside.  Separations use atan2(|a x b|, a . b), which is accurate
for coincident, antipodal and polar directions alike.
"""
import math

ARCSEC = 1.0 / 3600.0


def vec(lon, lat):
    """Unit vector of the direction (lon, lat), degrees."""
    lo, la = math.radians(lon), math.radians(lat)
    c = math.cos(la)
    return (c * math.cos(lo), c * math.sin(lo), math.sin(la))


def dot(a, b):
    return a[0] * b[0] + a[1] * b[1] + a[2] * b[2]


def cross(a, b):
    return (a[1] * b[2] - a[2] * b[1], a[2] * b[0] - a[0] * b[2], a[0] * b[1] - a[1] * b[0])


def norm(a):
    return math.sqrt(dot(a, a))


def unit(a):
    n = norm(a)
    return (a[0] / n, a[1] / n, a[2] / n)


def sep(a, b):
    """Angle between two vectors (any lengths), degrees."""
    return math.degrees(math.atan2(norm(cross(a, b)), dot(a, b)))


def sep_ll(lon1, lat1, lon2, lat2):
    return sep(vec(lon1, lat1), vec(lon2, lat2))


def lonlat(v):
    """(lon in [0, 360), lat) of a vector, degrees."""
    lon = math.degrees(math.atan2(v[1], v[0])) % 360.0
    if lon >= 360.0:
        lon = 0.0
    lat = math.degrees(math.atan2(v[2], math.hypot(v[0], v[1])))
    return lon, lat


def triple(a, b, c):
    """Signed volume a . (b x c)."""
    return dot(a, cross(b, c))


def wrap180(x):
    """x reduced to [-180, 180)."""
    return (x + 180.0) % 360.0 - 180.0


def rot_x(v, ang):
    """Rotate the *axes* about x by ang degrees (ecliptic -> equator uses ang = -eps):
    returns the components of v in the rotated frame ... kept explicit to avoid sign
    folklore: result = (x, y cos a + z sin a, -y sin a + z cos a)."""
    a = math.radians(ang)
    c, s = math.cos(a), math.sin(a)
    return (v[0], v[1] * c + v[2] * s, -v[1] * s + v[2] * c)


def ecl2equ(v, eps):
    """Components in the equatorial frame of a vector given in the ecliptic frame of the
    same equinox; eps = obliquity in degrees (x axis shared; equator = ecliptic turned
    by eps about x)."""
    return rot_x(v, -eps)


def equ2ecl(v, eps):
    return rot_x(v, eps)


def orbit_frame(i, arg, node):
    """Perihelion direction P and orbit pole W of an orbit with inclination i, argument
    of perihelion arg and longitude of ascending node `node` (degrees)."""
    i, w, o = math.radians(i), math.radians(arg), math.radians(node)
    ci, si = math.cos(i), math.sin(i)
    cw, sw = math.cos(w), math.sin(w)
    co, so = math.cos(o), math.sin(o)
    p = (co * cw - so * sw * ci, so * cw + co * sw * ci, sw * si)
    wv = (so * si, -co * si, ci)
    return p, wv


def self_test():
    # axes, handedness and the obliquity rotation: the ecliptic north pole seen from
    # the equator frame lies at RA 270, Dec 90 - eps; the point lon 90 lat 0 at RA 90 Dec eps
    eps = 23.4392911
    pole = ecl2equ((0.0, 0.0, 1.0), eps)
    lo, la = lonlat(pole)
    assert abs(lo - 270.0) < 1e-12 and abs(la - (90.0 - eps)) < 1e-12, (lo, la)
    lo, la = lonlat(ecl2equ(vec(90.0, 0.0), eps))
    assert abs(lo - 90.0) < 1e-12 and abs(la - eps) < 1e-12, (lo, la)
    v = vec(123.0, -45.0)
    w = equ2ecl(ecl2equ(v, eps), eps)
    assert sep(v, w) < 1e-13
    assert abs(sep(vec(10.0, 0.0), vec(190.0, 0.0)) - 180.0) < 1e-12
    assert abs(sep(vec(10.0, 89.0), vec(190.0, 89.0)) - 2.0) < 1e-12
    assert abs(sep_ll(0.0, 90.0, 77.0, -90.0) - 180.0) < 1e-12
    assert triple((1, 0, 0), (0, 1, 0), (0, 0, 1)) == 1
    # orbit frame: i = 0 -> perihelion at longitude node + arg, pole = +z
    p, wv = orbit_frame(0.0, 30.0, 40.0)
    assert sep(p, vec(70.0, 0.0)) < 1e-13 and sep(wv, (0, 0, 1)) < 1e-13
    p, wv = orbit_frame(90.0, 90.0, 0.0)
    assert sep(p, (0, 0, 1)) < 1e-13 and sep(wv, (0, -1, 0)) < 1e-13
    assert abs(wrap180(359.0) + 1.0) < 1e-12 and wrap180(180.0) == -180.0
