"""Literal coefficients used by the C08 oracle and its known-finding signatures.

Everything here is typed from the published definitions (IAU 1976/1980; Meeus,
Astronomical Algorithms 2nd ed., chapters 21, 22, 26 and Appendix III), not imported
from pymeeus.
"""
import math

J2000 = 2451545.0
B1950 = 2433282.4235            # JDE of the Besselian epoch B1950.0

# ---- IAU 1976 mean obliquity (arc seconds; T in Julian centuries from J2000)
EPS0_ARCSEC = (84381.448, -46.8150, -0.00059, 0.001813)      # 23d26'21.448" ...
EPS_J2000_DEG = 84381.448 / 3600.0


def mean_obliquity_iau1976(T):
    """degrees"""
    c = EPS0_ARCSEC
    return (c[0] + T * (c[1] + T * (c[2] + T * c[3]))) / 3600.0


# ---- main (18.6-year) terms of the IAU 1980 nutation, arc seconds
NUT_PSI_MAIN = -17.20          # * sin(Omega)
NUT_EPS_MAIN = 9.20            # * cos(Omega)

# ---- IAU 1976 (Lieske) equatorial precession angles, arc seconds.
# T: centuries from J2000 to the starting epoch; t: centuries from start to end.


def precession_angles(T, t):
    zeta = (2306.2181 + 1.39656 * T - 0.000139 * T * T) * t \
        + (0.30188 - 0.000344 * T) * t * t + 0.017998 * t ** 3
    z = (2306.2181 + 1.39656 * T - 0.000139 * T * T) * t \
        + (1.09468 + 0.000066 * T) * t * t + 0.018203 * t ** 3
    theta = (2004.3109 - 0.85330 * T - 0.000217 * T * T) * t \
        - (0.42665 + 0.000217 * T) * t * t - 0.041833 * t ** 3
    return zeta, z, theta


def precession_matrix(T, t):
    """Rotation taking rectangular equatorial coordinates of the starting equinox to the
    final one (rows), Meeus (26.?) Xx..Zz."""
    zeta, z, theta = (math.radians(a / 3600.0) for a in precession_angles(T, t))
    cze, sze = math.cos(zeta), math.sin(zeta)
    cz, sz = math.cos(z), math.sin(z)
    ct, st = math.cos(theta), math.sin(theta)
    xx = cze * cz * ct - sze * sz
    xy = sze * cz + cze * sz * ct
    xz = cze * st
    yx = -cze * sz - sze * cz * ct
    yy = cze * cz - sze * sz * ct
    yz = -sze * st
    zx = -cz * st
    zy = -sz * st
    zz = ct
    # x' = Xx x + Yx y + Zx z ; y' = Xy x + Yy y + Zy z ; z' = Xz x + Yz y + Zz z
    return ((xx, yx, zx), (xy, yy, zy), (xz, yz, zz))


def mat_vec(m, v):
    return tuple(m[i][0] * v[0] + m[i][1] * v[1] + m[i][2] * v[2] for i in range(3))


def transpose(m):
    return tuple(tuple(m[j][i] for j in range(3)) for i in range(3))


# ---- ecliptic J2000 (VSOP87) -> equatorial B1950 (FK4 axes), Meeus ch. 26
M_B1950 = ((0.999925702634, 0.012189716217, 0.000011134016),
           (-0.011179418036, 0.917413998946, -0.397777041885),
           (-0.004859003787, 0.397747363646, 0.917482111428))

# ---- ecliptic J2000 (VSOP87) -> equatorial FK5 J2000, Meeus (26.3)
M_J2000 = ((1.0, 0.000000440360, -0.000000190919),
           (-0.000000479966, 0.917482137087, -0.397776982902),
           (0.0, 0.397776982902, 0.917482137087))

# ---- third term of the Earth's L0 series (VSOP87, Meeus Appendix III): A, B, C
EARTH_L0_TERM3 = (34894.0, 4.6261, 12566.1517)
EARTH_L0_TERM3_MISTYPED_C = 12556.1517


def mistyped_l0_effect_deg(jde):
    """What writing 12556.1517 for 12566.1517 adds to the longitude (degrees): the
    mistyped term minus the correct one, in units of 1e-8 rad."""
    tau = (jde - J2000) / 365250.0
    a, b, c = EARTH_L0_TERM3
    d = a * (math.cos(b + EARTH_L0_TERM3_MISTYPED_C * tau) - math.cos(b + c * tau))
    return math.degrees(d * 1e-8)


def sequential_overwrite(m, v):
    """x, y, z = M.(x, y, z) evaluated one assignment after the other, each line seeing
    the components already overwritten."""
    x, y, z = v
    x = m[0][0] * x + m[0][1] * y + m[0][2] * z
    y = m[1][0] * x + m[1][1] * y + m[1][2] * z
    z = m[2][0] * x + m[2][1] * y + m[2][2] * z
    return (x, y, z)


def undo_sequential_overwrite(m, w):
    """Inverse of sequential_overwrite: the (x, y, z) that went in."""
    xp, yp, zp = w
    z = (zp - m[2][0] * xp - m[2][1] * yp) / m[2][2]
    y = (yp - m[1][0] * xp - m[1][2] * z) / m[1][1]
    x = (xp - m[0][1] * y - m[0][2] * z) / m[0][0]
    return (x, y, z)


def self_test():
    assert abs(EPS_J2000_DEG - (23.0 + 26.0 / 60.0 + 21.448 / 3600.0)) < 1e-13
    assert abs(mean_obliquity_iau1976(0.0) - 23.4392911111) < 1e-9
    # 1987 April 10 (Meeus ex. 22.a): eps0 = 23d26'27.407"
    T = (2446895.5 - J2000) / 36525.0
    assert abs(mean_obliquity_iau1976(T) * 3600.0 - (23 * 3600 + 26 * 60 + 27.407)) < 2e-3
    # precession matrix is a rotation, identity for t = 0, and P(0,t)^T undoes it
    m = precession_matrix(0.0, 0.5)
    mt = transpose(m)
    for i in range(3):
        for j in range(3):
            s = sum(m[i][k] * mt[k][j] for k in range(3))
            assert abs(s - (1.0 if i == j else 0.0)) < 1e-14
    m0 = precession_matrix(0.3, 0.0)
    assert m0 == ((1.0, 0.0, 0.0), (0.0, 1.0, 0.0), (0.0, 0.0, 1.0)) or \
        all(abs(m0[i][j] - (1.0 if i == j else 0.0)) < 1e-15 for i in range(3) for j in range(3))
    # J2000 -> 2100: the pole moves by theta ~ 2004" towards RA 0h side: z of old pole
    v = mat_vec(precession_matrix(0.0, 1.0), (0.0, 0.0, 1.0))
    assert abs(math.degrees(math.acos(v[2])) * 3600.0 - (2004.3109 - 0.42665 - 0.041833)) < 1e-6
    # the B1950 and J2000 matrices are rotations to 1e-9
    for m in (M_B1950, M_J2000):
        for i in range(3):
            for j in range(3):
                s = sum(m[i][k] * m[j][k] for k in range(3))
                assert abs(s - (1.0 if i == j else 0.0)) < 2e-9, (i, j, s)
    # overwrite / undo are inverse
    v = (0.3, -0.8, 0.5)
    w = undo_sequential_overwrite(M_B1950, sequential_overwrite(M_B1950, v))
    assert max(abs(a - b) for a, b in zip(v, w)) < 1e-15
    assert sequential_overwrite(M_B1950, v) != mat_vec(M_B1950, v)
    # the mistyped term: zero at J2000, 72" amplitude scale (2 * 34894e-8 rad = 144")
    assert mistyped_l0_effect_deg(J2000) == 0.0
    assert abs(mistyped_l0_effect_deg(J2000 + 36525.0)) * 3600.0 < 145.0
    assert abs(mistyped_l0_effect_deg(2448908.5) * 3600.0) > 2.0     # 1992-10-13: about 4.6"
