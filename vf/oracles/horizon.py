"""Observer-side geometry for C14, written from the definitions (not from pymeeus).

* ecliptic -> equator as an explicit rotation about the equinox by the obliquity,
* altitude of a direction given by local hour angle and declination for an observer at
  geographic latitude phi (rotation of the hour-angle frame about the west axis),
* the altitude range swept during a sidereal day (upper / lower culmination),
* Meeus' three-point interpolation (formula 3.3) with the tabular differences of an
  angle taken the short way round,
* UTC -> TT from a literal table of the 27 IERS leap-second dates (TAI-UTC = 10 s on
  1972-01-01, 37 s from 2017-01-01), and a coarse literal table of TT-UT before 1972.

self_test() checks the literal anchors (Meeus examples 13.a / 13.b, table sizes).
"""
import math

# dates (year, month) on whose first day TAI-UTC grew by one second (IERS Bulletin C)
LEAP_DATES = [
    (1972, 7), (1973, 1), (1974, 1), (1975, 1), (1976, 1), (1977, 1), (1978, 1),
    (1979, 1), (1980, 1), (1981, 7), (1982, 7), (1983, 7), (1985, 7), (1988, 1),
    (1990, 1), (1991, 1), (1992, 7), (1993, 7), (1994, 7), (1996, 1), (1997, 7),
    (1999, 1), (2006, 1), (2009, 1), (2012, 7), (2015, 7), (2017, 1),
]

# TT - UT in seconds at the start of the year (Astronomical Almanac, rounded to 0.1 s);
# used only before 1972, where an error of several seconds moves the Sun by < 1"
DELTA_T_YEARS = [(1890, -5.9), (1900, -2.8), (1910, 10.4), (1920, 21.2), (1930, 24.0),
                 (1940, 24.3), (1950, 29.1), (1960, 33.1), (1970, 40.2), (1972, 42.2)]


def tai_minus_utc(year, month):
    """TAI-UTC in seconds for a UTC date in (year, month); valid from 1972-01."""
    n = 10
    for ym in LEAP_DATES:
        if ym <= (year, month):
            n += 1
    return n


def tt_minus_utc(year, month):
    """TT - UTC in seconds.  From 1972: 32.184 + TAI-UTC.  Before: TT - UT from the
    coarse table (linear interpolation), UTC taken as UT."""
    if (year, month) >= (1972, 1):
        return 32.184 + tai_minus_utc(year, month)
    y = year + (month - 1) / 12.0
    tab = DELTA_T_YEARS
    if y <= tab[0][0]:
        return tab[0][1]
    for (y0, d0), (y1, d1) in zip(tab, tab[1:]):
        if y0 <= y <= y1:
            return d0 + (d1 - d0) * (y - y0) / (y1 - y0)
    return tab[-1][1]


def wrap180(x):
    """x reduced to [-180, 180)."""
    return (x + 180.0) % 360.0 - 180.0


def ecl2equ(lon, lat, eps):
    """(right ascension in [0, 360), declination) of ecliptic (lon, lat), degrees."""
    l, b, e = math.radians(lon), math.radians(lat), math.radians(eps)
    x = math.cos(b) * math.cos(l)
    y0 = math.cos(b) * math.sin(l)
    z0 = math.sin(b)
    y = y0 * math.cos(e) - z0 * math.sin(e)
    z = y0 * math.sin(e) + z0 * math.cos(e)
    ra = math.degrees(math.atan2(y, x)) % 360.0
    dec = math.degrees(math.atan2(z, math.hypot(x, y)))
    return ra, dec


def altaz(H, dec, phi):
    """(altitude, azimuth from the south, westwards) for local hour angle H, declination
    dec and geographic latitude phi, all in degrees."""
    h, d, p = math.radians(H), math.radians(dec), math.radians(phi)
    # hour-angle frame: x to the meridian point of the equator, y west, z north pole
    x = math.cos(d) * math.cos(h)
    y = math.cos(d) * math.sin(h)
    z = math.sin(d)
    # turn about the west axis by the colatitude: zenith and south components
    zen = x * math.cos(p) + z * math.sin(p)
    south = x * math.sin(p) - z * math.cos(p)
    alt = math.degrees(math.atan2(zen, math.hypot(south, y)))
    az = math.degrees(math.atan2(y, south)) % 360.0
    return alt, az


def altitude(H, dec, phi):
    return altaz(H, dec, phi)[0]


def diurnal_range(phi, dec):
    """(lowest, highest) altitude reached during a sidereal day by a fixed point of
    declination dec seen from latitude phi (lower and upper culmination)."""
    up = 90.0 - abs(phi - dec)
    lo = -(90.0 - abs(phi + dec))
    return lo, up


def interp3(n, y1, y2, y3, angle=True):
    """Meeus formula 3.3: value at y2's abscissa + n tabular intervals.  For angles the
    two first differences are reduced to [-180, 180)."""
    a = y2 - y1
    b = y3 - y2
    if angle:
        a = wrap180(a)
        b = wrap180(b)
    c = b - a
    return y2 + n * (a + b + n * c) / 2.0


def self_test():
    assert len(LEAP_DATES) == 27 and LEAP_DATES == sorted(set(LEAP_DATES))
    assert tai_minus_utc(1972, 1) == 10 and tai_minus_utc(1972, 7) == 11
    assert tai_minus_utc(2016, 12) == 36 and tai_minus_utc(2017, 1) == 37
    assert tai_minus_utc(2100, 1) == 37
    assert abs(tt_minus_utc(1999, 1) - 64.184) < 1e-9
    assert abs(tt_minus_utc(1950, 1) - 29.1) < 1e-9
    # Meeus example 13.a (Pollux): ecliptic -> equator
    ra, dec = ecl2equ(113.215630, 6.684170, 23.4392911)
    assert abs(ra - 116.328942) < 2e-6 and abs(dec - 28.026183) < 2e-6, (ra, dec)
    # Meeus example 13.b (Venus from Washington)
    alt, az = altaz(64.352133, -6.719892, 38.921389)
    assert abs(alt - 15.1249) < 1e-4 and abs(az - 68.0337) < 1e-4, (alt, az)
    # culminations
    lo, up = diurnal_range(40.0, 20.0)
    assert abs(altitude(0.0, 20.0, 40.0) - up) < 1e-12
    assert abs(altitude(180.0, 20.0, 40.0) - lo) < 1e-12
    lo, up = diurnal_range(11.0, -79.0)
    assert abs(up - 0.0) < 1e-12 and abs(altitude(0.0, -79.0, 11.0)) < 1e-9
    assert abs(altitude(0.0, 70.0, 80.0) - 80.0) < 1e-9
    assert abs(altitude(180.0, 70.0, 80.0) - 60.0) < 1e-9
    # interpolation: Meeus example 3.a (Mars distance) and a wrapped angle
    v = interp3(0.18125, 0.884226, 0.877366, 0.870531, angle=False)
    assert abs(v - 0.876125) < 1e-6, v
    assert abs(interp3(0.5, 359.0, 0.0, 1.0) - 0.5) < 1e-12
    assert abs(interp3(-0.5, 359.0, 0.0, 1.0) + 0.5) < 1e-12
