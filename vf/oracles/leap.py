"""IERS Bulletin C history of UTC leap seconds, as literals.

Each entry is the (year, month) of the first day on which the new TAI-UTC value is in
force, i.e. the leap second was inserted at the end of the preceding day (30 June or
31 December).  TAI - UTC was 10 s on 1972-01-01 and has grown by one second at each of
the 27 dates below; no leap second has been announced after 2017-01-01 (Bulletin C 70,
July 2025, still gives TAI-UTC = 37 s).

Not derived from pymeeus: the list is the public table published by the IERS
(https://hpiers.obspm.fr/iers/bul/bulc/Leap_Second.dat).
"""

# (year, month) from which TAI-UTC = 10 + position_in_list + 1
LEAP_DATES = [
    (1972, 7), (1973, 1), (1974, 1), (1975, 1), (1976, 1), (1977, 1), (1978, 1),
    (1979, 1), (1980, 1), (1981, 7), (1982, 7), (1983, 7), (1985, 7), (1988, 1),
    (1990, 1), (1991, 1), (1992, 7), (1993, 7), (1994, 7), (1996, 1), (1997, 7),
    (1999, 1), (2006, 1), (2009, 1), (2012, 7), (2015, 7), (2017, 1),
]

TT_MINUS_TAI = 32.184          # seconds, by definition
TAI_MINUS_UTC_1972 = 10        # seconds on 1972-01-01

# TAI-UTC published for a few dates (IERS Bulletin C / USNO tai-utc.dat), for the self-test
_ANCHORS = [((1972, 1), 10), ((1972, 6), 10), ((1972, 7), 11), ((1980, 1), 19),
            ((1985, 6), 22), ((1985, 7), 23), ((1998, 12), 31), ((1999, 1), 32),
            ((2005, 12), 32), ((2006, 1), 33), ((2016, 12), 36), ((2017, 1), 37),
            ((2024, 6), 37)]


def count(year, month):
    """Leap seconds inserted before the first day of (year, month) -- the same for every
    day of that month, because insertions happen at the very end of a month."""
    return sum(1 for ym in LEAP_DATES if ym <= (year, month))


def tt_minus_utc(year, month):
    """TT - UTC in seconds for a civil date in (year, month), year >= 1972."""
    return TT_MINUS_TAI + TAI_MINUS_UTC_1972 + count(year, month)


def precedes_leap_second(year, month):
    """True when a leap second is inserted at the end of the last day of (year, month)."""
    nxt = (year + 1, 1) if month == 12 else (year, month + 1)
    return nxt in LEAP_DATES


def self_test():
    assert len(LEAP_DATES) == 27 and len(set(LEAP_DATES)) == 27
    assert LEAP_DATES == sorted(LEAP_DATES)
    assert all(m in (1, 7) for _, m in LEAP_DATES)
    assert LEAP_DATES[0] == (1972, 7) and LEAP_DATES[-1] == (2017, 1)
    for ym, tai_utc in _ANCHORS:
        if TAI_MINUS_UTC_1972 + count(*ym) != tai_utc:
            raise AssertionError("leap oracle self-test failed at %r" % (ym,))
    assert count(1950, 1) == 0 and count(2100, 12) == 27
    assert precedes_leap_second(2016, 12) and precedes_leap_second(1972, 6)
    assert not precedes_leap_second(2016, 6) and not precedes_leap_second(2017, 1)
    assert abs(tt_minus_utc(2000, 1) - 64.184) < 1e-12
