"""Two-body reference model, written from the definitions (no pymeeus import).

Units: AU, days, radians.  Gaussian constant K, mu = K**2 (massless body unless a
mass is given).

  kepler_E(e, M)             eccentric anomaly, safeguarded Newton to ~1e-15 (0 <= e < 1)
  elliptic(q, e, dt)         (r, v) from perihelion distance, eccentricity, days since
                             perihelion, through kepler_E (e < 1)
  barker(q, dt)              (r, v) on the parabola, closed form
  universal(q, e, dt)        (r, v) for ANY e >= 0 through the universal-variable Kepler
                             equation with Stumpff functions (continuous across e = 1)
  propagate(q, e, dt)        the solver appropriate for the regime (the other one is its
                             cross-check in self_test)
  perifocal_to_ecliptic(r, v, i, node, peri)   heliocentric ecliptic rectangular vector
  visviva(r, a_inv)          speed from the vis-viva equation
  mean_motion(a, mass=0.0)   Kepler III, rad/day

self_test() checks: Kepler residuals; elliptic == universal on a grid; universal(e=1) ==
Barker; continuity across e = 1; a 50-digit decimal solution of Kepler's equation for a
handful of hard cases; vis-viva against a numerical derivative of the propagated
position; literal worked examples from the literature (Meeus ch. 30, 34, 35).
"""
import decimal
import math

K = 0.01720209895
TWO_PI = 2.0 * math.pi


# --------------------------------------------------------------------- elliptic

def reduce_angle(m):
    """m reduced to [-pi, pi]."""
    m = math.fmod(m, TWO_PI)
    if m > math.pi:
        m -= TWO_PI
    elif m < -math.pi:
        m += TWO_PI
    return m


def kepler_E(e, M):
    """Solve E - e sin E = M (M any real; the returned E is in [-pi, pi] and belongs to
    M reduced to [-pi, pi]).  Newton inside a shrinking bracket; falls back to bisection
    whenever a Newton step leaves the bracket."""
    if not (0.0 <= e < 1.0):
        raise ValueError("kepler_E needs 0 <= e < 1")
    M = reduce_angle(M)
    sgn = 1.0
    if M < 0.0:
        sgn, M = -1.0, -M
    # f(E) = E - e sin E - M is increasing on [0, pi], f(0) <= 0 <= f(pi)
    lo, hi = 0.0, math.pi
    # starting guess (Danby): M + 0.85 e
    E = min(hi, M + 0.85 * e)
    for _ in range(200):
        f = E - e * math.sin(E) - M
        if f > 0.0:
            hi = E
        else:
            lo = E
        fp = 1.0 - e * math.cos(E)
        En = E - f / fp if fp > 0.0 else 0.5 * (lo + hi)
        if not (lo <= En <= hi):
            En = 0.5 * (lo + hi)
        if abs(En - E) <= 1e-16 * max(1.0, abs(E)) or hi - lo <= 1e-16:
            E = En
            break
        E = En
    return sgn * E


def elliptic(q, e, dt, mass=0.0):
    """(r, v) at dt days after perihelion on the ellipse (e < 1)."""
    a = q / (1.0 - e)
    n = K * math.sqrt(1.0 + mass) / (a * math.sqrt(a))
    E = kepler_E(e, n * dt)
    # half-angle form is stable for every E
    v = 2.0 * math.atan2(math.sqrt(1.0 + e) * math.sin(E / 2.0),
                         math.sqrt(1.0 - e) * math.cos(E / 2.0))
    r = a * (1.0 - e * math.cos(E))
    return r, v


def period(q, e, mass=0.0):
    a = q / (1.0 - e)
    return TWO_PI * a * math.sqrt(a) / (K * math.sqrt(1.0 + mass))


# --------------------------------------------------------------------- parabola

def barker(q, dt):
    """(r, v) on the parabola: s = tan(v/2) solves s + s^3/3 = K dt / (sqrt(2) q^1.5);
    closed form s = 2 sinh(asinh(3B/2)/3), free of cancellation for small dt."""
    B = K * dt / (math.sqrt(2.0) * q * math.sqrt(q))
    s = 2.0 * math.sinh(math.asinh(1.5 * B) / 3.0)
    return q * (1.0 + s * s), 2.0 * math.atan(s)


# --------------------------------------------------------------------- universal

def stumpff(z):
    """(C(z), S(z)) = ((1 - cos sqrt z)/z, (sqrt z - sin sqrt z)/z^1.5), by series for
    |z| < 0.5 (no cancellation), closed forms elsewhere."""
    if abs(z) < 0.5:
        c = 0.0
        s = 0.0
        tc = 0.5          # 1/2!
        ts = 1.0 / 6.0    # 1/3!
        k = 0
        while True:
            c += tc
            s += ts
            k += 1
            tc = -tc * z / ((2 * k + 1) * (2 * k + 2))
            ts = -ts * z / ((2 * k + 2) * (2 * k + 3))
            if abs(tc) < 1e-19 and abs(ts) < 1e-19:
                break
        return c, s
    if z > 0.0:
        sz = math.sqrt(z)
        return (1.0 - math.cos(sz)) / z, (sz - math.sin(sz)) / (sz * z)
    sz = math.sqrt(-z)
    return (1.0 - math.cosh(sz)) / z, (math.sinh(sz) - sz) / (sz * -z)


def universal(q, e, dt, mass=0.0):
    """(r, v) at dt days after perihelion for any conic (e >= 0), by the universal
    Kepler equation started at perihelion (radial velocity 0):

        k dt = e chi^3 S(alpha chi^2) + q chi,     alpha = (1 - e)/q
        r    = q + e chi^2 C(alpha chi^2)
        x    = q - chi^2 C,   y = sqrt(q (1 + e)) * chi * (1 - z S),   z = alpha chi^2

    For e < 1 dt is first reduced by whole periods."""
    k = K * math.sqrt(1.0 + mass)
    alpha = (1.0 - e) / q
    if e < 1.0:
        a = 1.0 / alpha
        P = TWO_PI * a * math.sqrt(a) / k
        if abs(dt) > 0.5 * P:
            dt = dt - P * round(dt / P)
    sgn = 1.0
    if dt < 0.0:
        sgn, dt = -1.0, -dt
    target = k * dt
    if target == 0.0:
        return q, 0.0

    def F(chi):
        z = alpha * chi * chi
        C, S = stumpff(z)
        return e * chi ** 3 * S + q * chi - target, q + e * chi * chi * C

    # F is increasing (F' = r >= q > 0): bracket, then safeguarded Newton
    lo, hi = 0.0, target / q          # F(target/q) >= 0 because the S term is >= 0
    chi = hi
    if e > 0.0:
        # parabolic-like guess: e chi^3/6 + q chi = target
        chi = min(hi, (6.0 * target / e) ** (1.0 / 3.0))
    for _ in range(300):
        f, fp = F(chi)
        if f > 0.0:
            hi = chi
        else:
            lo = chi
        cn = chi - f / fp
        if not (lo <= cn <= hi):
            cn = 0.5 * (lo + hi)
        if abs(cn - chi) <= 2e-16 * max(abs(chi), 1e-300) or hi - lo <= 1e-17 * hi:
            chi = cn
            break
        chi = cn
    z = alpha * chi * chi
    C, S = stumpff(z)
    x = q - chi * chi * C
    if z > 0.5:
        sz = math.sqrt(z)
        yfac = chi * math.sin(sz) / sz
    elif z < -0.5:
        sz = math.sqrt(-z)
        yfac = chi * math.sinh(sz) / sz
    else:
        yfac = chi * (1.0 - z * S)
    y = math.sqrt(q * (1.0 + e)) * yfac
    return math.hypot(x, y), sgn * math.atan2(y, x)


def propagate(q, e, dt, mass=0.0):
    """(r, v): Newton on the elliptic Kepler equation for e < 0.9, universal variables
    otherwise (the elliptic form loses digits as e -> 1 near perihelion)."""
    if e < 0.9:
        return elliptic(q, e, dt, mass)
    return universal(q, e, dt, mass)


# --------------------------------------------------------------------- geometry

def perifocal_to_ecliptic(r, v, inc, node, peri):
    """Heliocentric ecliptic rectangular coordinates; angles in radians; peri is the
    argument of perihelion."""
    u = peri + v
    cu, su = math.cos(u), math.sin(u)
    cn, sn = math.cos(node), math.sin(node)
    ci, si = math.cos(inc), math.sin(inc)
    return (r * (cn * cu - sn * su * ci),
            r * (sn * cu + cn * su * ci),
            r * (si * su))


def rot_x(vec, eps):
    """Ecliptic -> equatorial rotation about x by the obliquity eps (radians)."""
    x, y, z = vec
    c, s = math.cos(eps), math.sin(eps)
    return (x, y * c - z * s, y * s + z * c)


def visviva(r, a_inv, mass=0.0):
    """Speed (AU/day) at distance r on a conic with 1/a = a_inv."""
    return K * math.sqrt((1.0 + mass) * (2.0 / r - a_inv))


def mean_motion(a, mass=0.0):
    """Kepler III: n (rad/day) with n^2 a^3 = K^2 (1 + mass)."""
    return K * math.sqrt(1.0 + mass) / (a * math.sqrt(a))


# --------------------------------------------------------------------- self test

def _dec_sin(x, prec=60):
    """sin of a Decimal by Taylor series after reduction with a 70-digit pi."""
    D = decimal.Decimal
    with decimal.localcontext() as ctx:
        ctx.prec = prec + 10
        pi = D("3.14159265358979323846264338327950288419716939937510582097494459230781640628620899")
        x = x % (2 * pi)
        if x > pi:
            x -= 2 * pi
        term = x
        tot = x
        n = 1
        while abs(term) > D(10) ** -(prec + 5):
            term = -term * x * x / ((2 * n) * (2 * n + 1))
            tot += term
            n += 1
        return +tot


def _dec_kepler(e, M, prec=50):
    """E with 50 digits: bisection then Newton in decimal (independent of kepler_E)."""
    D = decimal.Decimal
    with decimal.localcontext() as ctx:
        ctx.prec = prec + 10
        e, M = D(e), D(M)
        pi = D("3.14159265358979323846264338327950288419716939937510582097494459230781640628620899")
        lo, hi = D(0), pi
        for _ in range(200):
            mid = (lo + hi) / 2
            if mid - e * _dec_sin(mid) - M > 0:
                hi = mid
            else:
                lo = mid
        return (lo + hi) / 2


def self_test():
    # 1. residual of Kepler's equation on a grid, including hard corners
    for e in (0.0, 1e-9, 0.1, 0.5, 0.9, 0.97, 0.9799999, 0.99, 0.999, 0.999999):
        for M in (0.0, 1e-12, 1e-6, 1e-3, 0.1, 1.0, 2.0, 3.0, math.pi - 1e-9, math.pi,
                  -0.3, 7.0, -11.0, 12345.678):
            E = kepler_E(e, M)
            res = E - e * math.sin(E) - reduce_angle(M)
            if abs(res) > 4e-16 * max(1.0, abs(E)):
                raise AssertionError("kepler_E residual %g at e=%r M=%r" % (res, e, M))
    # 2. 50-digit decimal solution for hard cases
    for e, M in ((0.99, 0.2), (0.999, 0.1221730476), (0.9799999, 0.001), (0.5, 3.0),
                 (0.85, 1e-4), (0.1, 5.0 * math.pi / 180)):
        E = kepler_E(e, M)
        Ed = float(_dec_kepler(e, M))
        # conditioning: dE = dM / (1 - e cos E); M itself carries 1 ulp
        tol = 4e-16 * max(1.0, abs(E)) / max(1e-12, 1.0 - e * math.cos(E)) + 1e-15
        if abs(E - Ed) > tol:
            raise AssertionError("kepler_E %r vs decimal %r at e=%r M=%r" % (E, Ed, e, M))
    # literal anchors (Meeus ch. 30): e=0.1, M=5 deg -> E=5.554589 deg; e=0.99, M=2 deg
    for e, Md, Ed in ((0.1, 5.0, 5.554589), (0.99, 2.0, 32.361007), (0.99, 5.0, 45.361023),
                      (0.99, 1.0, 24.725822), (0.999, 7.0, 52.2702615)):
        E = math.degrees(kepler_E(e, math.radians(Md)))
        if abs(E - Ed) > 6e-7:
            raise AssertionError("Meeus ch.30 anchor e=%r M=%r: %r vs %r" % (e, Md, E, Ed))
    # 3. elliptic == universal
    worst = 0.0
    for q in (0.1, 0.5871018, 1.0, 5.2, 30.0):
        for e in (0.0, 0.05, 0.3, 0.7, 0.9, 0.96, 0.9799999, 0.98, 0.99):
            P = period(q, e)
            for f in (0.0, 1e-9, 1e-5, 0.01, 0.1, 0.25, 0.49, 0.4999, 0.5, -0.3, 0.75, 3.2, -7.6):
                dt = f * P
                r1, v1 = elliptic(q, e, dt)
                r2, v2 = universal(q, e, dt)
                dv = abs(reduce_angle(v1 - v2))
                # near apoapsis of a very eccentric orbit v is ill-conditioned in dt
                # by a/q; allow for it
                cond = max(1.0, (1.0 + e) / (1.0 - e)) * max(1.0, abs(f))
                if dv > 3e-14 * cond or abs(r1 - r2) > 3e-14 * r1 * cond:
                    raise AssertionError("elliptic vs universal: q=%r e=%r dt=%r: dr=%g dv=%g"
                                         % (q, e, dt, r1 - r2, dv))
                worst = max(worst, dv)
    # 4. universal(e = 1) == Barker; continuity across 1
    for q in (0.1, 1.0, 1.487469, 7.5, 30.0):
        for dt in (0.0, 1e-6, 0.01, 1.0, 20.0, 113.0, -400.0, 3000.0, 18262.0):
            r1, v1 = barker(q, dt)
            r2, v2 = universal(q, 1.0, dt)
            if abs(v1 - v2) > 2e-14 or abs(r1 - r2) > 2e-14 * r1:
                raise AssertionError("barker vs universal: q=%r dt=%r: %r %r / %r %r"
                                     % (q, dt, r1, v1, r2, v2))
            r3, v3 = universal(q, 1.0 - 1e-13, dt)
            r4, v4 = universal(q, 1.0 + 1e-13, dt)
            if abs(v3 - v1) > 1e-9 or abs(v4 - v1) > 1e-9 or abs(r3 - r1) > 1e-9 * r1:
                raise AssertionError("discontinuity across e=1 at q=%r dt=%r" % (q, dt))
    # literal anchors: Meeus ch. 34 (parabola): q=1.487469, dt=112.5642 d -> v=66.78862 deg,
    # r=2.133911; ch. 35 (near-parabolic) q=0.921326 e=1 t=138.4783 -> v=102.74426 r=2.364192;
    # q=0.1 e=0.987 t=254.9 -> v=164.50029 r=4.063777; q=3.363943 e=1.05731 t=1237.1 ->
    # v=109.40598 r=10.668551; q=0.5871018 e=0.9672746 t=20 -> v=52.85331 r=0.729116;
    # q=0.123456 e=0.99997 t=0.0001 -> very small v
    for q, e, dt, vd, rr in ((1.487469, 1.0, 112.5642, 66.78862, 2.133911),
                             (0.921326, 1.0, 138.4783, 102.74426, 2.364192),
                             (0.1, 0.987, 254.9, 164.50029, 4.063777),
                             (3.363943, 1.05731, 1237.1, 109.40598, 10.668551),
                             (0.5871018, 0.9672746, 20.0, 52.85331, 0.729116)):
        r, v = universal(q, e, dt)
        if abs(math.degrees(v) - vd) > 6e-6 or abs(r - rr) > 6e-7:
            raise AssertionError("literature anchor q=%r e=%r t=%r: v=%r r=%r (want %r, %r)"
                                 % (q, e, dt, math.degrees(v), r, vd, rr))
    # 5. vis-viva: |d position / dt| by central difference equals the vis-viva speed
    for q, e, dt in ((1.0, 0.3, 40.0), (0.5, 0.95, 3.0), (2.0, 1.0, 100.0), (0.3, 0.999, -10.0),
                     (5.0, 0.0, 1000.0)):
        h = 1e-3
        ra, va = propagate(q, e, dt - h)
        rb, vb = propagate(q, e, dt + h)
        pa = (ra * math.cos(va), ra * math.sin(va))
        pb = (rb * math.cos(vb), rb * math.sin(vb))
        speed = math.hypot(pb[0] - pa[0], pb[1] - pa[1]) / (2 * h)
        r0, _ = propagate(q, e, dt)
        want = visviva(r0, (1.0 - e) / q)
        if abs(speed - want) > 1e-7 * want:
            raise AssertionError("vis-viva: q=%r e=%r dt=%r: %r vs %r" % (q, e, dt, speed, want))
    # 6. Kepler III: the Earth's Gaussian year
    if abs(TWO_PI / mean_motion(1.0) - 365.2568983) > 1e-6:
        raise AssertionError("Gaussian year")
    return True


if __name__ == "__main__":
    self_test()
    print("twobody self-test ok")
