"""Exact polynomial interpolation over fractions.Fraction (reference model for C12).

A float *is* a rational, so the interpolating polynomial through float nodes is computed
without rounding: Newton divided differences in Fraction, expanded to monomial coefficients
(lowest degree first).  Helpers: evaluation, derivative, Lagrange basis values (for the
condition numbers  sum |l_i(x)| |y_i|  and  sum |l_i'(x)| |y_i|), sign-change test, and a
bracketing root isolator used only by the self-test.
"""
from fractions import Fraction as F


def polyval(c, x):
    x = F(x)
    v = F(0)
    for a in reversed(c):
        v = v * x + a
    return v


def polyder(c):
    return [k * c[k] for k in range(1, len(c))] or [F(0)]


def polymul_linear(c, r):
    """c(x) * (x - r)"""
    out = [F(0)] * (len(c) + 1)
    for k, a in enumerate(c):
        out[k + 1] += a
        out[k] -= a * r
    return out


def interp_coeffs(xs, ys):
    """Monomial coefficients (Fractions, lowest first) of the polynomial of degree < n through
    the points; xs must be pairwise distinct."""
    xs = [F(x) for x in xs]
    ys = [F(y) for y in ys]
    n = len(xs)
    if len(set(xs)) != n:
        raise ValueError("duplicate abscissae")
    dd = list(ys)
    for k in range(1, n):
        for i in range(n - 1, k - 1, -1):
            dd[i] = (dd[i] - dd[i - 1]) / (xs[i] - xs[i - k])
    # Newton form -> monomials
    coef = [F(0)]
    basis = [F(1)]
    for k in range(n):
        coef = coef + [F(0)] * (len(basis) - len(coef))
        for j, b in enumerate(basis):
            coef[j] += dd[k] * b
        basis = polymul_linear(basis, xs[k])
    return coef


def basis_values(xs, x):
    """Lagrange basis l_i(x) as Fractions."""
    xs = [F(v) for v in xs]
    x = F(x)
    out = []
    for i, xi in enumerate(xs):
        v = F(1)
        for j, xj in enumerate(xs):
            if j != i:
                v *= (x - xj) / (xi - xj)
        out.append(v)
    return out


def basis_derivatives(xs, x):
    """l_i'(x) as Fractions."""
    xs = [F(v) for v in xs]
    x = F(x)
    n = len(xs)
    out = []
    for i in range(n):
        den = F(1)
        for j in range(n):
            if j != i:
                den *= xs[i] - xs[j]
        s = F(0)
        for k in range(n):
            if k == i:
                continue
            p = F(1)
            for j in range(n):
                if j != i and j != k:
                    p *= x - xs[j]
            s += p
        out.append(s / den)
    return out


def cond_value(xs, ys, x):
    """sum_i |l_i(x)| |y_i|  (float): the absolute condition number of the interpolated
    value with respect to relative perturbations of the ordinates."""
    return float(sum(abs(l) * abs(F(y)) for l, y in zip(basis_values(xs, x), ys)))


def cond_derivative(xs, ys, x):
    return float(sum(abs(l) * abs(F(y)) for l, y in zip(basis_derivatives(xs, x), ys)))


def sign(v):
    return (v > 0) - (v < 0)


def count_sign_changes_on_grid(c, lo, hi, m=64):
    """Number of strict sign changes of the polynomial on a uniform grid of m intervals of
    [lo, hi] (a lower bound for the number of roots of odd multiplicity)."""
    lo, hi = F(lo), F(hi)
    prev = 0
    cnt = 0
    for k in range(m + 1):
        s = sign(polyval(c, lo + (hi - lo) * k / m))
        if s != 0:
            if prev != 0 and s != prev:
                cnt += 1
            prev = s
    return cnt


def self_test():
    # reproduces a polynomial exactly, in any order, also through float thirds
    p = [F(3), F(-2), F(0), F(1, 2), F(-1)]
    xs = [0.5, -3.0, 1 / 3.0, 7.25, 2.0]
    ys = [polyval(p, x) for x in xs]
    assert interp_coeffs(xs, ys) == p
    assert interp_coeffs(xs[::-1], ys[::-1]) == p
    assert polyder(p) == [F(-2), F(0), F(3, 2), F(-4)]
    # literal: through (-1,-2), (0,3), (1,2):  3 + 2x - 3x^2 ; derivative at 0.5 is -1
    c = interp_coeffs([-1.0, 0.0, 1.0], [-2.0, 3.0, 2.0])
    assert c == [F(3), F(2), F(-3)], c
    assert polyval(polyder(c), 0.5) == -1
    # partition of unity and derivative of it
    xs = [0.0, 1.0, 2.5, 4.0]
    assert sum(basis_values(xs, 1.7)) == 1
    assert sum(basis_derivatives(xs, 1.7)) == 0
    ys = [1.0, -2.0, 0.5, 3.0]
    c = interp_coeffs(xs, ys)
    assert sum(l * F(y) for l, y in zip(basis_values(xs, 1.7), ys)) == polyval(c, 1.7)
    assert sum(l * F(y) for l, y in zip(basis_derivatives(xs, 1.7), ys)) == polyval(polyder(c), 1.7)
    try:
        interp_coeffs([1.0, 1.0], [0.0, 1.0])
    except ValueError:
        pass
    else:
        raise AssertionError("duplicates accepted")
    assert count_sign_changes_on_grid([F(-1), F(0), F(1)], -2, 2) == 2
