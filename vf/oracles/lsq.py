"""Exact linear least squares over fractions.Fraction (reference model for C17).

The float inputs are taken at their exact rational values, the normal equations
(Phi^T Phi) c = Phi^T y are formed and solved without rounding (Gaussian elimination over
Fraction, k <= 3 unknowns), and the conditioning of the normal matrix is measured exactly:
kappa_inf(A) = ||A||_inf ||A^-1||_inf, both for A itself and for A scaled symmetrically by
powers of two to a diagonal in [1/2, 2) (the closed-form Cramer solutions the library uses are
invariant under such scalings, so the scaled number is the one that governs their error).
Also: exact correlation coefficient (as r^2 and sign).
"""
import math
from fractions import Fraction as F


class Singular(Exception):
    pass


def gram(phi, y):
    """phi: n rows of k Fractions; y: n Fractions -> (A k x k, b k)."""
    k = len(phi[0])
    A = [[sum(row[i] * row[j] for row in phi) for j in range(k)] for i in range(k)]
    b = [sum(row[i] * yi for row, yi in zip(phi, y)) for i in range(k)]
    return A, b


def det(A):
    k = len(A)
    if k == 1:
        return A[0][0]
    if k == 2:
        return A[0][0] * A[1][1] - A[0][1] * A[1][0]
    if k == 3:
        return (A[0][0] * (A[1][1] * A[2][2] - A[1][2] * A[2][1])
                - A[0][1] * (A[1][0] * A[2][2] - A[1][2] * A[2][0])
                + A[0][2] * (A[1][0] * A[2][1] - A[1][1] * A[2][0]))
    raise ValueError("k <= 3 only")


def solve(A, b):
    """Gaussian elimination with exact arithmetic; raises Singular."""
    k = len(A)
    M = [list(map(F, A[i])) + [F(b[i])] for i in range(k)]
    for c in range(k):
        p = None
        for r in range(c, k):
            if M[r][c] != 0:
                p = r
                break
        if p is None:
            raise Singular()
        M[c], M[p] = M[p], M[c]
        for r in range(k):
            if r != c and M[r][c] != 0:
                f = M[r][c] / M[c][c]
                M[r] = [a - f * bb for a, bb in zip(M[r], M[c])]
    return [M[i][k] / M[i][i] for i in range(k)]


def inverse(A):
    k = len(A)
    cols = []
    for j in range(k):
        e = [F(1) if i == j else F(0) for i in range(k)]
        cols.append(solve(A, e))
    return [[cols[j][i] for j in range(k)] for i in range(k)]


def norm_inf(A):
    return max(sum(abs(v) for v in row) for row in A)


def cond_inf(A):
    """Exact kappa_inf; float('inf') if singular."""
    try:
        return norm_inf(A) * norm_inf(inverse(A))
    except Singular:
        return float("inf")


def pow2_scaling(A):
    """d_i = 2^e_i with d_i^2 A_ii in [1/2, 2)."""
    out = []
    for i in range(len(A)):
        a = A[i][i]
        if a <= 0:
            out.append(F(1))
            continue
        e = math.frexp(float(a))[1]          # a in [2^(e-1), 2^e)
        h = -(e // 2)
        out.append(F(2) ** h)
    return out


def scaled_cond(A):
    d = pow2_scaling(A)
    k = len(A)
    B = [[A[i][j] * d[i] * d[j] for j in range(k)] for i in range(k)]
    return cond_inf(B)


def lstsq(phi, y):
    """Exact least-squares coefficients, the normal matrix and right-hand side."""
    A, b = gram(phi, y)
    return solve(A, b), A, b


def correlation(xs, ys):
    """(sign, r^2 as Fraction) of the exact Pearson coefficient; raises Singular when a
    variance is zero."""
    xs = [F(x) for x in xs]
    ys = [F(y) for y in ys]
    n = len(xs)
    sx, sy = sum(xs), sum(ys)
    cxy = n * sum(a * b for a, b in zip(xs, ys)) - sx * sy
    vx = n * sum(a * a for a in xs) - sx * sx
    vy = n * sum(b * b for b in ys) - sy * sy
    if vx == 0 or vy == 0:
        raise Singular()
    return (cxy > 0) - (cxy < 0), cxy * cxy / (vx * vy)


def correlation_float(xs, ys):
    s, r2 = correlation(xs, ys)
    return s * math.sqrt(float(r2))


def self_test():
    # literal: points (0,1), (1,3), (2,5), (3,7): y = 2x + 1 exactly
    phi = [[F(x), F(1)] for x in (0, 1, 2, 3)]
    c, A, b = lstsq(phi, [F(v) for v in (1, 3, 5, 7)])
    assert c == [F(2), F(1)], c
    assert A == [[F(14), F(6)], [F(6), F(4)]] and det(A) == 20
    # literal: (0,0), (1,1), (2,1): slope 1/2, intercept 1/6
    phi = [[F(x), F(1)] for x in (0, 1, 2)]
    c, A, b = lstsq(phi, [F(0), F(1), F(1)])
    assert c == [F(1, 2), F(1, 6)], c
    # residuals orthogonal to the basis
    res = [F(yv) - (c[0] * x + c[1]) for x, yv in zip((0, 1, 2), (0, 1, 1))]
    assert sum(res) == 0 and sum(r * x for r, x in zip(res, (0, 1, 2))) == 0
    # quadratic through three points is interpolation
    phi = [[F(x) ** 2, F(x), F(1)] for x in (-1, 0, 2)]
    c, A, b = lstsq(phi, [F(4), F(1), F(7)])
    assert c == [F(2), F(-1), F(1)], c
    # inverse / condition number of a literal matrix
    A = [[F(2), F(1)], [F(1), F(1)]]
    assert inverse(A) == [[F(1), F(-1)], [F(-1), F(2)]]
    assert cond_inf(A) == 9
    assert cond_inf([[F(1), F(2)], [F(2), F(4)]]) == float("inf")
    try:
        solve([[F(1), F(1)], [F(1), F(1)]], [F(1), F(2)])
    except Singular:
        pass
    else:
        raise AssertionError("singular system solved")
    s, r2 = correlation([1, 2, 3], [2, 4, 6])
    assert (s, r2) == (1, 1)
    s, r2 = correlation([1, 2, 3], [3, 2, 1.0])
    assert (s, r2) == (-1, 1)
    s, r2 = correlation([0, 1, 2, 3], [0, 1, 0, 1])      # r = 2/sqrt(20) -> r^2 = 1/5
    assert (s, r2) == (1, F(1, 5)), r2
    d = pow2_scaling([[F(1000000), F(0)], [F(0), F(3)]])
    assert d == [F(1, 1024), F(1, 2)], d
