"""Greenwich mean sidereal time, IAU 1982 (Aoki et al. 1982), in exact rational arithmetic.

    GMST(0h UT1) = 24110.54841 s + 8640184.812866 s T + 0.093104 s T^2 - 6.2e-6 s T^3

with T in Julian centuries of 36525 days from JD 2451545.0.  For another time of day the
expression is evaluated with T at the instant and the elapsed fraction of the UT day is
added (one turn per day), which is how the IAU SOFA routine gmst82 states it; this is the
same as adding the day fraction times r = 1.002737909350795 + 5.9006e-11 T - 5.9e-15 T^2
to the 0h value.  Written from the published coefficients, not from pymeeus (which
evaluates the polynomial at the preceding 0h and adds the fraction times the constant
1.00273790935: the two differ by < 5e-9 day over JD 0 .. 5.4e6).

The result is a Fraction in [0, 1) (turns = sidereal days).
"""
import math
from fractions import Fraction as F

A0 = F("24110.54841")
A1 = F("8640184.812866")
A2 = F("0.093104")
A3 = F("-0.0000062")
J2000 = F(2451545)
RATE = F("1.00273790935")            # turns per UT day quoted by the property (at J2000)
RATE_PER_CENTURY = F("5.9006e-11")   # d(rate)/dT of the IAU 1982 expression


def centuries(jd):
    return (F(jd) - J2000) / 36525


def gmst_turns(jd):
    jd = F(jd)
    t = (jd - J2000) / 36525
    sec = A0 + t * (A1 + t * (A2 + t * A3))
    day_fraction = (jd + F(1, 2)) % 1
    return (sec / 86400 + day_fraction) % 1


def circ(d):
    """Signed circular difference of a Fraction of a turn, in (-1/2, 1/2]."""
    d = d % 1
    return d - 1 if d > F(1, 2) else d


def self_test():
    # Meeus, Astronomical Algorithms, example 12.a: 1987 April 10, 0h UT:
    # 13h 10m 46.3668s ; example 12.b: 19h 21m 00s UT -> 8h 34m 57.0896s
    g = gmst_turns(F("2446895.5")) * 86400
    want = 13 * 3600 + 10 * 60 + F("46.3668")
    if abs(g - want) > F(1, 10000):
        raise AssertionError("gmst oracle self-test 12.a: %s" % float(g))
    g = gmst_turns(F("2446896.30625")) * 86400
    want = 8 * 3600 + 34 * 60 + F("57.0896")
    if abs(g - want) > F(1, 10000):
        raise AssertionError("gmst oracle self-test 12.b: %s" % float(g))
    # J2000.0 (noon): 18h 41m 50.54841s
    g = gmst_turns(2451545) * 86400
    if g != 18 * 3600 + 41 * 60 + F("50.54841"):
        raise AssertionError("gmst oracle self-test J2000")
    # rate at J2000: one day later the angle advanced by 1.00273790935 turns
    adv = circ(gmst_turns(2451546) - gmst_turns(2451545) - RATE)
    if abs(adv) > F(1, 10 ** 11):
        raise AssertionError("gmst oracle self-test rate")
    assert math.isclose(float(A1 / 36525 / 86400), 0.00273790935, rel_tol=1e-9)
