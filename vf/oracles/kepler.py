"""Two-body reference computations for C11, written from the definitions (not from pymeeus).

* solve_kepler(e, M):  E with  E - e sin E = M  (radians), safeguarded Newton inside a
  bisection bracket, iterated to the float fixed point (|residual| <= a few ulp).
* true_anomaly(e, E):  v = 2 atan2(sqrt(1+e) sin(E/2), sqrt(1-e) cos(E/2)).
* solve_barker(W):     s with  s^3 + 3 s = W  (parabolic orbit, s = tan(v/2)).
* ellipse_perimeter(a, b):  exact perimeter by the Gauss AGM series.
* GAUSS_K and the derived constants (mean motion of a = 1 AU, circular speed at 1 AU).

self_test() checks the solvers against their defining equations and against literal
anchors (Meeus, Astronomical Algorithms 2nd ed., ch. 30 and 33).
"""
import math

GAUSS_K = 0.01720209895                      # rad/day, a^1.5 scaling (definition)
MEAN_MOTION_DEG = math.degrees(GAUSS_K)      # 0.9856076686... deg/day for a = 1 AU
AU_KM = 149597870.7
CIRCULAR_SPEED_1AU = GAUSS_K * AU_KM / 86400.0   # 29.7847 km/s
BARKER_W = 3.0 * GAUSS_K / math.sqrt(2.0)    # W = BARKER_W * (t - T) / q^1.5


def solve_kepler(e, M):
    """Eccentric anomaly (radians) for 0 <= e < 1 and any real M (radians).  The result
    lies in the same turn as M: E - M is bounded by e."""
    if not (0.0 <= e < 1.0):
        raise ValueError("e out of range")
    turns = math.floor((M + math.pi) / (2.0 * math.pi))
    m = M - turns * 2.0 * math.pi            # in [-pi, pi)
    sign = 1.0
    if m < 0.0:
        sign, m = -1.0, -m
    # now m in [0, pi]; root E in [m, min(pi, m + e)]
    lo, hi = m, min(math.pi, m + e)
    if hi < lo:
        hi = lo
    E = m + e * math.sin(m) if e < 0.8 else hi
    if not (lo <= E <= hi):
        E = 0.5 * (lo + hi)
    for _ in range(200):
        f = E - e * math.sin(E) - m
        if f > 0.0:
            hi = min(hi, E)
        elif f < 0.0:
            lo = max(lo, E)
        else:
            break
        fp = 1.0 - e * math.cos(E)
        En = E - f / fp if fp > 0.0 else 0.5 * (lo + hi)
        if not (lo <= En <= hi):
            En = 0.5 * (lo + hi)
        if En == E or hi - lo <= 1e-16 * max(1.0, hi):
            E = En
            break
        E = En
    return sign * E + turns * 2.0 * math.pi


def true_anomaly(e, E):
    """True anomaly (radians) in the same turn as E."""
    turns = math.floor((E + math.pi) / (2.0 * math.pi))
    Er = E - turns * 2.0 * math.pi
    v = 2.0 * math.atan2(math.sqrt(1.0 + e) * math.sin(Er / 2.0),
                         math.sqrt(1.0 - e) * math.cos(Er / 2.0))
    return v + turns * 2.0 * math.pi


def dv_dE(e, E):
    return math.sqrt((1.0 - e) * (1.0 + e)) / (1.0 - e * math.cos(E))


def dv_dM(e, E):
    d = 1.0 - e * math.cos(E)
    return math.sqrt((1.0 - e) * (1.0 + e)) / (d * d)


def solve_barker(W):
    """Real root s of s^3 + 3 s = W (closed form, then two Newton polishing steps)."""
    h = W / 2.0
    g = math.sqrt(h * h + 1.0)
    # cbrt(h + g) - cbrt(g - h), written without cancellation
    big = (abs(h) + g) ** (1.0 / 3.0)
    s = big - 1.0 / big
    if W < 0.0:
        s = -s
    for _ in range(3):
        s -= (s * s * s + 3.0 * s - W) / (3.0 * s * s + 3.0)
    return s


def ellipse_perimeter(a, b):
    """Exact perimeter of the ellipse with semi-axes a >= b >= 0 (Gauss-AGM):
    P = 2 pi (a0^2 - sum_{n>=0} 2^(n-1) c_n^2) / AGM(a, b),  c_0^2 = a^2 - b^2."""
    if b > a:
        a, b = b, a
    if b == 0.0:
        return 4.0 * a
    an, bn = a, b
    s = 0.5 * (a * a - b * b)
    p = 1.0
    for _ in range(60):
        cn = 0.5 * (an - bn)
        an, bn = 0.5 * (an + bn), math.sqrt(an * bn)
        s += p * cn * cn
        p *= 2.0
        if abs(cn) <= 1e-17 * an:
            break
    return 2.0 * math.pi * (a * a - s) / an


def _perimeter_quadrature(a, b, n=20000):
    # composite Simpson on sqrt(a^2 sin^2 + b^2 cos^2), independent of the AGM form
    h = (math.pi / 2.0) / n
    tot = 0.0
    for i in range(n + 1):
        t = i * h
        w = 1.0 if i in (0, n) else (4.0 if i % 2 else 2.0)
        tot += w * math.sqrt((a * math.sin(t)) ** 2 + (b * math.cos(t)) ** 2)
    return 4.0 * tot * h / 3.0


def self_test():
    # defining equation over a grid incl. hard cases
    for e in (0.0, 0.1, 0.5, 0.9, 0.99, 0.999, 0.999999):
        for Md in (-725.0, -180.0, -1e-9, 0.0, 1e-9, 1e-3, 0.5, 2.0, 5.0, 90.0, 179.999999,
                   180.0, 180.000001, 359.0, 3600.5, 9999.0):
            M = math.radians(Md)
            E = solve_kepler(e, M)
            res = E - e * math.sin(E) - M
            assert abs(res) <= 4e-15 * max(1.0, abs(M)), (e, Md, res)
            assert abs(E - M) <= e + 1e-12, (e, Md)
    # literal anchors (Meeus ch. 30)
    for e, Md, Ed in ((0.1, 5.0, 5.554589), (0.99, 2.0, 32.361007), (0.99, 5.0, 45.361023),
                      (0.99, 1.0, 24.725822), (0.999, 7.0, 52.2702615)):
        E = math.degrees(solve_kepler(e, math.radians(Md)))
        assert abs(E - Ed) < 2e-6, (e, Md, E)
    v = math.degrees(true_anomaly(0.99, math.radians(32.361007)))
    assert abs(v - 152.542134) < 2e-5, v
    for W in (-1e6, -3.0, -1e-9, 0.0, 1e-12, 0.5, 4.0, 1e3, 1e9):
        s = solve_barker(W)
        assert abs(s ** 3 + 3 * s - W) <= 1e-14 * max(1.0, abs(W)), (W, s)
    # Meeus ex. 34.a-like: Barker constant
    assert abs(BARKER_W - 0.03649116245) < 1e-11
    assert abs(MEAN_MOTION_DEG - 0.9856076686) < 1e-10
    assert abs(CIRCULAR_SPEED_1AU - 29.7847) < 1e-4
    # perimeter
    assert abs(ellipse_perimeter(1.0, 1.0) - 2 * math.pi) < 1e-14
    assert abs(ellipse_perimeter(1.0, 0.0) - 4.0) < 1e-14
    for a, b in ((1.0, 0.5), (17.94, 4.55), (3.0, 1e-3), (2.0, 1.9999)):
        p, q = ellipse_perimeter(a, b), _perimeter_quadrature(a, b)
        assert abs(p - q) <= 1e-9 * p, (a, b, p, q)
    # Halley (Meeus ex. 33.b: 77.06 AU)
    a, e = 17.9400782, 0.96727426
    assert abs(ellipse_perimeter(a, a * math.sqrt(1 - e * e)) - 77.06) < 0.02
